"""Texts for MANIFEST.json: what each check claims, in its own words."""

_NOT_BUILT = ('static check for this property is designed (DESIGN.md '
              'section 6) but not yet built in this commit; no claim is made')

NOT_APPLICABLE = {p: _NOT_BUILT for p in
                  ['C%02d' % i for i in range(1, 21)]}

CLAIMS = {
    'C20': {
        'text': 'Decides, for every path of biom/err.py, the structural '
                'clauses of C20: a scoped override is restored on normal and '
                'exceptional exit (must-pass-through on the CFG of errstate), '
                'a refused seterr/seterrcall leaves the profile unchanged '
                '(no store can precede a raise; membership refusal dominates '
                'every use), geterr/seterr hand out copies, the reaction '
                'table has exactly the accepted reactions each bound to its '
                'documented effect, the reaction result is propagated and '
                'raised iff it is an exception, and the seven kinds are '
                'registered with the table error, documented defaults and a '
                'test function of their own axis. These are necessary '
                'conditions of the behaviour, decided for all inputs and '
                'histories at once; message texts and which input triggers '
                'which kind are not decided.',
        'note': 'Trusted: python ast, contextlib.contextmanager semantics, '
                'warnings/sys.stdout. Implicit exceptions (KeyError from a '
                'subscript) are not modelled by the atomicity rule.',
        'technique': 'static analysis: CFG must-pass-through / reachability '
                     '(finally, atomicity), alias-vs-copy provenance, '
                     'agreement of reaction and kind tables',
    },
    'C15': {
        'text': 'Decides structural clauses of C15 on every path of the '
                'validator: an error line in the report always clears the '
                'verdict and the verdict decides the exit status '
                '(reachability on the CFG); every attribute, group and '
                'dataset required by doc/.../biom-2.1.rst is one whose '
                'absence is reported; duplicate/blank id rejection rests on '
                'a value aggregated over all ids of an axis (JSON rows / '
                'columns, HDF5 ids dataset contents); sparse coordinates '
                'have exact lower and upper tests against the dimension of '
                'their own axis; shape is cross-checked with rows/columns/ids '
                'on the right index; record validators (id, metadata '
                'object-or-null) are applied to every record; every key '
                'Table.from_json reads is required by the validator. '
                'Necessary conditions only: acceptance of every written '
                'file and loadability of every accepted file depend on '
                'runtime values and are not decided.',
        'note': 'Trusted: python ast; the .rst specification text; h5py '
                'membership semantics ("name in group").',
        'technique': 'static analysis: CFG reachability (report => invalid), '
                     'agreement of validator tables with the parsed '
                     'specification, aggregate-dataflow and bounds-shape '
                     'rules over the AST',
    },
    'C02': {
        'text': 'Abstractly evaluates Table.to_json in both modes (streamed '
                'direct_io and returned string) into a template of literal '
                'and dynamic pieces and decides: every dynamic text that '
                'reaches the document passes json.dumps (or is a number / ISO '
                'timestamp) - so no character in ids, metadata, table id, '
                'type or generated-by can break the JSON; matrix entries are '
                'formatted only by round-trip-safe conversions and dropped '
                'only when equal to 0; both modes emit the same top-level '
                'members with the same templates; the keys and constants '
                'written are those the reader reads and the validator '
                'accepts; dumps is json.dumps with the numpy-aware encoder. '
                'Necessary conditions for the round trip, decided for all '
                'tables at once; comma/bracket placement for every runtime '
                'shape and equality of parsed values are not decided.',
        'note': 'Trusted: json.dumps escaping, repr(float) round-trips, %f '
                'keeps six decimals; the abstract evaluator sa/emit.py.',
        'technique': 'static analysis: abstract interpretation of the '
                     'string-building code (text-flow/taint with sanitiser '
                     'set), sibling-path comparison, writer/reader/validator '
                     'key agreement',
    },
    'C03': {
        'text': 'Decides structural clauses of the TSV round trip: matrix '
                'values are written with str() of the float (round-trip '
                'safe) in both the streamed and returned forms of '
                'delimited_self, the two forms build the same line '
                'templates, the reader parses values with float and no '
                'caller narrows it, to_tsv and `biom convert` forward the '
                'header/formatter arguments, and the metadata formatter '
                'registry is the inverse of the processing-function registry '
                "on lists of text ('; '.join <-> split(';')+strip). The "
                "reader's runtime heuristics (header detection, "
                'last-column-is-metadata, number-like ids, gzip) are the '
                'bulk of the property and are NOT decided.',
        'note': 'Trusted: str(numpy.float64) is the shortest round-trip '
                'representation; sa/emit.py.',
        'technique': 'static analysis: abstract interpretation of the '
                     'string-building code, argument-forwarding and registry '
                     'agreement rules',
    },
    'C14': {
        'text': 'Decides structural clauses of subsetting-while-reading: '
                'every third-party attribute chain in the package resolves '
                'in the installed libraries (a removed API fails for every '
                'input); tokens split off raw JSON text are individually '
                'whitespace-normalised before they are looked up in the '
                'remap table, and the two slicers/remappers act on their own '
                'coordinate; observation<->rows<->shape[0] and '
                'sample<->columns<->shape[1] in the JSON slicers and the '
                "other axis' member is passed through; every subset path of "
                'from_hdf5 and get_axis_indices contains a raise that '
                'depends on both requested and stored ids; ids read from '
                'HDF5 are decoded as utf8 before they are compared, '
                'converted or handed to the constructor (flow-sensitive '
                'taint); the empty-vector filter runs on the inverted axis '
                'with a sign-insensitive predicate. The raw-text key scanner '
                '(direct_parse_key) and indptr slicing arithmetic are not '
                'decided.',
        'note': 'Trusted: installed numpy/scipy/h5py/pandas/click namespaces '
                '(imported to resolve names only); h5py returns bytes for '
                'vlen-str datasets; numpy bytes->U is an ASCII decode.',
        'technique': 'static analysis: API resolution against the installed '
                     'namespace, flow-sensitive taint (bytes vs decoded '
                     'text), dependence of refusals on requested and stored '
                     'ids, token-normalisation and axis/key agreement rules',
    },
    'C01': {
        'text': 'Decides writer/reader agreement, a necessary condition of '
                'the HDF5 round trip, for all tables at once: every '
                'attribute and path read by both code paths of from_hdf5 is '
                'created by to_hdf5 (abstract evaluation of group handles '
                'and of the axis loop); ids, string metadata, list metadata '
                'and group metadata are encoded utf8 by the writer and '
                'explicitly decoded utf8 by the reader before being '
                'compared, converted or handed to the constructor '
                '(flow-sensitive taint; numpy bytes->U counts as ASCII); the '
                'formatter and parser registries have the same keys mapped '
                'to paired functions and honour user overrides; the inverse '
                "sentinels agree ('/' <-> '@@SLASH@@', \"\" padding <-> "
                'stripping, absent type, placeholder id, isoformat <-> '
                'fromisoformat); the matrix group read follows the axis and '
                'becomes csc for sample / csr for observation; load_table / '
                'save_table forward handle and arguments. Bit-identity of '
                'values, compression and format sniffing are delegated to '
                'h5py/scipy and not decided.',
        'note': 'Trusted: h5py vlen-str datasets read as bytes and str '
                'attributes round-trip as UTF-8; scipy constructors.',
        'technique': 'static analysis: abstract evaluation of HDF5 path '
                     'expressions on writer and reader, registry/sentinel '
                     'agreement, flow-sensitive codec taint',
    },
    'C04': {
        'text': 'Decides that the 8 attributes, 8 groups and 8 datasets '
                'required by doc/.../biom-2.1.rst are created by to_hdf5 on '
                'every path (CFG must-pass-through over the axis loop, both '
                'ids branches) with the specified element types (float64 / '
                'int32 / int32 / vlen str); observation is written from the '
                'csr layout and sample from csc; ids, metadata, group '
                'metadata use the loop axis; the raw arrays written are '
                'those of the freshly converted matrix; nnz, the (nnz,) '
                'dataset lengths and the raw-array reads all follow the '
                'elimination of stored zeros; shape is the matrix shape. '
                'Monotonicity/range of the offset and index arrays and '
                'equality of the two decoded copies follow from scipy\'s '
                'asformat contract given these clauses, but are not proved.',
        'note': 'Trusted: the .rst specification, scipy asformat, h5py '
                'create_dataset.',
        'technique': 'static analysis: writer model vs parsed specification, '
                     'CFG must-pass-through, OR-CANON dominance, axis/layout '
                     'pairing',
    },
    'C16': {
        'text': 'Decides that equality and the structure-sensitive accessors '
                'depend on content only: (G) the constructor eliminates '
                'stored zeros from its own copy and every later store into '
                '_data installs a canonical or invariant-preserving matrix '
                '(flow-sensitive canonical-state analysis of all 11 stores), '
                'so that every structure-sensitive consumption - equality\'s '
                'stored-entry counts, nonzero()\'s index walk, min/max over '
                '.data, the slices handed to transform callbacks - sees a '
                'canonical matrix (or is dominated by a local elimination); '
                'equality reads no index array / format / sortedness; '
                '__eq__ and descriptive_equality make the same comparisons '
                '(class, type, ids and metadata on both axes, data) on the '
                'same operands; __ne__ negates __eq__. The algebraic laws '
                'themselves follow from content-only comparison plus '
                'numpy/scipy semantics and are not proved.',
        'note': 'Trusted: scipy value-preservation table (conversions, '
                'astype copies, eliminate_zeros, comparison results).',
        'technique': 'static analysis: typestate (CANON/NONCANON) over all '
                     'stores to _data, dominance-based local discharge, '
                     'representation-read taint, sibling comparison',
    },
    'C05': {
        'text': "Decides the invariant-maintenance obligations every mutator must meet, for all inputs and histories: replacing the ids of an axis is followed on every path by a rebuild of that axis' lookup (CFG must-pass-through), and a non-None lookup passed on belongs to the axis of its slot; ids/metadata/index fields only ever receive values of their own axis; the filter kernel receives ids, metadata, lookup and numeric axis of one axis, selects rows, ids and metadata with one mask and performs every fallible lookup before compacting in place; errcheck follows the stores of filter/update_ids and guards the constructor; raw metadata is cast; no in-place write ever reaches an id array or lookup dict; every Table method outside the enumerated mutators is observably pure, so all accessors read the one matrix; structure-sensitive accessors (nonzero, min/max, nnz) see a canonical matrix; the err tests and accessors pair shape[0] with observations and shape[1] with samples. Index arithmetic inside _remove_rows_csr and scipy conversions are not decided.",
        'note': 'Trusted: scipy/numpy semantics table in DESIGN.md section 9; the .pyx sources are analysed through the de-cythoniser (whether the prebuilt .so matches them is not visible to a source analysis).',
        'technique': 'static analysis: CFG must-pass-through (reindex, errcheck, cast), axis-role abstract interpretation (each axis-parametrised function interpreted once per concrete axis / mode value; alarms only at sinks whose participants are all resolved), effect/purity summaries, canonical-state typestate',
    },
    'C06': {
        'text': "Decides that reordering/transposing/copying/renaming keep values with ids structurally: in sort_order the matrix, ids and metadata placed in the reordered axis' slots all derive from `order` (matrix and metadata through the same position array) while the other axis passes through; every constructor call places each axis-typed argument in the slot of its axis, flipped exactly when the matrix is transposed (transpose, sort_order, copy, align_to); sort forwards its axis; update_ids writes each new id at the position of the old one into an array wide enough, re-indexes and keeps unmapped ids; copy copies matrix, ids, metadata and type. Natsort order, scipy fancy indexing and injectivity of user renamings are not decided.",
        'note': 'Trusted: scipy fancy indexing / transpose semantics.',
        'technique': 'static analysis: def-use dependence on the permutation, axis-role abstract interpretation (each axis-parametrised function interpreted once per concrete axis / mode value; alarms only at sinks whose participants are all resolved), CFG must-pass-through',
    },
    'C07': {
        'text': 'Decides the effect/aliasing clauses almost entirely: each of the methods with an inplace flag binds one name to self-or-copy, performs every observable write, mutating call and in-place kernel call through that name, returns it on every path and has no second writing branch on inplace (or forwards inplace to such a method) - hence in-place and non-in-place follow one code path; every new-table operation and every accessor has only representation-only write effects on the receiver and on argument tables (transitively through method calls); kernel arrays are rooted at the bound name or a fresh table; the matrix of every newly constructed table is fresh at the call site or copied by the constructor, metadata mappings are rebuilt by the constructor, copy() copies ids/metadata/type; no in-place element write reaches an id array or lookup dict anywhere in the package. User callbacks that mutate their arguments are outside the analysis.',
        'note': 'Trusted: scipy may-alias (tocsr/tocsc/asformat) vs allocating (copy/astype/transpose(copy=True)/fancy index) operations; numpy slicing returns views.',
        'technique': 'static analysis: may-alias/ownership analysis and write-effect summaries over all Table methods with transitive call resolution',
    },
    'C08': {
        'text': "Decides: Table.filter hands the kernel ids, metadata, lookup and numeric axis of one and the same axis and reinstalls results in that axis' fields; both selection paths XOR with invert; the predicate is called exactly once per id in order with its own id and metadata; one mask selects rows, ids, metadata; unknown ids fail before anything is compacted; because the predicate kernel rebuilds vectors by one ascending scan over the indices, filter sorts the indices on every path that reaches it with a csr/csc matrix; remove_empty's emptiness test is sign-insensitive; head keeps the leading n observations and m samples and `biom head` passes its counts in that order; filter/remove_empty follow the single inplace-bound code path. The compaction arithmetic of _remove_rows_csr is not decided.",
        'note': 'Trusted: scipy format conversion sorts indices; sort_indices preserves values.',
        'technique': 'static analysis: axis-role abstract interpretation (each axis-parametrised function interpreted once per concrete axis / mode value; alarms only at sinks whose participants are all resolved), kernel AST rules on the de-cythonised .pyx, CFG dominance (sorted before kernel), emptiness-predicate classification',
    },
    'C09': {
        'text': "Decides: the metadata-dropping fast path must be guarded by a condition on the metadata of every operand or on both merge functions being None (violated on this tree: recorded known finding D7); union/intersection select the matching id-order helper and other values raise; ids are looked up with the axis they belong to and vectors are indexed with positions from the same table's lookup of the complementary axis (owner check); both result constructions place values in the slots of their axis; the fast path reads the eliminating nnz before taking COO arrays and remaps rows through observation ids, columns through sample ids; metadata functions get (receiver md, other md); shared cells are the sum. Totals and COO duplicate summation are delegated to scipy.",
        'note': 'Trusted: scipy COO->CSR sums duplicates.',
        'technique': 'static analysis: guard-dependence analysis, axis-role abstract interpretation (each axis-parametrised function interpreted once per concrete axis / mode value; alarms only at sinks whose participants are all resolved) with table-ownership tracking',
    },
    'C10': {
        'text': "Decides: a DisjointIDError guarded by a test over every operand's concatenated-axis ids precedes the stacking; every table entering the stack is guarded equal to, or sorted into, the common other-axis order; hstack/vstack grow the dimension of the axis whose ids are concatenated, padding blocks have (observations, samples) shape, stacked matrices share orientation, and all four constructor calls place ids/metadata in the slots of their axis; metadata(i, axis) is asked for the other axis' ids; biom.concat normalises a single table like Table.concat. Zero padding values and totals are not decided.",
        'note': 'Trusted: scipy hstack grows columns / vstack rows.',
        'technique': 'static analysis: CFG dominance, axis-role abstract interpretation (each axis-parametrised function interpreted once per concrete axis / mode value; alarms only at sinks whose participants are all resolved), wrapper/sibling comparison',
    },
    'C11': {
        'text': "Decides the structural half: in partition and collapse every constructor call places ids, metadata and lookups in the slots of their axis in both axis specialisations; the shared other-axis lookup passed by partition is that axis' lookup; vectors collected per group are assembled with the transpose flag that yields observations x samples (one-to-one mode) and the one-to-many accumulator is oriented/transposed per axis; collapse and partition have no observable write effect on the receiver; collapse checks the empty kind. Exact group membership, sums, division and label hashing are runtime arithmetic and are NOT decided.",
        'note': 'Trusted: scipy constructors.',
        'technique': 'static analysis: axis-role abstract interpretation (each axis-parametrised function interpreted once per concrete axis / mode value; alarms only at sinks whose participants are all resolved) (specialised on axis and one_to_many), effect summaries',
    },
    'C12': {
        'text': "Decides: the per-vector kernel is handed the matrix view whose major axis is the axis the method operates along; it runs on a fresh copy's matrix; all randomness flows from the generator built from seed (no global RNG call; positive control embedded); with_replacement selects the kernel and n is passed through; post-kernel empty-vector filters run on the axis then its inverse (sum()>0 admissible: counts are non-negative by construction); ids are shuffled on a private copy; both kernels must guard the degenerate vector before drawing (violated for the with-replacement kernel: recorded known finding D14). The sampling walk, exact sums and unbiasedness are statistical/runtime and NOT decided.",
        'note': 'Trusted: numpy Generator API. The .pyx is analysed as source.',
        'technique': 'static analysis: axis-role abstract interpretation (each axis-parametrised function interpreted once per concrete axis / mode value; alarms only at sinks whose participants are all resolved) kernel sink, sibling-kernel guard comparison on the de-cythonised .pyx, RNG provenance rule, ownership analysis',
    },
    'C13': {
        'text': "Decides: Table.transform hands _transform a matrix view, ids, metadata and numeric axis of one axis; the kernel writes back exactly the slice it read with that vector's id and metadata; the callback sees a canonical matrix (only non-zero entries) and zeros it produces are eliminated before the matrix is reinstalled; transform follows the single inplace-bound path and norm/rankdata/pa forward axis and inplace (and normalize-table forwards --axis); presence/absence is 1 exactly where value != 0. Numeric results of norm/rankdata are not decided.",
        'note': 'Trusted: scipy csr/csc layout.',
        'technique': 'static analysis: axis-role abstract interpretation (each axis-parametrised function interpreted once per concrete axis / mode value; alarms only at sinks whose participants are all resolved) kernel sink, kernel AST rule, effect summaries, canonical-state typestate, forwarding rules',
    },
    'C17': {
        'text': 'Decides: every documented input form of _to_sparse dispatches to a defined converter with dtype (and shape) forwarded and unknown input raises the table error; every accepted form ends canonical (converter or constructor) which is what lets tables built from different forms compare equal; the constructor sizes converted input by (len(observation_ids), len(sample_ids)), casts to float, stores each argument in the field of its axis, validates by default on every path after the fields are installed, and the six structural kinds raise the table error by default; from_adjacency and parse_uc key rows by position in the list passed as observation ids and columns by position in the sample list; the checked metadata must be the supplied metadata (violated on the all-falsy path: recorded known findings D15a/b). Cross-form value equality and shape-inference heuristics are not decided.',
        'note': 'Trusted: scipy constructors; python dict semantics.',
        'technique': 'static analysis: dispatch-table rule, canonical-state typestate, CFG must-pass-through, axis-role abstract interpretation (each axis-parametrised function interpreted once per concrete axis / mode value; alarms only at sinks whose participants are all resolved), coordinate-provenance dataflow',
    },
    'C18': {
        'text': "Decides: add_metadata / del_metadata / _cast_metadata / add_group_metadata write metadata fields only (never ids, lookups or matrix; no kernel; no other mutator); add_metadata updates only ids that exist on the given axis through their own mapping, builds new tuples per id of that axis in order and stores them in that axis' field, then re-casts on every path; del_metadata's only deletion is `del md[k]` for k in the requested keys on the requested axes; add-metadata parses each mapping file with its own header option and adds it on its own axis. The mapping-file row grammar (MetadataMap.from_file) is runtime text processing and is NOT decided.",
        'note': 'Trusted: dict.update overwrite semantics.',
        'technique': 'static analysis: write-effect summaries, axis-role abstract interpretation (each axis-parametrised function interpreted once per concrete axis / mode value; alarms only at sinks whose participants are all resolved), CFG must-pass-through, CLI pairing rule',
    },
    'C19': {
        'text': 'Decides: the axis accessors and summaries return values of the axis asked for (sum maps sample->scipy axis 0, i.e. one value per column; min/max/nonzero_counts/reduce allocate per id of the axis and fill iterating the same axis); _axis_to_num is sample->1/observation->0; density divides the eliminating nnz by both axis lengths once each; min/max see a canonical matrix; to_dataframe labels rows with observation ids and columns with sample ids, metadata_to_dataframe labels rows with the ids of the axis iterated; table-ids, head and export-metadata pass their flags to the right axis; qualitative per-sample counts count non-zero entries. Every formatted figure of summarize-table, medians and means are not decided.',
        'note': 'Trusted: scipy sum(axis) semantics; pandas DataFrame index/columns.',
        'technique': 'static analysis: axis-role abstract interpretation (each axis-parametrised function interpreted once per concrete axis / mode value; alarms only at sinks whose participants are all resolved) with return-axis expectations, flag/axis forwarding rules',
    },
}
