"""Texts for MANIFEST.json: what each check claims, in its own words."""

_NOT_BUILT = ('static check for this property is designed (DESIGN.md '
              'section 6) but not yet built in this commit; no claim is made')

NOT_APPLICABLE = {p: _NOT_BUILT for p in
                  ['C%02d' % i for i in range(1, 21)]}

CLAIMS = {
    'C20': {
        'text': 'Decides, for every path of biom/err.py, the structural '
                'clauses of C20: a scoped override is restored on normal and '
                'exceptional exit (must-pass-through on the CFG of errstate), '
                'a refused seterr/seterrcall leaves the profile unchanged '
                '(no store can precede a raise; membership refusal dominates '
                'every use), geterr/seterr hand out copies, the reaction '
                'table has exactly the accepted reactions each bound to its '
                'documented effect, the reaction result is propagated and '
                'raised iff it is an exception, and the seven kinds are '
                'registered with the table error, documented defaults and a '
                'test function of their own axis. These are necessary '
                'conditions of the behaviour, decided for all inputs and '
                'histories at once; message texts and which input triggers '
                'which kind are not decided.',
        'note': 'Trusted: python ast, contextlib.contextmanager semantics, '
                'warnings/sys.stdout. Implicit exceptions (KeyError from a '
                'subscript) are not modelled by the atomicity rule.',
        'technique': 'static analysis: CFG must-pass-through / reachability '
                     '(finally, atomicity), alias-vs-copy provenance, '
                     'agreement of reaction and kind tables',
    },
    'C15': {
        'text': 'Decides structural clauses of C15 on every path of the '
                'validator: an error line in the report always clears the '
                'verdict and the verdict decides the exit status '
                '(reachability on the CFG); every attribute, group and '
                'dataset required by doc/.../biom-2.1.rst is one whose '
                'absence is reported; duplicate/blank id rejection rests on '
                'a value aggregated over all ids of an axis (JSON rows / '
                'columns, HDF5 ids dataset contents); sparse coordinates '
                'have exact lower and upper tests against the dimension of '
                'their own axis; shape is cross-checked with rows/columns/ids '
                'on the right index; record validators (id, metadata '
                'object-or-null) are applied to every record; every key '
                'Table.from_json reads is required by the validator. '
                'Necessary conditions only: acceptance of every written '
                'file and loadability of every accepted file depend on '
                'runtime values and are not decided.',
        'note': 'Trusted: python ast; the .rst specification text; h5py '
                'membership semantics ("name in group").',
        'technique': 'static analysis: CFG reachability (report => invalid), '
                     'agreement of validator tables with the parsed '
                     'specification, aggregate-dataflow and bounds-shape '
                     'rules over the AST',
    },
    'C02': {
        'text': 'Abstractly evaluates Table.to_json in both modes (streamed '
                'direct_io and returned string) into a template of literal '
                'and dynamic pieces and decides: every dynamic text that '
                'reaches the document passes json.dumps (or is a number / ISO '
                'timestamp) - so no character in ids, metadata, table id, '
                'type or generated-by can break the JSON; matrix entries are '
                'formatted only by round-trip-safe conversions and dropped '
                'only when equal to 0; both modes emit the same top-level '
                'members with the same templates; the keys and constants '
                'written are those the reader reads and the validator '
                'accepts; dumps is json.dumps with the numpy-aware encoder. '
                'Necessary conditions for the round trip, decided for all '
                'tables at once; comma/bracket placement for every runtime '
                'shape and equality of parsed values are not decided.',
        'note': 'Trusted: json.dumps escaping, repr(float) round-trips, %f '
                'keeps six decimals; the abstract evaluator sa/emit.py.',
        'technique': 'static analysis: abstract interpretation of the '
                     'string-building code (text-flow/taint with sanitiser '
                     'set), sibling-path comparison, writer/reader/validator '
                     'key agreement',
    },
    'C03': {
        'text': 'Decides structural clauses of the TSV round trip: matrix '
                'values are written with str() of the float (round-trip '
                'safe) in both the streamed and returned forms of '
                'delimited_self, the two forms build the same line '
                'templates, the reader parses values with float and no '
                'caller narrows it, to_tsv and `biom convert` forward the '
                'header/formatter arguments, and the metadata formatter '
                'registry is the inverse of the processing-function registry '
                "on lists of text ('; '.join <-> split(';')+strip). The "
                "reader's runtime heuristics (header detection, "
                'last-column-is-metadata, number-like ids, gzip) are the '
                'bulk of the property and are NOT decided.',
        'note': 'Trusted: str(numpy.float64) is the shortest round-trip '
                'representation; sa/emit.py.',
        'technique': 'static analysis: abstract interpretation of the '
                     'string-building code, argument-forwarding and registry '
                     'agreement rules',
    },
    'C14': {
        'text': 'Decides structural clauses of subsetting-while-reading: '
                'every third-party attribute chain in the package resolves '
                'in the installed libraries (a removed API fails for every '
                'input); tokens split off raw JSON text are individually '
                'whitespace-normalised before they are looked up in the '
                'remap table, and the two slicers/remappers act on their own '
                'coordinate; observation<->rows<->shape[0] and '
                'sample<->columns<->shape[1] in the JSON slicers and the '
                "other axis' member is passed through; every subset path of "
                'from_hdf5 and get_axis_indices contains a raise that '
                'depends on both requested and stored ids; ids read from '
                'HDF5 are decoded as utf8 before they are compared, '
                'converted or handed to the constructor (flow-sensitive '
                'taint); the empty-vector filter runs on the inverted axis '
                'with a sign-insensitive predicate. The raw-text key scanner '
                '(direct_parse_key) and indptr slicing arithmetic are not '
                'decided.',
        'note': 'Trusted: installed numpy/scipy/h5py/pandas/click namespaces '
                '(imported to resolve names only); h5py returns bytes for '
                'vlen-str datasets; numpy bytes->U is an ASCII decode.',
        'technique': 'static analysis: API resolution against the installed '
                     'namespace, flow-sensitive taint (bytes vs decoded '
                     'text), dependence of refusals on requested and stored '
                     'ids, token-normalisation and axis/key agreement rules',
    },
}
