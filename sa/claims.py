"""Texts for MANIFEST.json: what each check claims, in its own words."""

_NOT_BUILT = ('static check for this property is designed (DESIGN.md '
              'section 6) but not yet built in this commit; no claim is made')

NOT_APPLICABLE = {p: _NOT_BUILT for p in
                  ['C%02d' % i for i in range(1, 21)]}

CLAIMS = {
    'C20': {
        'text': 'Decides, for every path of biom/err.py, the structural '
                'clauses of C20: a scoped override is restored on normal and '
                'exceptional exit (must-pass-through on the CFG of errstate), '
                'a refused seterr/seterrcall leaves the profile unchanged '
                '(no store can precede a raise; membership refusal dominates '
                'every use), geterr/seterr hand out copies, the reaction '
                'table has exactly the accepted reactions each bound to its '
                'documented effect, the reaction result is propagated and '
                'raised iff it is an exception, and the seven kinds are '
                'registered with the table error, documented defaults and a '
                'test function of their own axis. These are necessary '
                'conditions of the behaviour, decided for all inputs and '
                'histories at once; message texts and which input triggers '
                'which kind are not decided.',
        'note': 'Trusted: python ast, contextlib.contextmanager semantics, '
                'warnings/sys.stdout. Implicit exceptions (KeyError from a '
                'subscript) are not modelled by the atomicity rule.',
        'technique': 'static analysis: CFG must-pass-through / reachability '
                     '(finally, atomicity), alias-vs-copy provenance, '
                     'agreement of reaction and kind tables',
    },
    'C15': {
        'text': 'Decides structural clauses of C15 on every path of the '
                'validator: an error line in the report always clears the '
                'verdict and the verdict decides the exit status '
                '(reachability on the CFG); every attribute, group and '
                'dataset required by doc/.../biom-2.1.rst is one whose '
                'absence is reported; duplicate/blank id rejection rests on '
                'a value aggregated over all ids of an axis (JSON rows / '
                'columns, HDF5 ids dataset contents); sparse coordinates '
                'have exact lower and upper tests against the dimension of '
                'their own axis; shape is cross-checked with rows/columns/ids '
                'on the right index; record validators (id, metadata '
                'object-or-null) are applied to every record; every key '
                'Table.from_json reads is required by the validator. '
                'Necessary conditions only: acceptance of every written '
                'file and loadability of every accepted file depend on '
                'runtime values and are not decided.',
        'note': 'Trusted: python ast; the .rst specification text; h5py '
                'membership semantics ("name in group").',
        'technique': 'static analysis: CFG reachability (report => invalid), '
                     'agreement of validator tables with the parsed '
                     'specification, aggregate-dataflow and bounds-shape '
                     'rules over the AST',
    },
    'C02': {
        'text': 'Abstractly evaluates Table.to_json in both modes (streamed '
                'direct_io and returned string) into a template of literal '
                'and dynamic pieces and decides: every dynamic text that '
                'reaches the document passes json.dumps (or is a number / ISO '
                'timestamp) - so no character in ids, metadata, table id, '
                'type or generated-by can break the JSON; matrix entries are '
                'formatted only by round-trip-safe conversions and dropped '
                'only when equal to 0; both modes emit the same top-level '
                'members with the same templates; the keys and constants '
                'written are those the reader reads and the validator '
                'accepts; dumps is json.dumps with the numpy-aware encoder. '
                'Necessary conditions for the round trip, decided for all '
                'tables at once; comma/bracket placement for every runtime '
                'shape and equality of parsed values are not decided.',
        'note': 'Trusted: json.dumps escaping, repr(float) round-trips, %f '
                'keeps six decimals; the abstract evaluator sa/emit.py.',
        'technique': 'static analysis: abstract interpretation of the '
                     'string-building code (text-flow/taint with sanitiser '
                     'set), sibling-path comparison, writer/reader/validator '
                     'key agreement',
    },
    'C03': {
        'text': 'Decides structural clauses of the TSV round trip: matrix '
                'values are written with str() of the float (round-trip '
                'safe) in both the streamed and returned forms of '
                'delimited_self, the two forms build the same line '
                'templates, the reader parses values with float and no '
                'caller narrows it, to_tsv and `biom convert` forward the '
                'header/formatter arguments, and the metadata formatter '
                'registry is the inverse of the processing-function registry '
                "on lists of text ('; '.join <-> split(';')+strip). The "
                "reader's runtime heuristics (header detection, "
                'last-column-is-metadata, number-like ids, gzip) are the '
                'bulk of the property and are NOT decided.',
        'note': 'Trusted: str(numpy.float64) is the shortest round-trip '
                'representation; sa/emit.py.',
        'technique': 'static analysis: abstract interpretation of the '
                     'string-building code, argument-forwarding and registry '
                     'agreement rules',
    },
    'C14': {
        'text': 'Decides structural clauses of subsetting-while-reading: '
                'every third-party attribute chain in the package resolves '
                'in the installed libraries (a removed API fails for every '
                'input); tokens split off raw JSON text are individually '
                'whitespace-normalised before they are looked up in the '
                'remap table, and the two slicers/remappers act on their own '
                'coordinate; observation<->rows<->shape[0] and '
                'sample<->columns<->shape[1] in the JSON slicers and the '
                "other axis' member is passed through; every subset path of "
                'from_hdf5 and get_axis_indices contains a raise that '
                'depends on both requested and stored ids; ids read from '
                'HDF5 are decoded as utf8 before they are compared, '
                'converted or handed to the constructor (flow-sensitive '
                'taint); the empty-vector filter runs on the inverted axis '
                'with a sign-insensitive predicate. The raw-text key scanner '
                '(direct_parse_key) and indptr slicing arithmetic are not '
                'decided.',
        'note': 'Trusted: installed numpy/scipy/h5py/pandas/click namespaces '
                '(imported to resolve names only); h5py returns bytes for '
                'vlen-str datasets; numpy bytes->U is an ASCII decode.',
        'technique': 'static analysis: API resolution against the installed '
                     'namespace, flow-sensitive taint (bytes vs decoded '
                     'text), dependence of refusals on requested and stored '
                     'ids, token-normalisation and axis/key agreement rules',
    },
    'C01': {
        'text': 'Decides writer/reader agreement, a necessary condition of '
                'the HDF5 round trip, for all tables at once: every '
                'attribute and path read by both code paths of from_hdf5 is '
                'created by to_hdf5 (abstract evaluation of group handles '
                'and of the axis loop); ids, string metadata, list metadata '
                'and group metadata are encoded utf8 by the writer and '
                'explicitly decoded utf8 by the reader before being '
                'compared, converted or handed to the constructor '
                '(flow-sensitive taint; numpy bytes->U counts as ASCII); the '
                'formatter and parser registries have the same keys mapped '
                'to paired functions and honour user overrides; the inverse '
                "sentinels agree ('/' <-> '@@SLASH@@', \"\" padding <-> "
                'stripping, absent type, placeholder id, isoformat <-> '
                'fromisoformat); the matrix group read follows the axis and '
                'becomes csc for sample / csr for observation; load_table / '
                'save_table forward handle and arguments. Bit-identity of '
                'values, compression and format sniffing are delegated to '
                'h5py/scipy and not decided.',
        'note': 'Trusted: h5py vlen-str datasets read as bytes and str '
                'attributes round-trip as UTF-8; scipy constructors.',
        'technique': 'static analysis: abstract evaluation of HDF5 path '
                     'expressions on writer and reader, registry/sentinel '
                     'agreement, flow-sensitive codec taint',
    },
    'C04': {
        'text': 'Decides that the 8 attributes, 8 groups and 8 datasets '
                'required by doc/.../biom-2.1.rst are created by to_hdf5 on '
                'every path (CFG must-pass-through over the axis loop, both '
                'ids branches) with the specified element types (float64 / '
                'int32 / int32 / vlen str); observation is written from the '
                'csr layout and sample from csc; ids, metadata, group '
                'metadata use the loop axis; the raw arrays written are '
                'those of the freshly converted matrix; nnz, the (nnz,) '
                'dataset lengths and the raw-array reads all follow the '
                'elimination of stored zeros; shape is the matrix shape. '
                'Monotonicity/range of the offset and index arrays and '
                'equality of the two decoded copies follow from scipy\'s '
                'asformat contract given these clauses, but are not proved.',
        'note': 'Trusted: the .rst specification, scipy asformat, h5py '
                'create_dataset.',
        'technique': 'static analysis: writer model vs parsed specification, '
                     'CFG must-pass-through, OR-CANON dominance, axis/layout '
                     'pairing',
    },
    'C16': {
        'text': 'Decides that equality and the structure-sensitive accessors '
                'depend on content only: (G) the constructor eliminates '
                'stored zeros from its own copy and every later store into '
                '_data installs a canonical or invariant-preserving matrix '
                '(flow-sensitive canonical-state analysis of all 11 stores), '
                'so that every structure-sensitive consumption - equality\'s '
                'stored-entry counts, nonzero()\'s index walk, min/max over '
                '.data, the slices handed to transform callbacks - sees a '
                'canonical matrix (or is dominated by a local elimination); '
                'equality reads no index array / format / sortedness; '
                '__eq__ and descriptive_equality make the same comparisons '
                '(class, type, ids and metadata on both axes, data) on the '
                'same operands; __ne__ negates __eq__. The algebraic laws '
                'themselves follow from content-only comparison plus '
                'numpy/scipy semantics and are not proved.',
        'note': 'Trusted: scipy value-preservation table (conversions, '
                'astype copies, eliminate_zeros, comparison results).',
        'technique': 'static analysis: typestate (CANON/NONCANON) over all '
                     'stores to _data, dominance-based local discharge, '
                     'representation-read taint, sibling comparison',
    },
}
