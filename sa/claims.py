"""Texts for MANIFEST.json: what each check claims, in its own words."""

_NOT_BUILT = ('static check for this property is designed (DESIGN.md '
              'section 6) but not yet built in this commit; no claim is made')

NOT_APPLICABLE = {p: _NOT_BUILT for p in
                  ['C%02d' % i for i in range(1, 21)]}

CLAIMS = {
    'C20': {
        'text': 'Decides, for every path of biom/err.py, the structural '
                'clauses of C20: a scoped override is restored on normal and '
                'exceptional exit (must-pass-through on the CFG of errstate), '
                'a refused seterr/seterrcall leaves the profile unchanged '
                '(no store can precede a raise; membership refusal dominates '
                'every use), geterr/seterr hand out copies, the reaction '
                'table has exactly the accepted reactions each bound to its '
                'documented effect, the reaction result is propagated and '
                'raised iff it is an exception, and the seven kinds are '
                'registered with the table error, documented defaults and a '
                'test function of their own axis. These are necessary '
                'conditions of the behaviour, decided for all inputs and '
                'histories at once; message texts and which input triggers '
                'which kind are not decided.',
        'note': 'Trusted: python ast, contextlib.contextmanager semantics, '
                'warnings/sys.stdout. Implicit exceptions (KeyError from a '
                'subscript) are not modelled by the atomicity rule.',
        'technique': 'static analysis: CFG must-pass-through / reachability '
                     '(finally, atomicity), alias-vs-copy provenance, '
                     'agreement of reaction and kind tables',
    },
}
