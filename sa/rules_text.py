"""Text rules over the JSON and TSV writers (C02, C03, parts of C15/C16)."""
import ast
import re

from .astutil import (body_walk, call_name, const_str, dotted, kwarg,
                      param_names, param_default, unparse)
from .consteval import ConstEval, UNKNOWN
from .emit import (Emit, TRUTHY, FALSY, SV, LV, AV, flatten_out, iter_dyn,
                   render, _flatten_list, _norm)
from .source import AnalysisError

TABLE = 'biom/table.py'

# dynamic text kinds that cannot break the JSON document
JSON_SAFE = {'dumps', 'int', 'float_fixed', 'isoformat', 'repr_num',
             'str_num', 'rounded', 'num'}
# conversions of a float that re-parse to the same double
LOSSLESS = {'repr_num', 'str_num', 'dumps', 'repr', 'str', 'num'}

MATRIX_ROOT = re.compile(
    r'(self\.iter\([^)]*\)\[\*\]\[0\])|(self\.iter_data\()|'
    r'(self\._iter_obs\(\))|(self\._iter_samp\(\))|(self\._data\b)|'
    r'(self\.matrix_data\b)|(self\._to_dense\()|(self\.data\()|'
    r'(self\._get_row\()|(self\._get_col\()')


def is_matrix_prov(prov):
    return any(MATRIX_ROOT.search(p) for p in prov)


# --------------------------------------------------------------------------
# splitting an emitted JSON document into its top-level members
# --------------------------------------------------------------------------

KEY_RE = re.compile(r'"([A-Za-z_]+)":')


def _depth_delta(stream):
    d = 0
    for it in stream:
        if it[0] == 'lit':
            d += sum(it[1].count(c) for c in '{[') - \
                sum(it[1].count(c) for c in '}]')
        elif it[0] == 'alt' and it[1]:
            d += _depth_delta(it[1][0])
        elif it[0] == 'join':
            pass
        elif it[0] == 'rep':
            pass
    return d


def split_members(stream, depth=0, members=None, state=None):
    """-> dict key -> list of streams (one per occurrence/alternative).

    ``state`` = [current key, current stream, depth]."""
    if members is None:
        members = {}
    if state is None:
        state = [None, [], depth]

    def flush():
        if state[0] is not None:
            members.setdefault(state[0], []).append(_norm(tuple(state[1])))
        state[0], state[1] = None, []

    for it in stream:
        if it[0] == 'lit':
            text = it[1]
            i = 0
            buf = ''
            while i < len(text):
                m = KEY_RE.match(text, i) if state[2] == 1 else None
                if m:
                    if buf:
                        state[1].append(('lit', buf))
                        buf = ''
                    flush()
                    state[0] = m.group(1)
                    buf = m.group(0)
                    i = m.end()
                    continue
                ch = text[i]
                if ch in '{[':
                    state[2] += 1
                    if state[2] == 1:
                        i += 1
                        continue       # the outer brace belongs to no member
                elif ch in '}]':
                    state[2] -= 1
                    if state[2] == 0:
                        if buf:
                            state[1].append(('lit', buf))
                            buf = ''
                        flush()
                        i += 1
                        continue
                buf += ch
                i += 1
            if buf:
                state[1].append(('lit', buf))
        elif it[0] == 'alt' and state[2] == 1 and all(
                o and o[0][0] == 'lit' and KEY_RE.match(o[0][1])
                for o in it[1]):
            flush()
            for o in it[1]:
                st2 = [None, [], 1]
                split_members(o, 1, members, st2)
                if st2[0] is not None:
                    members.setdefault(st2[0], []).append(
                        _norm(tuple(st2[1])))
        else:
            state[1].append(it)
            if it[0] == 'alt':
                state[2] += _depth_delta(it[1][0]) if it[1] else 0
    if depth == 0:
        flush()
    return members


def json_paths(repo):
    """Abstractly evaluate Table.to_json in both modes.
    -> {mode: (stream, members)}"""
    f = repo.func(TABLE, 'Table.to_json')
    out_param = 'direct_io'
    if out_param not in param_names(f):
        raise AnalysisError("Table.to_json has no direct_io parameter")
    res = {}
    for mode, label in ((TRUTHY, 'direct_io'), (FALSY, 'string')):
        e = Emit(repo, TABLE, f, {out_param: mode}, out_param=out_param).run()
        if mode == TRUTHY:
            stream = flatten_out(e.out)
        else:
            if not e.returns:
                raise AnalysisError("to_json returns nothing in string mode")
            stream = flatten_out(e.returns[0]) if len(e.returns) == 1 else \
                (('alt', tuple(flatten_out(r) for r in e.returns)),)
        res[label] = (stream, split_members(stream))
    return res


# --------------------------------------------------------------------------
# C02
# --------------------------------------------------------------------------

def rule_ta_escape(repo, col):
    """Every non-constant text that reaches the JSON output passes
    ``dumps`` (or is a number / ISO timestamp); both writer paths."""
    rule = 'TA-ESCAPE'
    paths = json_paths(repo)
    for label, (stream, members) in paths.items():
        if not members:
            col.unknown(rule, TABLE, 'Table.to_json', 'path:%s' % label, None,
                        'no top-level members recognised')
            continue
        for key, occs in sorted(members.items()):
            seen = set()
            for occ in occs:
                for d in iter_dyn(occ):
                    kind, src, prov = d[1], d[2], d[3]
                    ident = (kind, src)
                    if ident in seen:
                        continue
                    seen.add(ident)
                    role = '%s:%s:%s' % (label, key, _src_role(src))
                    if kind in JSON_SAFE:
                        col.ok(rule, TABLE, 'Table.to_json', role, src,
                               'produced by %s' % kind)
                    elif kind in ('str', 'repr') and is_matrix_prov(prov):
                        col.ok(rule, TABLE, 'Table.to_json', role, src,
                               'number formatted by %s' % kind)
                    else:
                        col.bad(rule, TABLE, 'Table.to_json', role, src,
                                "dynamic text reaches the JSON member '%s' "
                                'without JSON escaping (%s): a quote, '
                                'backslash or control character in it breaks '
                                'the document' % (key, kind))
        # literal text must itself be JSON-safe between the quotes
    # ids and metadata go through dumps
    for label, (stream, members) in paths.items():
        for key in ('rows', 'columns'):
            occs = members.get(key, [])
            kinds = {d[1] for occ in occs for d in iter_dyn(occ)}
            col.check(kinds == {'dumps'}, rule, TABLE, 'Table.to_json',
                      '%s:%s:all-dumps' % (label, key), None,
                      'ids and metadata are serialised by dumps only',
                      "member '%s' contains text not produced by dumps: %s"
                      % (key, sorted(kinds)))


def _src_role(src):
    return re.sub(r'\s+', '', src)[:40]


def rule_dumps_encoder(repo, col):
    """``dumps`` is json.dumps with the numpy-aware encoder, whose default()
    converts numpy integers, floats and arrays (metadata values)."""
    rule = 'TA-ENCODER'
    ce = ConstEval(repo)
    m = repo.mod(TABLE)
    v = ce.module_assign(TABLE, 'dumps')
    ok = isinstance(v, ast.Call) and call_name(v) == 'partial' and v.args and \
        dotted(v.args[0]) in ('_json_dumps', 'json.dumps') and \
        dotted(kwarg(v, 'cls') or ast.Constant(None)) == 'NpEncoder'
    col.check(bool(ok), rule, TABLE, '<module>', 'dumps', v,
              'dumps = partial(json.dumps, cls=NpEncoder)',
              'dumps is not json.dumps bound to NpEncoder')
    imp = ce.imports(TABLE).get('_json_dumps')
    col.check(imp == ('json', 'dumps'), rule, TABLE, '<module>',
              'json.dumps', None, '_json_dumps is json.dumps',
              '_json_dumps does not resolve to json.dumps')
    f = repo.func(TABLE, 'NpEncoder.default')
    handled = {}
    for n in body_walk(f):
        if isinstance(n, ast.If) and isinstance(n.test, ast.Call) and \
                call_name(n.test) == 'isinstance':
            t = dotted(n.test.args[1])
            ret = [b for b in n.body if isinstance(b, ast.Return)]
            handled[t] = unparse(ret[0].value) if ret else None
    for t, conv in (('np.integer', 'int('), ('np.floating', 'float('),
                    ('np.ndarray', '.tolist()')):
        col.check(t in handled and handled[t] and conv in handled[t], rule,
                  TABLE, 'NpEncoder.default', t, f,
                  'converted losslessly (%s)' % conv.strip('('),
                  '%s values are not converted for JSON' % t)


def rule_ta_lossy_json(repo, col):
    """Matrix values are written with a round-trip-safe conversion."""
    rule = 'TA-LOSSY'
    paths = json_paths(repo)
    for label, (stream, members) in paths.items():
        occs = members.get('data', [])
        mvals = [d for occ in occs for d in iter_dyn(occ)
                 if is_matrix_prov(d[3])]
        if not mvals:
            col.unknown(rule, TABLE, 'Table.to_json', '%s:data' % label, None,
                        'no matrix value recognised in the data member')
            continue
        seen = set()
        for d in mvals:
            if (d[1], d[2]) in seen:
                continue
            seen.add((d[1], d[2]))
            col.check(d[1] in LOSSLESS, rule, TABLE, 'Table.to_json',
                      '%s:data:value' % label, d[2],
                      'formatted by %s (shortest round-trip repr)' % d[1],
                      'matrix value is formatted by a fixed-precision or '
                      'truncating conversion (%s): values below the '
                      'precision are written as 0 and long fractions are '
                      'rounded' % d[1])
    # a value is dropped only when it equals zero
    f = repo.func(TABLE, 'Table.to_json')
    zero_tests = []
    guards = []
    for n in body_walk(f):
        if isinstance(n, ast.If) and isinstance(n.test, ast.Compare):
            guards.append((n.test, any(
                isinstance(c, ast.Call) and isinstance(c.func, ast.Attribute)
                and c.func.attr == 'append' for c in ast.walk(n))))
        elif isinstance(n, (ast.ListComp, ast.GeneratorExp)):
            for g in n.generators:
                for t in g.ifs:
                    if isinstance(t, ast.Compare):
                        guards.append((t, True))
    for t, writes in guards:
        if isinstance(t.ops[0], ast.NotEq) and isinstance(
                t.comparators[0], ast.Constant) and \
                t.comparators[0].value in (0, 0.0):
            zero_tests.append(t)
        elif isinstance(t.ops[0], (ast.Gt, ast.GtE, ast.Lt)) and \
                isinstance(t.comparators[0], ast.Constant) and \
                isinstance(t.comparators[0].value, (int, float)) and \
                not isinstance(t.comparators[0].value, bool) and writes and \
                any(isinstance(x, ast.Name) and x.id in ('val', 'v', 'value')
                    or isinstance(x, ast.Call) and call_name(x) == 'float'
                    for x in ast.walk(t.left)):
            col.bad(rule, TABLE, 'Table.to_json', 'data:drop-test', t,
                    'values are written only when %s: negative or '
                    'small values are dropped' % unparse(t))
    col.soft(bool(zero_tests), rule, TABLE, 'Table.to_json',
             'data:drop-test', zero_tests[0] if zero_tests else f,
             'an entry is skipped only when it compares equal to 0',
             'no `!= 0` test guards the written entries')


def rule_sb_jsonpaths(repo, col):
    """The streamed (direct_io) and returned-string forms of to_json emit
    the same top-level members with the same templates."""
    rule = 'SB-JSONPATHS'
    paths = json_paths(repo)
    a = paths['direct_io'][1]
    b = paths['string'][1]
    if not a or not b:
        col.unknown(rule, TABLE, 'Table.to_json', 'members', None,
                    'members not recognised')
        return
    col.check(set(a) == set(b), rule, TABLE, 'Table.to_json', 'member-set',
              None, 'both paths emit %s' % sorted(a),
              'members differ between the paths: only streamed %s, only '
              'returned %s' % (sorted(set(a) - set(b)),
                               sorted(set(b) - set(a))))
    for key in sorted(set(a) & set(b)):
        ra = sorted(render(x).rstrip(',') for x in a[key])
        rb = sorted(render(x).rstrip(',') for x in b[key])
        col.check(ra == rb, rule, TABLE, 'Table.to_json', 'member:%s' % key,
                  None, 'same template in both paths',
                  "member '%s' is built differently: streamed %s vs "
                  'returned %s' % (key, ra, rb))
    # each member is emitted exactly once per path
    for label in ('direct_io', 'string'):
        stream = paths[label][0]
        text = render(stream)
        # every path must open and close the object
        col.check(text.startswith('{') and text.endswith('}'), rule, TABLE,
                  'Table.to_json', '%s:braces' % label, None,
                  'document is wrapped in { }', 'document is not wrapped in '
                  'a single object')


def writer_json_constants(repo):
    """Literal values of constant members, from the string path."""
    paths = json_paths(repo)
    out = {}
    for key, occs in paths['string'][1].items():
        vals = []
        for occ in occs:
            t = render(occ)
            m = re.match(r'"%s":\s*"([^"‹⦅]*)",?$' % key, t)
            if m:
                vals.append(m.group(1))
            else:
                m = re.match(r'"%s":\s*"⦅(.*)⦆",?$' % key, t)
                if m and '‹' not in m.group(1):
                    vals += [x for x in re.split(r'[│⦅⦆]', m.group(1)) if x]
                else:
                    vals = None
                    break
        out[key] = vals
    return out, paths


def rule_ag_json_writer(repo, col):
    """Keys written by to_json = keys required by the JSON validator >= keys
    read by from_json; the constants written are ones the validator accepts
    and the loader maps."""
    rule = 'AG-JSONKEYS'
    from .rules_validator import _literal_list, VAL
    consts, paths = writer_json_constants(repo)
    written = set(paths['string'][1])
    f = repo.func(VAL, 'TableValidator._validate_json')
    lst, st = _literal_list(f, 'required_keys', None)
    req = {const_str(e.elts[0]) for e in lst.elts} if lst is not None else \
        set()
    if not req:
        col.unknown(rule, VAL, 'TableValidator._validate_json',
                    'required_keys', f, 'not found')
    else:
        for k in sorted(req):
            col.check(k in written, rule, TABLE, 'Table.to_json',
                      'writes:%s' % k, None, 'written',
                      "the validator requires '%s' but to_json does not "
                      'write it: every written file is reported invalid' % k)
    fj = repo.func(TABLE, 'Table.from_json')
    jparam = param_names(fj)[1]
    for n in body_walk(fj):
        if isinstance(n, ast.Subscript) and dotted(n.value) == jparam and \
                const_str(n.slice):
            k = const_str(n.slice)
            col.check(k in written, rule, TABLE, 'Table.from_json',
                      'reads-written:%s' % k, n, 'written by to_json',
                      "from_json reads '%s' which to_json does not write"
                      % k)
    ce = ConstEval(repo)
    # constants
    from .rules_validator import _class_const
    url, _ = _class_const(repo, 'TableValidator', 'FormatURL', ce)
    mt, _ = _class_const(repo, 'TableValidator', 'MatrixTypes', ce)
    et, _ = _class_const(repo, 'TableValidator', 'ElementTypes', ce)
    v = consts.get('format_url')
    col.check(v == [url], rule, TABLE, 'Table.to_json', 'const:format_url',
              None, 'equals TableValidator.FormatURL',
              'format_url written %r, validator accepts only %r' % (v, url))
    v = consts.get('matrix_type')
    col.check(bool(v) and set(v) <= set(mt), rule, TABLE, 'Table.to_json',
              'const:matrix_type', None, 'accepted matrix type',
              'matrix_type written %r not in %r' % (v, mt))
    v = consts.get('matrix_element_type')
    if v is None or et is UNKNOWN:
        col.unknown(rule, TABLE, 'Table.to_json', 'const:element_type', None,
                    'element types not constant')
    else:
        col.check(set(v) <= set(et), rule, TABLE, 'Table.to_json',
                  'const:element_type', None,
                  'written element types %s accepted by the validator'
                  % sorted(v), 'element types %s not all accepted by the '
                  'validator (%s)' % (sorted(v), sorted(et)))
        met = ce.ev(ce.module_assign(TABLE, 'MATRIX_ELEMENT_TYPE'), TABLE)
        numeric = {x for x in v if x in ('int', 'float')}
        col.check(met is not UNKNOWN and numeric and numeric <= set(met),
                  rule, TABLE, 'Table.from_json', 'const:element_type-load',
                  None, 'numeric element types written are keys of '
                  'MATRIX_ELEMENT_TYPE', 'a numeric element type written by '
                  'to_json is not a key of MATRIX_ELEMENT_TYPE (KeyError on '
                  'load)')
    # format string accepted by _valid_format for the default version
    v = consts.get('format')
    fv = repo.func(VAL, 'TableValidator._valid_format')
    frun = repo.func(VAL, 'TableValidator.run')
    default_ver = None
    for n in body_walk(frun):
        if isinstance(n, ast.If) and dotted(n.test) == 'is_json':
            for b in n.body:
                if isinstance(b, ast.Assign) and isinstance(
                        b.value, ast.Constant):
                    default_ver = b.value.value
    formal = None
    for n in body_walk(fv):
        if isinstance(n, ast.Assign) and isinstance(n.value, ast.JoinedStr):
            parts = []
            for x in n.value.values:
                if isinstance(x, ast.Constant):
                    parts.append(x.value)
                elif dotted(x.value) == 'self._format_version':
                    parts.append(default_ver or '?')
            formal = ''.join(parts)
    if default_ver is None or formal is None or '?' in formal:
        col.unknown(rule, TABLE, 'Table.to_json', 'const:format', None,
                    'default format version / accepted format string not '
                    'resolved')
    else:
        col.check(bool(v) and set(v) <= {formal, default_ver},
                  rule, TABLE, 'Table.to_json', 'const:format', None,
                  "format string %r is what the validator accepts for %s"
                  % (v, default_ver),
                  'format written %r, validator accepts %r / %r'
                  % (v, formal, default_ver))
    # date: isoformat on both alternatives, validator accepts both shapes
    occs = paths['string'][1].get('date', [])
    kinds = {d[1] for occ in occs for d in iter_dyn(occ)}
    col.check(kinds == {'isoformat'}, rule, TABLE, 'Table.to_json',
              'const:date', None, 'date written by .isoformat()',
              'date is not produced by isoformat(): %s' % sorted(kinds))
    fd = repo.func(VAL, 'TableValidator._valid_date')
    fmts = None
    for n in body_walk(fd):
        if isinstance(n, ast.Assign) and isinstance(n.value, ast.List):
            fmts = [const_str(e) for e in n.value.elts]
    need = {'%Y-%m-%dT%H:%M:%S', '%Y-%m-%dT%H:%M:%S.%f'}
    col.check(fmts is not None and need <= set(fmts), rule, VAL,
              'TableValidator._valid_date', 'isoformat-shapes', fd,
              'both shapes datetime.isoformat() can produce are accepted',
              'the shapes produced by datetime.isoformat() (%s) are not all '
              'accepted' % sorted(need))
    # from_json parses the date with fromisoformat
    uses = any(isinstance(n, ast.Call) and isinstance(n.func, ast.Attribute)
               and n.func.attr == 'fromisoformat' for n in body_walk(fj))
    col.soft(uses, rule, TABLE, 'Table.from_json', 'date-inverse', fj,
             'date read back with fromisoformat (inverse of isoformat)',
             'fromisoformat call in from_json')


# --------------------------------------------------------------------------
# C03
# --------------------------------------------------------------------------

def tsv_paths(repo):
    f = repo.func(TABLE, 'Table.delimited_self')
    res = {}
    for mode, label in ((TRUTHY, 'direct_io'), (FALSY, 'string')):
        e = Emit(repo, TABLE, f, {'direct_io': mode},
                 out_param='direct_io').run()
        res[label] = e
    return res


def _variants(stream, limit=128):
    """All concrete renderings of a stream with alternatives expanded."""
    outs = ['']
    for it in stream:
        if it[0] == 'alt':
            opts = []
            for o in it[1]:
                opts += _variants(o, limit)
            outs = [a + b for a in outs for b in opts][:limit]
        elif it[0] == 'elem':
            outs = [a + b for a in outs
                    for b in _variants(it[1], limit)][:limit]
        else:
            r = render((it,))
            outs = [a + r for a in outs]
    return outs


def _elem_templates(ls, strip_nl=False):
    """Set of rendered element templates of a list stream."""
    out = set()
    for it in ls:
        if it[0] == 'elem':
            for t in _variants(it[1]):
                if strip_nl and t.endswith('\n'):
                    t = t[:-1]
                out.add(t)
        elif it[0] == 'rep':
            out |= {'*' + t for t in _elem_templates(it[1], strip_nl)}
        elif it[0] == 'alt':
            for o in it[1]:
                out |= _elem_templates(o, strip_nl)
    return out


def rule_tsv(repo, col):
    """delimited_self writes matrix values with str() (shortest round-trip
    text), and its streamed and returned forms build the same lines."""
    paths = tsv_paths(repo)
    # TA-LOSSY
    for label, e in paths.items():
        streams = []
        if label == 'direct_io':
            streams.append(flatten_out(e.out))
        else:
            streams += [flatten_out(r) for r in e.returns]
        mvals = [d for s in streams for d in iter_dyn(s)
                 if is_matrix_prov(d[3])]
        if not mvals:
            col.unknown('TA-LOSSY', TABLE, 'Table.delimited_self',
                        '%s:value' % label, None, 'no matrix value found')
            continue
        seen = set()
        for d in mvals:
            if (d[1], d[2]) in seen:
                continue
            seen.add((d[1], d[2]))
            col.check(d[1] in LOSSLESS, 'TA-LOSSY', TABLE,
                      'Table.delimited_self', '%s:value' % label, d[2],
                      'formatted by %s (round-trip safe)' % d[1],
                      'matrix value formatted by a lossy conversion (%s)'
                      % d[1])
    # SB-TSVPATHS
    d = paths['direct_io']
    s = paths['string']
    dl = d.out.stream if isinstance(d.out, LV) else None
    sl = None
    if len(s.returns) == 1 and isinstance(s.returns[0], SV):
        st = s.returns[0].stream
        if len(st) == 1 and st[0][0] == 'join' and st[0][1] == '\n':
            sl = st[0][2]
        elif len(st) == 1 and st[0][0] == 'alt' and all(
                len(o) == 1 and o[0][0] == 'join' and o[0][1] == '\n'
                for o in st[0][1]):
            sl = (('alt', tuple(o[0][2] for o in st[0][1])),)
    if dl is None or sl is None:
        col.unknown('SB-TSVPATHS', TABLE, 'Table.delimited_self', 'lines',
                    None, 'line lists not recognised')
    else:
        ta = _elem_templates(dl, strip_nl=True)
        tb = _elem_templates(sl)
        col.check(ta == tb, 'SB-TSVPATHS', TABLE, 'Table.delimited_self',
                  'lines', None, 'streamed and returned forms build the '
                  'same %d line templates' % len(ta),
                  'line templates differ: only streamed %s; only returned %s'
                  % (sorted(ta - tb), sorted(tb - ta)))


def rule_tsv_reader(repo, col):
    """The reader's value type defaults to float and no caller overrides it
    with a narrowing type; to_tsv/_convert forward the header and formatter
    arguments."""
    rule = 'AX-FWD'
    f = repo.func(TABLE, 'Table._extract_data_from_tsv')
    d = param_default(f, 'dtype')
    col.check(d is not None and dotted(d) == 'float', 'TA-LOSSY', TABLE,
              'Table._extract_data_from_tsv', 'dtype-default', f,
              'values are parsed with float by default',
              'reader default dtype is %s' % (unparse(d) if d else None))
    # callers passing dtype
    for rel, q, fn in repo.all_functions():
        for n in body_walk(fn):
            if isinstance(n, ast.Call) and (call_name(n) or '').endswith(
                    '_extract_data_from_tsv'):
                kw = kwarg(n, 'dtype')
                if kw is not None and dotted(kw) != 'float':
                    col.bad('TA-LOSSY', rel, q, 'dtype-override', n,
                            'values parsed with %s' % unparse(kw))
    # to_tsv forwards everything to delimited_self
    f = repo.func(TABLE, 'Table.to_tsv')
    calls = [n for n in body_walk(f) if isinstance(n, ast.Call) and
             dotted(n.func) == 'self.delimited_self']
    if len(calls) != 1:
        col.unknown(rule, TABLE, 'Table.to_tsv', 'forward', f,
                    '%d delimited_self calls' % len(calls))
    else:
        c = calls[0]
        target = repo.func(TABLE, 'Table.delimited_self')
        tparams = [p for p in param_names(target) if p != 'self']
        bound = {}
        for p, a in zip(tparams, c.args):
            bound[p] = a
        for kw in c.keywords:
            bound[kw.arg] = kw.value
        for p in ('header_key', 'header_value', 'metadata_formatter',
                  'observation_column_name', 'direct_io'):
            ok = p in bound and dotted(bound[p]) == p
            col.check(ok, rule, TABLE, 'Table.to_tsv', 'forward:%s' % p, c,
                      'forwarded to delimited_self',
                      "to_tsv's %s is not forwarded to delimited_self(%s=)"
                      % (p, p))
        dl = bound.get('delim')
        col.check(dl is not None and const_str(dl) == '\t', rule, TABLE,
                  'Table.to_tsv', 'delim', c, "delimiter is '\\t'",
                  'to_tsv does not use a tab delimiter')
    # _convert -> to_tsv
    CONV = 'biom/cli/table_converter.py'
    f = repo.func(CONV, '_convert')
    calls = [n for n in body_walk(f) if isinstance(n, ast.Call) and
             (call_name(n) or '').endswith('.to_tsv')]
    if len(calls) != 1:
        col.unknown(rule, CONV, '_convert', 'to_tsv', f, 'call not found')
    else:
        c = calls[0]
        hk = kwarg(c, 'header_key') or (c.args[0] if c.args else None)
        col.check(hk is not None and dotted(hk) == 'header_key', rule, CONV,
                  '_convert', 'forward:header_key', c, 'forwarded',
                  '--header-key is not forwarded to to_tsv')
        hv = kwarg(c, 'header_value')
        col.check(hv is not None and dotted(hv) == 'output_metadata_id',
                  rule, CONV, '_convert', 'forward:header_value', c,
                  'forwarded', '--output-metadata-id is not forwarded')
        mf = kwarg(c, 'metadata_formatter')

        def selected(e):
            # registry[<the tsv_metadata_formatter option>] or a local
            # bound to it
            if isinstance(e, ast.Subscript) and 'formatters' in (
                    dotted(e.value) or '') and any(
                    isinstance(x, ast.Name) and
                    x.id == 'tsv_metadata_formatter'
                    for x in ast.walk(e.slice)):
                return True
            if isinstance(e, ast.Name):
                vals = [a_.value for a_ in ast.walk(f) if isinstance(
                    a_, ast.Assign) and any(isinstance(t, ast.Name) and
                                            t.id == e.id
                                            for t in a_.targets)]
                return any(selected(v) for v in vals
                           if not isinstance(v, ast.Name))
            if isinstance(e, ast.IfExp):
                return selected(e.body) or selected(e.orelse)
            return False
        col.check(mf is not None and selected(mf), rule,
                  CONV, '_convert', 'forward:metadata_formatter', c,
                  'the selected formatter is forwarded',
                  'the selected tsv metadata formatter is not forwarded')


def rule_ag_tsvsep(repo, col):
    """The TSV metadata formatter registry and the processing-function
    registry are keyed alike and each pair is inverse on lists of text:
    '; '.join <-> split(';') + strip."""
    rule = 'AG-TSVSEP'
    CONV = 'biom/cli/table_converter.py'
    ce = ConstEval(repo)
    m = repo.mod(CONV)
    types = ce.module_assign(CONV, 'observation_metadata_types')
    fmts = ce.module_assign(CONV, 'observation_metadata_formatters')
    if not isinstance(types, ast.Dict) or not isinstance(fmts, ast.Dict):
        col.unknown(rule, CONV, '<module>', 'registries', None,
                    'registries are not dict literals')
        return
    def as_lambda(v):
        # a registry entry naming a module-level one-return function is
        # read like the equivalent lambda
        if isinstance(v, ast.Name) and v.id in m.defs and isinstance(
                m.defs[v.id], ast.FunctionDef):
            fd = m.defs[v.id]
            body = [st for st in fd.body if not (
                isinstance(st, ast.Expr) and isinstance(st.value,
                                                        ast.Constant))]
            if len(body) == 1 and isinstance(body[0], ast.Return) and \
                    body[0].value is not None:
                return ast.Lambda(args=fd.args, body=body[0].value)
        return v
    tk = {const_str(k): as_lambda(v)
          for k, v in zip(types.keys, types.values)}
    fk = {const_str(k): as_lambda(v)
          for k, v in zip(fmts.keys, fmts.values)}
    for k in sorted(fk):
        col.check(k in tk, rule, CONV, '<module>', 'key:%s' % k, fmts,
                  'formatter key has a processing function',
                  "formatter '%s' has no inverse processing function" % k)
    # sc_separated pair
    f = fk.get('sc_separated')
    t = tk.get('sc_separated')
    if isinstance(f, ast.Lambda) and isinstance(t, ast.Lambda):
        fs = unparse(f.body)
        ts = unparse(t.body)
        jm = re.search(r"'([^']*)'\.join", fs)
        sm = re.search(r"\.split\('([^']*)'\)", ts)
        ok = bool(jm and sm and jm.group(1).strip() == sm.group(1) and
                  sm.group(1) and '.strip()' in ts)
        col.check(ok, rule, CONV, '<module>', 'inverse:sc_separated', f,
                  "'%s'.join is undone by split('%s') + strip"
                  % (jm.group(1) if jm else '?', sm.group(1) if sm else '?'),
                  'formatter %s and processor %s are not inverse on lists '
                  'of text' % (fs, ts))
    else:
        col.unknown(rule, CONV, '<module>', 'inverse:sc_separated', fmts,
                    'not lambdas')
    nf = fk.get('naive')
    nt = tk.get('naive')
    if isinstance(nf, ast.Name) or isinstance(nf, ast.Lambda):
        okn = (dotted(nf) == 'str') if isinstance(nf, ast.Name) else True
        col.soft(okn and nt is not None, rule, CONV, '<module>',
                 'inverse:naive', fmts, 'naive: str / identity',
                 'naive pair not recognised')


RULE_TEXT = {
    'TA-ESCAPE': rule_ta_escape.__doc__,
    'TA-ENCODER': rule_dumps_encoder.__doc__,
    'TA-LOSSY': 'values with provenance "matrix entry" are formatted only by '
                'round-trip-safe conversions (str, repr, %r, %s of float, '
                'dumps); %f %e %g %d, precision specs, round, int are lossy',
    'SB-JSONPATHS': rule_sb_jsonpaths.__doc__,
    'AG-JSONKEYS': rule_ag_json_writer.__doc__,
    'SB-TSVPATHS': 'streamed and returned forms of delimited_self build the '
                   'same line templates',
    'AX-FWD': rule_tsv_reader.__doc__,
    'AG-TSVSEP': rule_ag_tsvsep.__doc__,
}
