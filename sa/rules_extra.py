"""Further necessary-condition rules, added after independent seeded changes
showed clauses the first rule set did not reach.  Each rule fires only on a
definite shape; anything not recognised is *unknown*."""
import ast
import re

from .astutil import (body_walk, call_name, const_str, dotted, kwarg,
                      local_assignments, param_names, target_names, unparse,
                      walk_shallow)
from .cfg import CFG
from .flow import taint, nested_functions
from .source import AnalysisError

TABLE = 'biom/table.py'
PARSE = 'biom/parse.py'
ERR = 'biom/err.py'


def _anc(mod, node):
    cur = mod.parent.get(node)
    while cur is not None:
        yield cur
        cur = mod.parent.get(cur)


# --------------------------------------------------------------------------
# metadata casting (C07 freshness, C17 type check)
# --------------------------------------------------------------------------

def rule_cast_metadata(repo, col):
    """_cast_metadata puts a *new* mapping into the rebuilt tuple for every
    entry (never the entry itself, which may belong to another table) and
    rejects entries that are neither a dict nor None with the table error."""
    f = repo.func(TABLE, 'Table._cast_metadata')
    inner = nested_functions(f).get('cast_metadata')
    if inner is None:
        col.unknown('EF-FRESH', TABLE, 'Table._cast_metadata', 'inner', f,
                    'inner cast function not found')
        return
    loops = [n for n in ast.walk(inner) if isinstance(n, ast.For)]
    if not loops:
        col.unknown('EF-FRESH', TABLE, 'Table._cast_metadata', 'loop', inner,
                    'entry loop not found')
        return
    lp = loops[0]
    item = dotted(lp.target)
    fresh = {dotted(n.targets[0]) for n in ast.walk(lp)
             if isinstance(n, ast.Assign) and isinstance(n.value, ast.Call)
             and call_name(n.value) in ('defaultdict', 'dict')}
    appends = [n for n in ast.walk(lp) if isinstance(n, ast.Call) and
               isinstance(n.func, ast.Attribute) and
               n.func.attr == 'append' and n.args]
    shared = [a for a in appends if dotted(a.args[0]) not in fresh]
    col.check(bool(appends) and not shared, 'EF-FRESH', TABLE,
              'Table._cast_metadata', 'new-mapping-per-entry',
              shared[0] if shared else lp,
              'every entry of the rebuilt tuple is a mapping created here',
              'an existing entry object (%s) is put into the rebuilt tuple: '
              'tables constructed from another table\'s metadata share its '
              'per-id dicts, so add_metadata/del_metadata on one shows '
              'through in the other' % (unparse(shared[0].args[0])
                                        if shared else ''))
    # type check
    isdict = [n for n in ast.walk(lp) if isinstance(n, ast.Call) and
              call_name(n) == 'isinstance' and len(n.args) == 2 and
              dotted(n.args[0]) == item]
    accepted = set()
    for c in isdict:
        t = c.args[1]
        for x in ([t] if not isinstance(t, ast.Tuple) else t.elts):
            accepted.add(dotted(x))
    raises = [n for n in ast.walk(lp) if isinstance(n, ast.Raise) and
              'TableException' in unparse(n)]
    # the raise must be the fall-through of the type dispatch, not an
    # exception handler around a duck-typed update
    in_handler = any(isinstance(a, ast.ExceptHandler)
                     for r in raises for a in _anc(repo.mod(TABLE), r))
    ok = bool(raises) and not in_handler and accepted and \
        accepted <= {'dict', 'defaultdict', 'Mapping',
                     'collections.abc.Mapping', 'abc.Mapping'}
    col.check(ok, 'OR-TYPECHECK', TABLE, 'Table._cast_metadata',
              'mapping-or-none', raises[0] if raises else lp,
              'entries other than a mapping or None raise TableException',
              'metadata entries are no longer type-checked (isinstance %s, '
              'raise in handler: %s): lists of pairs, strings or empty '
              'containers are accepted as metadata'
              % (sorted(a for a in accepted if a), in_handler))


# --------------------------------------------------------------------------
# min / max (C19)
# --------------------------------------------------------------------------

def rule_minmax(repo, col):
    """min/max are taken over the stored (non-zero) entries of each sparse
    vector, never over a matrix/dense vector that includes implicit zeros."""
    rule = 'SB-NONZERO-STAT'
    for m in ('min', 'max'):
        f = repo.func(TABLE, 'Table.%s' % m)
        calls = [n for n in body_walk(f) if isinstance(n, ast.Call) and
                 isinstance(n.func, ast.Attribute) and n.func.attr == m]
        if not calls:
            col.unknown(rule, TABLE, 'Table.%s' % m, 'reduction', f,
                        'no .%s() call' % m)
            continue
        for i, c in enumerate(calls):
            recv = c.func.value
            on_data = isinstance(recv, ast.Attribute) and recv.attr == 'data'
            rs = unparse(recv)
            on_matrix = '_data' in rs and not on_data or \
                'matrix_data' in rs and not on_data or 'toarray' in rs or \
                'todense' in rs
            if on_data:
                col.ok(rule, TABLE, 'Table.%s' % m, 'reduction#%d' % (i + 1),
                       c, 'over the stored entries of a sparse vector')
            elif on_matrix:
                col.bad(rule, TABLE, 'Table.%s' % m,
                        'reduction#%d' % (i + 1), c,
                        '%s is taken over the whole matrix / a dense '
                        'vector, which includes the implicit zeros: a '
                        'vector whose non-zero values are all negative (or '
                        'all positive for min) reports 0' % m)
            else:
                col.unknown(rule, TABLE, 'Table.%s' % m,
                            'reduction#%d' % (i + 1), c,
                            'receiver not recognised')
        sparse_iter = [n for n in body_walk(f) if isinstance(n, ast.Call) and
                       isinstance(n.func, ast.Attribute) and
                       n.func.attr == 'iter_data']
        for c in sparse_iter:
            d = kwarg(c, 'dense') or (c.args[0] if c.args else None)
            col.check(isinstance(d, ast.Constant) and d.value is False, rule,
                      TABLE, 'Table.%s' % m, 'sparse-iteration', c,
                      'vectors are iterated sparse',
                      'vectors are iterated dense: zeros take part in %s'
                      % m)


# --------------------------------------------------------------------------
# err tests guards (C20 / C17)
# --------------------------------------------------------------------------

def rule_mdsize_guard(repo, col):
    """The metadata-size tests skip only ``None`` metadata: an empty
    metadata sequence for a non-empty axis is still a size mismatch."""
    rule = 'OR-NONEGUARD'
    for q in ('_test_obsmdsize', '_test_sampmdsize'):
        f = repo.func(ERR, q)
        rets = [n for n in body_walk(f) if isinstance(n, ast.Return)]
        if len(rets) != 1:
            col.unknown(rule, ERR, q, 'guard', f, '%d returns' % len(rets))
            continue
        v = rets[0].value
        guard = None
        if isinstance(v, ast.IfExp):
            guard = v.test
        elif isinstance(v, ast.BoolOp):
            guard = v.values[0]
        if guard is None:
            col.unknown(rule, ERR, q, 'guard', rets[0], 'shape not '
                        'recognised')
            continue
        ok = isinstance(guard, ast.Compare) and isinstance(
            guard.ops[0], (ast.IsNot, ast.Is)) and isinstance(
            guard.comparators[0], ast.Constant) and \
            guard.comparators[0].value is None
        col.check(ok, rule, ERR, q, 'guard', guard,
                  'only None metadata is exempt from the size test',
                  'the size test is skipped whenever the metadata is falsy: '
                  'an empty metadata sequence for a non-empty axis is '
                  'accepted')


# --------------------------------------------------------------------------
# to_hdf5 sections (C01, C04)
# --------------------------------------------------------------------------

def rule_h5_sections(repo, col):
    """In the to_hdf5 axis loop each section depends only on its own data:
    per-category metadata on ``md``, group metadata on ``group_md``, the ids
    dataset variant on the number of ids, the matrix arrays on nothing."""
    rule = 'OR-SECTIONS'
    f = repo.func(TABLE, 'Table.to_hdf5')
    mod = repo.mod(TABLE)
    loop = None
    for n in f.body:
        if isinstance(n, ast.For) and 'observation' in unparse(n.iter):
            loop = n
    if loop is None:
        col.unknown(rule, TABLE, 'Table.to_hdf5', 'loop', f, 'axis loop '
                    'not found')
        return
    assigns = local_assignments(f)

    def guards(node):
        out = []
        for a in _anc(mod, node):
            if a is loop:
                break
            if isinstance(a, ast.If):
                out.append(a.test)
        return out

    def names(e):
        return {x.id for x in ast.walk(e) if isinstance(x, ast.Name)}

    def derived(attr):
        # locals computed from `<table>.<attr>(...)` (and from each other)
        out = set()
        changed = True
        while changed:
            changed = False
            for n in ast.walk(f):
                if isinstance(n, ast.Assign) and any(
                        (isinstance(x, ast.Call) and isinstance(
                            x.func, ast.Attribute) and x.func.attr == attr)
                        or (isinstance(x, ast.Name) and x.id in out)
                        for x in ast.walk(n.value)):
                    for t in n.targets:
                        for x in ast.walk(t):
                            if isinstance(x, ast.Name) and x.id not in out:
                                out.add(x.id)
                                changed = True
        return out
    ids_names = derived('ids') | {'ids', 'len_ids'}
    gmd_names = derived('group_metadata') | {'group_md'}
    md_names = derived('metadata') | {'md'}
    reg_var = 'formatter'
    for n in ast.walk(f):
        if isinstance(n, ast.Assign) and isinstance(
                n.targets[0], ast.Name) and isinstance(n.value, ast.Call) \
                and call_name(n.value) == 'defaultdict':
            reg_var = n.targets[0].id
    sections = []
    for n in ast.walk(loop):
        if isinstance(n, ast.Call) and isinstance(n.func, ast.Attribute) and \
                n.func.attr == 'create_dataset' and n.args:
            a = unparse(n.args[0])
            if 'group-metadata/' in a:
                sections.append(('group-metadata', n, gmd_names))
            elif a in ("'matrix/data'", "'matrix/indices'",
                       "'matrix/indptr'"):
                sections.append((a.strip("'"), n, set()))
            elif a == "'ids'":
                sections.append(('ids', n, ids_names))
        if isinstance(n, ast.Call) and isinstance(n.func, ast.Subscript) and \
                dotted(n.func.value) == reg_var:
            sections.append(('metadata', n, md_names))
    if len(sections) < 6:
        col.unknown(rule, TABLE, 'Table.to_hdf5', 'sections', loop,
                    'only %d sections recognised' % len(sections))
    for name, node, allowed in sections:
        gs = guards(node)
        used = set()
        for g in gs:
            used |= names(g)
        used -= {'self', 'len', 'set', 'list'}
        foreign = used - allowed
        col.check(not foreign, rule, TABLE, 'Table.to_hdf5',
                  'section:%s' % name, node,
                  'written under guards on its own data only (%s)'
                  % (sorted(used) or 'unconditional'),
                  "the '%s' section is written only when %s holds: it is "
                  'silently dropped for tables where that unrelated '
                  'condition is false' % (name, ' and '.join(
                      unparse(g, 60) for g in gs)))
    # the ids variant is chosen by the number of ids
    ids_calls = [s for s in sections if s[0] == 'ids']
    for name, node, allowed in ids_calls:
        gs = guards(node)
        if not gs:
            continue
        src = names(gs[-1]) - {'len', 'self'}
        idl = derived('ids')
        ok = bool(src) and src <= idl
        # a name in the guard that counts must count the ids
        for nm in src:
            la = assigns.get(nm, [(None, None)])[0][0]
            if la is not None and isinstance(la, ast.Call) and \
                    call_name(la) == 'len':
                ok = ok and bool(names(la) & idl)
        col.check(ok, 'AG-SPEC', TABLE, 'Table.to_hdf5', 'ids-variant-guard',
                  gs[-1], 'the empty-axis variant of the ids dataset is '
                  'chosen by the number of ids',
                  'the ids dataset variant is chosen by %s, not by the '
                  'number of ids: a table with ids but no non-zero entry '
                  'gets an empty ids dataset' % unparse(gs[-1]))


def rule_parsers_identity(repo, col):
    """general_parser returns what it is given, except that bytes are
    decoded: numeric metadata is never coerced on load."""
    rule = 'TA-LOSSY'
    f = repo.func(TABLE, 'general_parser')
    p = param_names(f)[0]
    bad = []
    for n in body_walk(f):
        if isinstance(n, ast.Assign) and dotted(n.targets[0]) == p:
            v = n.value
            ok = isinstance(v, ast.Call) and isinstance(
                v.func, ast.Attribute) and v.func.attr == 'decode' and \
                dotted(v.func.value) == p
            if not ok:
                bad.append(n)
        if isinstance(n, ast.Return) and n.value is not None and \
                dotted(n.value) != p:
            vals = [n.value]
            if isinstance(n.value, ast.IfExp):
                vals = [n.value.body, n.value.orelse]
            for v in vals:
                ok = dotted(v) == p or (isinstance(v, ast.Call) and
                                        isinstance(v.func, ast.Attribute)
                                        and v.func.attr == 'decode')
                if not ok:
                    bad.append(n)
    col.check(not bad, rule, TABLE, 'general_parser', 'identity-on-values',
              bad[0] if bad else f, 'values other than bytes pass through '
              'unchanged', 'metadata values are converted on load (%s): '
              'e.g. 64-bit integers above 2**53 do not survive float()'
              % (unparse(bad[0]) if bad else ''))


# --------------------------------------------------------------------------
# update_ids pre-check (C05)
# --------------------------------------------------------------------------

def rule_update_ids_precheck(repo, col):
    """update_ids: when renaming in place, a duplicate check on the *rebuilt*
    id array raises before the receiver is touched."""
    rule = 'OR-VALIDATE-FIRST'
    f = repo.func(TABLE, 'Table.update_ids')
    cfg = CFG(f)
    stores = [n for n in cfg.stmt_nodes() if n.kind == 'stmt' and isinstance(
        n.stmt, ast.Assign) and any(isinstance(t, ast.Attribute) and t.attr in
                                    ('_sample_ids', '_observation_ids')
                                    for t in n.stmt.targets)]
    if not stores:
        col.unknown(rule, TABLE, 'Table.update_ids', 'stores', f,
                    'id stores not found')
        return
    stored = {dotted(s.stmt.value) for s in stores}
    guards = []
    for n in cfg.stmt_nodes():
        if n.kind == 'head' and isinstance(n.stmt, ast.If) and any(
                isinstance(b, ast.Raise) for b in n.stmt.body):
            t = n.stmt.test
            names = {x.id for x in ast.walk(t) if isinstance(x, ast.Name)}
            if 'set' in names and names & stored:
                guards.append(n)
    # with inplace the guard must be on the path: it may sit under
    # `if inplace:` (then that if-head has to dominate the stores)
    mod = repo.mod(TABLE)
    doms = set(guards)
    for g in guards:
        for a in _anc(mod, g.stmt):
            if isinstance(a, ast.If) and dotted(a.test) == 'inplace' and \
                    cfg.node(a) is not None:
                doms.add(cfg.node(a))
    ok = bool(guards) and all(any(cfg.dominates(d, s) for d in doms)
                              for s in stores)
    col.check(ok, rule, TABLE, 'Table.update_ids', 'duplicate-precheck',
              guards[0].stmt if guards else stores[0].stmt,
              'a duplicate test on the rebuilt id array (%s) raises before '
              'the ids are installed' % sorted(stored),
              'no duplicate test on the rebuilt id array %s precedes the '
              'store: a refused in-place rename (collision with a kept id) '
              'leaves the receiver with duplicate ids' % sorted(stored))


# --------------------------------------------------------------------------
# importers / readers
# --------------------------------------------------------------------------

def rule_adjacency_accumulates(repo, col):
    """from_adjacency sums the records that name the same pair (COO
    construction, or explicit accumulation) instead of keeping the last."""
    rule = 'AX-COORD'
    f = repo.func(TABLE, 'Table.from_adjacency')
    coo = [n for n in body_walk(f) if isinstance(n, ast.Call) and
           call_name(n) == 'coo_matrix']
    dict_assign = [n for n in ast.walk(f) if isinstance(n, ast.Assign) and
                   isinstance(n.targets[0], ast.Subscript) and isinstance(
                       n.targets[0].slice, ast.Tuple)]
    dict_comp = [n for n in ast.walk(f) if isinstance(n, ast.DictComp) and
                 isinstance(n.key, ast.Tuple)]
    aug = [n for n in ast.walk(f) if isinstance(n, ast.AugAssign) and
           isinstance(n.target, ast.Subscript)]
    if coo and not dict_assign and not dict_comp:
        col.ok(rule, TABLE, 'Table.from_adjacency', 'duplicates-summed',
               coo[0], 'triples go through coo_matrix, which sums '
               'duplicates on conversion')
    elif aug and not dict_comp:
        col.ok(rule, TABLE, 'Table.from_adjacency', 'duplicates-summed',
               aug[0], 'values are accumulated with +=')
    elif dict_assign or dict_comp:
        col.bad(rule, TABLE, 'Table.from_adjacency', 'duplicates-summed',
                (dict_assign or dict_comp)[0],
                'records are stored in a mapping keyed by (row, col) by '
                'plain assignment: when a pair occurs on several lines the '
                'last one wins instead of the sum')
    else:
        col.unknown(rule, TABLE, 'Table.from_adjacency',
                    'duplicates-summed', f, 'construction not recognised')


def rule_tsv_isfloat(repo, col):
    """The "is the last column numeric" test of the TSV reader decides with
    the same parser the values are parsed with (float())."""
    rule = 'TA-PARSE'
    f = repo.func(TABLE, 'Table._extract_data_from_tsv')
    inner = nested_functions(f).get('isfloat')
    if inner is None:
        col.unknown(rule, TABLE, 'Table._extract_data_from_tsv', 'isfloat',
                    f, 'helper not found')
        return
    p = param_names(inner)[0]
    tries = [n for n in ast.walk(inner) if isinstance(n, ast.Try)]
    ok = False
    for t in tries:
        if any(isinstance(c, ast.Call) and call_name(c) == 'float' and
               c.args and dotted(c.args[0]) == p
               for b in t.body for c in ast.walk(b)):
            ok = True
    col.check(ok, rule, TABLE, 'Table._extract_data_from_tsv', 'isfloat',
              inner, 'decided by float(value)',
              'numeric-ness of the last column is not decided by '
              'float(value): values the writer emits in exponent notation '
              '(2.5e-07) make the last sample column count as metadata')


def rule_json_slicer_order(repo, col):
    """get_axis_indices returns the kept positions and records in *file*
    order (the data slicer renumbers by sorted position)."""
    rule = 'OR-FILEORDER'
    f = repo.func(PARSE, 'get_axis_indices')
    assigns = local_assignments(f)
    rets = [n for n in body_walk(f) if isinstance(n, ast.Return)]
    if len(rets) != 1 or not isinstance(rets[0].value, ast.Tuple):
        col.unknown(rule, PARSE, 'get_axis_indices', 'idxs', f,
                    'return shape not recognised')
        return
    iv = dotted(rets[0].value.elts[0])
    src = assigns.get(iv, [(None, None)])[0][0]
    if src is None:
        col.unknown(rule, PARSE, 'get_axis_indices', 'idxs', f,
                    'index list not found')
        return

    def iterates_file(e):
        for g in ast.walk(e):
            if isinstance(g, ast.comprehension):
                it = unparse(g.iter)
                if 'axis_data' in it:
                    return True
                if 'to_keep' in it:
                    return False
        return None
    r = iterates_file(src)
    if isinstance(src, ast.Call) and call_name(src) == 'sorted':
        r = True
    if r is None:
        col.unknown(rule, PARSE, 'get_axis_indices', 'idxs', src,
                    'iteration source not recognised')
    else:
        col.check(r, rule, PARSE, 'get_axis_indices', 'idxs', src,
                  'positions are collected walking the file\'s records in '
                  'order', 'positions follow the order of the requested ids: '
                  'the data slicer renumbers by sorted position, so ids and '
                  'metadata are attached to the wrong vectors when ids are '
                  'requested out of file order')


def rule_requested_ids_cast(repo, col):
    """Requested ids are never cast to a fixed-width dtype taken from the
    stored ids (longer unknown ids would be truncated into known ones)."""
    rule = 'TA-LOSSY'
    f = repo.func(TABLE, 'Table.from_hdf5')
    req = taint(f, lambda n: False, initial={'ids', 'desired_ids'})
    hits = []
    for n in ast.walk(f):
        if isinstance(n, ast.Call):
            nm = call_name(n) or ''
            dt = kwarg(n, 'dtype')
            arg0 = n.args[0] if n.args else None
            if nm in ('np.asarray', 'np.array', 'asarray') and dt is not \
                    None and arg0 is not None and any(
                    isinstance(x, ast.Name) and x.id in req
                    for x in ast.walk(arg0)):
                if isinstance(dt, ast.Attribute) and dt.attr == 'dtype' or \
                        "'U" in unparse(dt) or "'S" in unparse(dt):
                    hits.append(n)
            if isinstance(n.func, ast.Attribute) and \
                    n.func.attr == 'astype' and any(
                    isinstance(x, ast.Name) and x.id in req
                    for x in ast.walk(n.func.value)) and n.args and (
                    isinstance(n.args[0], ast.Attribute) and
                    n.args[0].attr == 'dtype'):
                hits.append(n)
    col.check(not hits, rule, TABLE, 'Table.from_hdf5', 'requested-ids-cast',
              hits[0] if hits else f, 'requested ids keep their own text',
              'the requested ids are cast to a fixed-width dtype (%s): an '
              'unknown id longer than every stored id is truncated and may '
              'match a stored one instead of being refused'
              % (unparse(hits[0]) if hits else ''))


# --------------------------------------------------------------------------
# partition / norm / dataframe
# --------------------------------------------------------------------------

def rule_partition_ignore_none(repo, col):
    """partition with ignore_none drops only the label None (never other
    falsy labels such as 0, '' or False)."""
    rule = 'OR-NONEGUARD'
    f = repo.func(TABLE, 'Table.partition')
    hits = []
    for n in ast.walk(f):
        if isinstance(n, ast.If) and 'ignore_none' in unparse(n.test) and \
                any(isinstance(b, ast.Continue) for b in n.body):
            hits.append(n)
    if len(hits) != 1:
        col.unknown(rule, TABLE, 'Table.partition', 'ignore-none', f,
                    'guard not found')
        return
    t = hits[0].test
    is_none = any(isinstance(x, ast.Compare) and isinstance(
        x.ops[0], ast.Is) and isinstance(x.comparators[0], ast.Constant) and
        x.comparators[0].value is None for x in ast.walk(t))
    truthy = any(isinstance(x, ast.UnaryOp) and isinstance(x.op, ast.Not)
                 for x in ast.walk(t))
    col.check(is_none and not truthy, rule, TABLE, 'Table.partition',
              'ignore-none', t, 'only `part is None` is skipped',
              'ids are skipped when the label is falsy, not only when it is '
              'None: ids labelled 0, False or "" silently vanish from the '
              'partition')


def rule_norm_divisor(repo, col):
    """norm divides each vector by exactly its own sum."""
    rule = 'SB-NORM'
    f = repo.func(TABLE, 'Table.norm')
    inner = [n for n in ast.walk(f) if isinstance(n, ast.FunctionDef) and
             n is not f]
    if len(inner) != 1:
        col.unknown(rule, TABLE, 'Table.norm', 'divisor', f,
                    'inner function not found')
        return
    g = inner[0]
    p = param_names(g)[0]
    rets = [n for n in ast.walk(g) if isinstance(n, ast.Return)]
    if len(rets) != 1 or not isinstance(rets[0].value, ast.BinOp) or \
            not isinstance(rets[0].value.op, ast.Div):
        col.unknown(rule, TABLE, 'Table.norm', 'divisor', g,
                    'return is not a division')
        return
    d = rets[0].value.right
    ga = local_assignments(g)
    if isinstance(d, ast.Name) and d.id in ga and len(ga[d.id]) == 1 and \
            ga[d.id][0][0] is not None:
        d = ga[d.id][0][0]
    s = unparse(d).replace(' ', '')
    exact = s in ('float(%s.sum())' % p, '%s.sum()' % p,
                  'np.sum(%s)' % p, 'float(np.sum(%s))' % p)
    altered = bool(re.search(r'max\(|min\(|clip|\+|-\d|or', s))
    if exact:
        col.ok(rule, TABLE, 'Table.norm', 'divisor', d,
               'divides by the vector sum')
    elif altered and '.sum()' in s:
        col.bad(rule, TABLE, 'Table.norm', 'divisor', d,
                'the divisor is %s, not the vector sum: vectors whose total '
                'is not covered by that expression do not sum to 1' % s)
    else:
        col.unknown(rule, TABLE, 'Table.norm', 'divisor', d,
                    'divisor shape not recognised')
    col.check(dotted(rets[0].value.left) == p, rule, TABLE, 'Table.norm',
              'numerator', rets[0], 'numerator is the vector itself',
              'numerator is not the vector')


def rule_md_dataframe_order(repo, col):
    """metadata_to_dataframe builds the column labels and every row by
    iterating the metadata keys in the same order."""
    rule = 'SB-COLUMNS'
    f = repo.func(TABLE, 'Table.metadata_to_dataframe')
    iters = []
    for n in ast.walk(f):
        if isinstance(n, ast.For) and isinstance(n.target, ast.Tuple) and \
                len(n.target.elts) == 2:
            iters.append(n)
    shapes = []
    for n in iters:
        it = n.iter
        if isinstance(it, ast.Call) and isinstance(it.func, ast.Attribute) \
                and it.func.attr == 'items':
            shapes.append(('items', n))
        elif isinstance(it, ast.Call) and call_name(it) == 'sorted':
            shapes.append(('sorted', n))
        else:
            shapes.append((unparse(it, 40), n))
    key_iters = [n for n in ast.walk(f) if isinstance(n, ast.For) and
                 isinstance(n.iter, ast.Call) and
                 call_name(n.iter) == 'sorted' and not isinstance(
                     n.target, ast.Tuple)]
    kinds = {s for s, _ in shapes} | ({'sorted-keys'} if key_iters else set())
    if not shapes:
        col.unknown(rule, TABLE, 'Table.metadata_to_dataframe', 'order', f,
                    'loops not recognised')
        return
    col.check(len(kinds) == 1, rule, TABLE, 'Table.metadata_to_dataframe',
              'order', shapes[0][1], 'header and rows iterate the keys the '
              'same way (%s)' % sorted(kinds),
              'column labels and row values iterate the metadata keys in '
              'different orders (%s): values land under the wrong category'
              % sorted(kinds))


RULE_TEXT = {
    'EF-FRESH': rule_cast_metadata.__doc__,
    'OR-TYPECHECK': 'metadata entries are a mapping or None, anything else '
                    'raises the table error',
    'SB-NONZERO-STAT': rule_minmax.__doc__,
    'OR-NONEGUARD': 'guards that exempt "absent" test for None, not for '
                    'falsiness',
    'OR-SECTIONS': rule_h5_sections.__doc__,
    'TA-LOSSY': 'values are never passed through a narrowing conversion',
    'OR-VALIDATE-FIRST': rule_update_ids_precheck.__doc__,
    'AX-COORD': rule_adjacency_accumulates.__doc__,
    'TA-PARSE': rule_tsv_isfloat.__doc__,
    'OR-FILEORDER': rule_json_slicer_order.__doc__,
    'SB-NORM': rule_norm_divisor.__doc__,
    'SB-COLUMNS': rule_md_dataframe_order.__doc__,
}


def rule_pad_agreement(repo, col):
    """MetadataMap.from_file pads a short row with exactly as many empty
    cells as it is shorter than the header (guard and pad count use the same
    two lengths)."""
    rule = 'OR-PAD'
    f = repo.func(PARSE, 'MetadataMap.from_file')
    found = False
    assigns = local_assignments(f)
    for c in ast.walk(f):
        if isinstance(c, ast.Call) and isinstance(c.func, ast.Attribute) and \
                c.func.attr == 'extend' and c.args and isinstance(
                    c.args[0], ast.BinOp) and isinstance(c.args[0].op,
                                                         ast.Mult):
            row = dotted(c.func.value)
            e = c.args[0].right
            if isinstance(e, ast.Name) and e.id in assigns and \
                    len(assigns[e.id]) == 1 and assigns[e.id][0][0] is not \
                    None:
                e = assigns[e.id][0][0]
            if not (isinstance(e, ast.BinOp) and isinstance(e.op, ast.Sub)
                    and isinstance(e.left, ast.Call) and
                    call_name(e.left) == 'len' and
                    isinstance(e.right, ast.Call) and
                    call_name(e.right) == 'len'):
                continue
            found = True
            la, ra = e.left.args[0], e.right.args[0]
            ok = dotted(la) == 'header' and dotted(ra) == row
            sliced = isinstance(la, ast.Subscript) or isinstance(
                ra, ast.Subscript)
            if ok:
                col.ok(rule, PARSE, 'MetadataMap.from_file', 'pad-count', c,
                       'a row shorter than the header is padded by the '
                       'difference of the two lengths')
            elif sliced:
                col.bad(rule, PARSE, 'MetadataMap.from_file', 'pad-count', c,
                        'a short row is padded by %s cells, not by '
                        'len(header) - len(row): the last column(s) of '
                        'short rows are lost' % unparse(e))
            else:
                col.unknown(rule, PARSE, 'MetadataMap.from_file',
                            'pad-count', c, 'pad count not recognised')
    if not found:
        col.unknown(rule, PARSE, 'MetadataMap.from_file', 'pad-count', f,
                    'padding idiom not recognised')
    # ids are the first column, values keyed by header[1:]
    z = [n for n in ast.walk(f) if isinstance(n, ast.Call) and
         call_name(n) == 'zip' and len(n.args) == 2]
    ok = any(unparse(c.args[0]) == 'header[1:]' and
             unparse(c.args[1]) == 'vals[1:]' for c in z)
    col.soft(ok, rule, PARSE, 'MetadataMap.from_file', 'column-pairing', f,
             'column k of the header names column k of each row',
             'zip(header[1:], vals[1:])')


def rule_one_to_many_count(repo, col):
    """collapse(one_to_many, 'divide'): the divisor recorded per vector
    counts every mapping the vector yields (the same number of times its
    counts are added), not the number of distinct groups."""
    rule = 'SB-ONE2MANY'
    f = repo.func(TABLE, 'Table.collapse')
    st = [n for n in body_walk(f) if isinstance(n, ast.Assign) and
          isinstance(n.targets[0], ast.Subscript) and
          dotted(n.targets[0].value) == 'md_count']
    if len(st) != 1:
        col.unknown(rule, TABLE, 'Table.collapse', 'divisor', f,
                    'md_count store not found')
        return
    v = st[0].value
    if isinstance(v, ast.Name):
        incs = [n for n in body_walk(f) if isinstance(n, ast.AugAssign) and
                dotted(n.target) == v.id and isinstance(n.op, ast.Add) and
                isinstance(n.value, ast.Constant) and n.value.value == 1]
        mod = repo.mod(TABLE)
        cond = False
        for i in incs:
            for a in _anc(mod, i):
                if isinstance(a, (ast.While, ast.For)):
                    break
                if isinstance(a, (ast.If, ast.ExceptHandler)):
                    cond = True
        col.check(len(incs) == 1 and not cond, rule, TABLE, 'Table.collapse',
                  'divisor', st[0], 'counts one per mapping yielded',
                  'the per-vector divisor is not incremented exactly once '
                  'per mapping yielded')
    elif isinstance(v, ast.Call) and call_name(v) == 'len':
        col.bad(rule, TABLE, 'Table.collapse', 'divisor', st[0],
                'the divisor is %s: the size of a collection of the groups '
                'seen, which counts a group once however often the vector '
                'maps to it, while its counts are added once per mapping: '
                "'divide' mode no longer conserves totals" % unparse(v))
    else:
        col.unknown(rule, TABLE, 'Table.collapse', 'divisor', st[0],
                    'divisor expression not recognised')


RULE_TEXT.update({'OR-PAD': rule_pad_agreement.__doc__,
                  'SB-ONE2MANY': rule_one_to_many_count.__doc__})
