"""Property -> rules registry, vacuity minima, trusted base.

``minima`` are the numbers of *resolved* obligations per rule confirmed by
hand on the reviewed tree; falling below one means the analysis lost sight of
the code (ANALYSIS-ERROR, exit 2), never a pass and never a violation.
"""
from . import rules_err

TRUSTED_COMMON = [
    'python ast module (parsing of the working tree)',
    "sa/ engine (source model, CFG/dominators, rule implementations)",
]

PROPS = {}


def _prop(pid, rules, minima, rule_texts, trusted=(), assumptions=(),
          thorough_rules=()):
    PROPS[pid] = {
        'rules': list(rules),
        'thorough_rules': list(thorough_rules),
        'minima': dict(minima),
        'rule_texts': {k: ' '.join((v or '').split())
                       for k, v in rule_texts.items()},
        'trusted': TRUSTED_COMMON + list(trusted),
        'assumptions': list(assumptions),
    }


_prop('C20',
      rules=[rules_err.rule_or_finally, rules_err.rule_or_atomic,
             rules_err.rule_refuse_unknown, rules_err.rule_ef_state,
             rules_err.rule_ag_errstates, rules_err.rule_propagation,
             rules_err.rule_ag_errkinds],
      minima={'OR-FINALLY': 3, 'OR-ATOMIC': 5, 'OR-REFUSEKIND': 7,
              'EF-STATE': 2, 'AG-ERRSTATES': 2, 'AG-REACTIONS': 5,
              'OR-PROPAGATE': 5, 'AG-ERRKINDS': 22, 'AX-SHAPE': 19},
      rule_texts=rules_err.RULE_TEXT,
      trusted=['contextlib.contextmanager re-raises the block\'s exception '
               'at the yield',
               'warnings.warn / sys.stdout.write semantics'],
      assumptions=['message texts and which input triggers which kind are '
                   'runtime facts, not decided',
                   'implicit exceptions (KeyError from a subscript) are not '
                   'modelled as raises by OR-ATOMIC'])

from . import rules_validator  # noqa: E402

_prop('C15',
      rules=[rules_validator.rule_or_report, rules_validator.rule_ag_valid_hdf5,
             rules_validator.rule_ag_vocab, rules_validator.rule_or_aggr,
             rules_validator.rule_bounds,
             rules_validator.rule_shape_crosscheck,
             rules_validator.rule_shape_is_pair,
             rules_validator.rule_records, rules_validator.rule_json_keys],
      minima={'OR-REPORT': 15, 'AG-VALID': 24, 'AG-VOCAB': 2, 'OR-AGGR': 7,
              'AX-BOUNDS': 8, 'AX-SHAPE': 6, 'SB-RECORDS': 8,
              'AG-JSONKEYS': 16},
      rule_texts=rules_validator.RULE_TEXT,
      trusted=['doc/documentation/format_versions/biom-2.1.rst is the '
               'specification'],
      assumptions=[])

from . import rules_text  # noqa: E402

_prop('C02',
      rules=[rules_text.rule_ta_escape, rules_text.rule_dumps_encoder,
             rules_text.rule_ta_lossy_json, rules_text.rule_sb_jsonpaths,
             rules_text.rule_ag_json_writer],
      minima={'TA-ESCAPE': 25, 'TA-ENCODER': 4, 'TA-LOSSY': 2, 'SB-JSONPATHS': 12, 'AG-JSONKEYS': 24, 'AX-CTOR': 3},
      rule_texts=rules_text.RULE_TEXT,
      trusted=['json.dumps escapes every string it is given and emits valid '
               'JSON; repr/str of a Python float is the shortest string that '
               're-parses to the same double; %f keeps six decimals'],
      assumptions=[])

_prop('C03',
      rules=[rules_text.rule_tsv, rules_text.rule_tsv_reader,
             rules_text.rule_ag_tsvsep],
      minima={'TA-LOSSY': 3, 'SB-TSVPATHS': 1, 'AX-FWD': 8, 'AG-TSVSEP': 3},
      rule_texts=rules_text.RULE_TEXT,
      trusted=['str(numpy.float64) is the shortest round-trip repr'],
      assumptions=[])

from . import rules_subset  # noqa: E402

_prop('C14',
      rules=[rules_subset.rule_ta_api, rules_subset.rule_ta_strip,
             rules_subset.rule_ax_jsonkey, rules_subset.rule_or_refuse,
             rules_subset.rule_ta_codec, rules_subset.rule_drop_empty],
      minima={'TA-API': 150, 'TA-STRIP': 4, 'SB-SLICERS': 6,
              'AX-JSONKEY': 9, 'AX-FWD': 2, 'OR-REFUSE': 3, 'TA-CODEC': 12,
              'AX-IDAPI': 5, 'SB-EMPTY': 2},
      rule_texts=rules_subset.RULE_TEXT,
      trusted=['the installed numpy/scipy/h5py/pandas/click namespaces '
               '(imported only to resolve attribute names)',
               'h5py returns bytes for variable-length string datasets; '
               "numpy's bytes->'U' conversion decodes ASCII"],
      assumptions=['the JSON text scanner direct_parse_key is not decided '
                   'beyond the normalisation of looked-up tokens'])

from . import rules_canon, rules_hdf5  # noqa: E402

_prop('C16',
      rules=[rules_canon.rule_invariant_g,
             rules_canon.rule_or_canon_consumers, rules_canon.rule_ta_repr,
             rules_canon.rule_sb_eq],
      minima={'OR-CANON': 15, 'TA-REPR': 5, 'SB-EQ': 24},
      rule_texts=rules_canon.RULE_TEXT,
      trusted=['scipy: format conversion / astype / copy / stacking / fancy '
               'indexing / transposition never create stored zeros; '
               'eliminate_zeros and sort_indices preserve values; astype '
               'copies by default; the result of a sparse comparison holds '
               'no stored False'],
      assumptions=[])

_prop('C04',
      rules=[rules_hdf5.rule_ag_spec, rules_hdf5.rule_h5_writer_axes,
             rules_hdf5.rule_h5_nnz],
      minima={'AG-SPEC': 48, 'AX-MATOP': 8, 'AX-IDAPI': 4, 'OR-CANON': 9,
              'AX-SHAPE': 1},
      rule_texts=rules_hdf5.RULE_TEXT,
      trusted=['scipy asformat contract', 'h5py create_dataset semantics'],
      assumptions=[])

_prop('C01',
      rules=[rules_hdf5.rule_ag_h5keys, rules_hdf5.rule_ag_reg,
             rules_subset.rule_ta_codec, rules_hdf5.rule_h5_reader_axes,
             rules_hdf5.rule_h5_fwd],
      minima={'AG-H5KEYS': 16, 'AG-REG': 9, 'AG-SENT': 6, 'TA-CODEC': 12, 'AX-MATOP': 4, 'AX-FWD': 3, 'AX-OWNER': 1, 'AX-SHAPE': 1, 'AX-CTOR': 6},
      rule_texts=dict(rules_hdf5.RULE_TEXT,
                      **{'TA-CODEC': rules_subset.RULE_TEXT['TA-CODEC']}),
      trusted=['h5py: vlen-str datasets read as bytes, str attributes '
               'stored/read as UTF-8'],
      assumptions=[])

from . import rules_effects  # noqa: E402

_prop('C07',
      rules=[rules_effects.rule_ef_bind, rules_effects.rule_ef_new,
             rules_effects.rule_ef_fresh, rules_effects.rule_ef_nomut],
      minima={},
      rule_texts=rules_effects.RULE_TEXT,
      trusted=['scipy: tocsr/tocsc/asformat may return self; copy, astype '
               '(default), transpose(copy=True) and fancy indexing allocate; '
               'numpy basic slicing returns views'],
      assumptions=['user callbacks that mutate what they are handed are '
                   'outside the analysis'])

from functools import partial  # noqa: E402
from . import rules_axis, rules_table  # noqa: E402


def ax(funcs, kinds=None):
    def rule(repo, col):
        rules_axis.emit(col, repo, funcs=set(funcs), kinds=kinds)
        if kinds is None:
            from . import rules_generic
            rules_generic.rule_ax_default(repo, col, funcs)
    rule.__name__ = 'axis_sinks'
    return rule


def ax_kinds(kinds):
    def rule(repo, col):
        rules_axis.emit(col, repo, funcs=None, kinds=set(kinds))
    rule.__name__ = 'axis_sinks_%s' % '_'.join(sorted(kinds))
    return rule


def _texts(*mods, **extra):
    out = {}
    for m in mods:
        out.update(m.RULE_TEXT)
    out.update(extra)
    return out


from . import rules_extra  # noqa: E402
ALL_TEXT = _texts(rules_err, rules_validator, rules_text, rules_subset,
                  rules_hdf5, rules_canon, rules_effects, rules_axis,
                  rules_table)
for _k, _v in rules_extra.RULE_TEXT.items():
    ALL_TEXT.setdefault(_k, ' '.join((_v or '').split()))
SCIPY_TRUST = ('scipy: csr is row-major / csc column-major, sum(axis=0) is '
               'per column, hstack grows columns, conversions preserve '
               'values and may return self, astype copies by default')

_prop('C05',
      rules=[rules_table.rule_or_reindex,
             ax(['Table.filter', 'Table.update_ids', 'Table.__init__',
                 'Table._index_ids', 'Table._cast_metadata',
                 'Table.partition', 'Table.length', 'Table._iter_samp',
                 'Table._iter_obs', 'Table.is_empty', 'Table.index',
                 'Table.exists', 'Table.metadata', 'Table.data',
                 'Table.get_value_by_ids', 'Table.iter', 'Table.iter_data',
                 'Table.iter_pairwise', 'Table.nonzero', 'Table.ids',
                 'Table._index']),
             rules_axis.rule_axis_primitives,
             rules_table.rule_filter_kernel, rules_table.rule_or_errcheck,
             rules_err.rule_ag_errkinds, rules_table.rule_or_cast,
             rules_effects.rule_ef_nomut, rules_effects.rule_ef_new,
             rules_canon.rule_invariant_g,
             rules_canon.rule_or_canon_consumers],
      minima={'OR-REINDEX': 9, 'AX-STORE': 20, 'AX-RET': 14, 'AX-SHAPE': 16, 'AX-OWNER': 4, 'AX-MATOP': 2, 'AX-IDAPI': 1, 'AX-KERNEL': 1, 'AX-CTOR': 4, 'AX-PRIM': 1, 'SB-FILTERPATHS': 4, 'OR-VALIDATE-FIRST': 1, 'SB-PREDICATE': 1, 'SB-MASK': 1, 'OR-ERRCHECK': 8, 'AG-ERRKINDS': 17, 'OR-CAST': 2, 'EF-NOMUT': 1, 'EF-NEW': 56, 'EF-KROOT': 1, 'OR-CANON': 15, 'EF-FRESH': 1},
      rule_texts=ALL_TEXT, trusted=[SCIPY_TRUST],
      assumptions=['index arithmetic inside _remove_rows_csr and scipy '
                   'conversions are not decided'])

_prop('C06',
      rules=[rules_table.rule_or_coperm,
             ax(['Table.sort_order', 'Table.sort', 'Table.align_to',
                 'Table.transpose', 'Table.update_ids', 'Table.copy']),
             partial(rules_axis.rule_ax_fwd, which={'Table.sort'}),
             rules_table.rule_or_reindex, rules_effects.rule_ef_fresh],
      minima={'AX-CTOR': 12, 'AX-SHAPE': 1, 'AX-STORE': 1, 'AX-IDAPI': 1, 'AX-OWNER': 1, 'AX-MATOP': 1, 'AX-FWD': 1, 'OR-REINDEX': 6, 'EF-FRESH': 20},
      rule_texts=ALL_TEXT, trusted=[SCIPY_TRUST],
      assumptions=['natsort order, scipy fancy indexing and injectivity of '
                   'user renamings are not decided'])

_prop('C08',
      rules=[ax(['Table.filter', 'Table.head', 'Table.remove_empty']),
             rules_table.rule_filter_kernel, rules_table.rule_or_sorted,
             partial(rules_table.rule_sb_empty, which={'remove_empty'}),
             partial(rules_axis.rule_cli_fwd, which={'head'}),
             partial(rules_effects.rule_ef_bind,
                     only={'filter', 'remove_empty'})],
      minima={'AX-IDAPI': 3, 'AX-KERNEL': 1, 'AX-STORE': 3, 'OR-REINDEX': 1, 'SB-FILTERPATHS': 4, 'OR-VALIDATE-FIRST': 1, 'SB-PREDICATE': 1, 'SB-MASK': 1, 'OR-SORTED': 1, 'SB-EMPTY': 1, 'AX-FWD': 2, 'EF-BIND': 9, 'EF-KROOT': 1},
      rule_texts=ALL_TEXT, trusted=[SCIPY_TRUST],
      assumptions=['compaction arithmetic of _remove_rows_csr is not '
                   'decided'])

_prop('C09',
      rules=[rules_table.rule_merge,
             ax(['Table.merge', 'Table._fast_merge'])],
      minima={'OR-GUARD': 1, 'AG-MERGEKIND': 8, 'OR-CANON': 1, 'AX-MATOP': 1, 'AX-IDAPI': 17, 'AX-SHAPE': 1, 'AX-CTOR': 4, 'AX-OWNER': 6},
      rule_texts=ALL_TEXT, trusted=[SCIPY_TRUST, 'COO->CSR sums duplicates'],
      assumptions=['arithmetic totals are not decided'])

_prop('C10',
      rules=[rules_table.rule_concat, ax(['Table.concat'])],
      minima={'OR-DISJOINT': 2, 'OR-ALIGN': 2, 'SB-WRAP': 1, 'AX-IDAPI': 1, 'AX-SHAPE': 1, 'AX-CTOR': 12, 'AX-MATOP': 3},
      rule_texts=ALL_TEXT, trusted=[SCIPY_TRUST],
      assumptions=['zero padding values and totals are not decided'])

_prop('C11',
      rules=[ax(['Table.partition', 'Table.collapse']),
             partial(rules_effects.rule_ef_new,
                     only={'partition', 'collapse'}),
             rules_table.rule_or_errcheck],
      minima={'AX-CTOR': 8, 'AX-MATOP': 1, 'EF-NEW': 1, 'OR-ERRCHECK': 2},
      rule_texts=ALL_TEXT, trusted=[SCIPY_TRUST],
      assumptions=['group membership, sums and division are runtime '
                   'arithmetic, not decided'])

_prop('C12',
      rules=[ax(['Table.subsample']), rules_table.rule_subsample_kernels,
             partial(rules_table.rule_sb_empty, which={'subsample'}),
             partial(rules_effects.rule_ef_new, only={'subsample'}),
             rules_effects.rule_ef_nomut,
             partial(rules_axis.rule_ax_fwd, which={'generate_subsamples'})],
      minima={'AX-KERNEL': 1, 'SB-KGUARD': 1, 'TA-RNG': 4, 'SB-KDISPATCH': 1, 'AX-IDAPI': 1, 'SB-EMPTY': 1, 'EF-NEW': 1, 'EF-KROOT': 1, 'EF-NOMUT': 1, 'AX-FWD': 2},
      rule_texts=ALL_TEXT, trusted=[SCIPY_TRUST,
                                    'numpy Generator API'],
      assumptions=['the sampling walk, exact sums and unbiasedness are '
                   'not decided'])

_prop('C13',
      rules=[ax(['Table.transform']), rules_table.rule_sb_slice,
             partial(rules_effects.rule_ef_bind,
                     only={'transform', 'norm', 'pa', 'rankdata'}),
             partial(rules_axis.rule_ax_fwd,
                     which={'Table.norm', 'Table.rankdata', 'Table.pa'}),
             partial(rules_axis.rule_cli_fwd, which={'normalize'}),
             partial(rules_table.rule_sb_empty, which={'pa'}),
             rules_canon.rule_invariant_g,
             rules_canon.rule_or_canon_consumers],
      minima={'AX-KERNEL': 1, 'SB-SLICE': 2, 'OR-CANON': 16, 'EF-BIND': 7, 'EF-KROOT': 1, 'AX-FWD': 5, 'SB-EMPTY': 1, 'EF-FRESH': 1},
      rule_texts=ALL_TEXT, trusted=[SCIPY_TRUST],
      assumptions=['numeric results of norm / rankdata are not decided'])

_prop('C17',
      rules=[rules_table.rule_to_sparse, rules_canon.rule_invariant_g,
             rules_canon.rule_or_canon_consumers,
             rules_table.rule_or_errcheck, rules_err.rule_ag_errkinds,
             rules_table.rule_or_bypass, rules_table.rule_importers,
             ax(['Table.__init__', 'Table._index_ids', 'Table.from_json',
                 'Table.from_tsv', 'Table.from_adjacency', 'parse_uc'])],
      minima={'AG-INPUTS': 16, 'SB-CONVERT': 5, 'AX-SHAPE': 16, 'OR-CANON': 8, 'EF-FRESH': 1, 'OR-ERRCHECK': 8, 'AG-ERRKINDS': 17, 'OR-BYPASS': 1, 'AX-COORD': 3, 'AX-CTOR': 3, 'AX-STORE': 12, 'OR-REINDEX': 1},
      rule_texts=ALL_TEXT, trusted=[SCIPY_TRUST],
      assumptions=['equality of produced values across input forms and '
                   'shape inference heuristics are not decided'])

_prop('C18',
      rules=[rules_effects.rule_ef_meta,
             ax(['Table.add_metadata', 'Table.del_metadata']),
             rules_table.rule_or_cast, rules_table.rule_metadata_updates,
             partial(rules_axis.rule_cli_fwd, which={'add-metadata'})],
      minima={'EF-META': 9, 'AX-STORE': 6, 'AX-OWNER': 1, 'OR-CAST': 2, 'OR-METAUPD': 4, 'AX-FWD': 3},
      rule_texts=ALL_TEXT, trusted=['dict.update overwrite semantics'],
      assumptions=['the mapping-file row grammar (MetadataMap.from_file) is '
                   'runtime text processing, not decided'])

_prop('C19',
      rules=[rules_axis.rule_axis_primitives,
             ax(['Table.sum', 'Table.min', 'Table.max',
                 'Table.nonzero_counts', 'Table.reduce',
                 'Table.to_dataframe', 'Table.metadata_to_dataframe',
                 'Table.get_table_density', 'Table.nonzero']),
             rules_table.rule_density,
             partial(rules_axis.rule_cli_fwd,
                     which={'ids', 'head', 'export'}),
             partial(rules_table.rule_sb_empty, which={'stats'}),
             rules_canon.rule_invariant_g,
             rules_canon.rule_or_canon_consumers],
      minima={'AX-PRIM': 1, 'AX-RET': 14, 'AX-SHAPE': 3, 'AX-CTOR': 2, 'OR-CANON': 16, 'AX-FWD': 5, 'SB-EMPTY': 1, 'EF-FRESH': 1},
      rule_texts=ALL_TEXT, trusted=[SCIPY_TRUST, 'pandas DataFrame '
                                    'index/columns label rows/columns'],
      assumptions=['formatted figures of summarize-table, medians and means '
                   'are not decided'])

# axis sinks of the readers are part of the round-trip properties
PROPS['C01']['rules'].append(ax(['Table.from_hdf5']))
PROPS['C02']['rules'].append(ax(['Table.from_json']))
PROPS['C01']['rule_texts'].update(rules_axis.RULE_TEXT)
PROPS['C02']['rule_texts'].update(rules_axis.RULE_TEXT)


# ---- rules added after the independent seeded changes ----------------------
X = rules_extra
PROPS['C01']['rules'] += [X.rule_h5_sections, X.rule_parsers_identity]
PROPS['C04']['rules'] += [X.rule_h5_sections]
PROPS['C03']['rules'] += [X.rule_tsv_isfloat,
                          ax(['Table.delimited_self', 'Table.to_tsv'])]
PROPS['C05']['rules'] += [X.rule_update_ids_precheck,
                          ax_kinds(['DDICT', 'MAJOR', 'TRUTH', 'REINDEX'])]
PROPS['C02']['rules'] += [ax(['Table.to_json'])]
PROPS['C07']['rules'] += [X.rule_cast_metadata, ax_kinds(['DDICT'])]
PROPS['C11']['rules'] += [X.rule_partition_ignore_none]
PROPS['C13']['rules'] += [X.rule_norm_divisor]
PROPS['C14']['rules'] += [X.rule_json_slicer_order,
                          X.rule_requested_ids_cast]
PROPS['C15']['rules'] += [rules_validator.rule_written_constants]
PROPS['C16']['rules'] += [ax_kinds(['DDICT', 'MAJOR', 'REINDEX'])]
PROPS['C17']['rules'] += [X.rule_cast_metadata,
                          X.rule_adjacency_accumulates, X.rule_mdsize_guard]
PROPS['C19']['rules'] += [X.rule_minmax, X.rule_md_dataframe_order,
                          ax(['_summarize_table'])]
PROPS['C20']['rules'] += [X.rule_mdsize_guard]
for _p in ('C01', 'C03', 'C04', 'C14', 'C15', 'C16', 'C20', 'C02', 'C07'):
    for _k, _v in ALL_TEXT.items():
        PROPS[_p]['rule_texts'].setdefault(_k, _v)
PROPS['C02']['rules'] += [rules_table.rule_to_sparse]
PROPS['C18']['rules'] += [X.rule_pad_agreement]
PROPS['C11']['rules'] += [X.rule_one_to_many_count]
for _k, _v in rules_extra.RULE_TEXT.items():
    ALL_TEXT.setdefault(_k, ' '.join((_v or '').split()))

# ---- scope-wide rules (second round of independent seeded changes) ---------
from . import rules_generic as G  # noqa: E402
_T, _P, _U = 'biom/table.py', 'biom/parse.py', 'biom/util.py'
SCOPE = {
    'C01': [(_T, 'Table.to_hdf5'), (_T, 'Table.from_hdf5'),
            (_T, 'general_formatter'), (_T, 'vlen_list_of_str_formatter'),
            (_T, 'general_parser'), (_T, 'vlen_list_of_str_parser'),
            (_P, 'load_table'), (_P, 'parse_biom_table')],
    'C02': [(_T, 'Table.to_json'), (_T, 'Table.from_json'),
            (_T, 'NpEncoder.default'), (_P, 'parse_biom_table')],
    'C03': [(_T, 'Table.delimited_self'), (_T, 'Table.to_tsv'),
            (_T, 'Table._extract_data_from_tsv'), (_T, 'Table.from_tsv')],
    'C04': [(_T, 'Table.to_hdf5')],
    'C05': [(_T, 'Table.__init__'), (_T, 'Table.filter'),
            (_T, 'Table.update_ids')],
    'C06': [(_T, 'Table.sort_order'), (_T, 'Table.sort'),
            (_T, 'Table.align_to'), (_T, 'Table.transpose'),
            (_T, 'Table.update_ids'), (_T, 'Table.copy')],
    'C08': [(_T, 'Table.filter'), (_T, 'Table.remove_empty'),
            (_T, 'Table.head')],
    'C09': [(_T, 'Table.merge'), (_T, 'Table._fast_merge')],
    'C10': [(_T, 'Table.concat'), ('biom/__init__.py', 'concat')],
    'C11': [(_T, 'Table.partition'), (_T, 'Table.collapse')],
    'C12': [(_T, 'Table.subsample'), (_U, 'generate_subsamples')],
    'C13': [(_T, 'Table.transform'), (_T, 'Table.norm'), (_T, 'Table.pa'),
            (_T, 'Table.rankdata')],
    'C14': [(_T, 'Table.from_hdf5'), (_P, 'parse_biom_table'),
            ('biom/cli/table_subsetter.py', '_subset_table')],
    'C16': [(_T, 'Table.__eq__'), (_T, 'Table.__ne__'),
            (_T, 'Table.descriptive_equality'),
            (_T, 'Table._data_equality')],
    'C17': [(_T, 'Table._to_sparse'), (_T, 'Table.__init__'),
            (_T, 'Table.from_adjacency'), (_P, 'parse_uc')],
    'C19': [(_T, 'Table.sum'), (_T, 'Table.min'), (_T, 'Table.max'),
            (_T, 'Table.nonzero_counts'), (_T, 'Table.reduce'),
            (_T, 'Table.get_table_density'), (_T, 'Table.nonzero'),
            (_U, 'compute_counts_per_sample_stats')],
}
SCOPE['C07'] = [(_T, 'Table.' + _m) for _m in (
    'sort', 'sort_order', 'transpose', 'copy', 'head', 'subsample',
    'partition', 'collapse', 'merge', '_fast_merge', 'concat', 'align_to',
    'filter', 'transform', 'norm', 'pa', 'rankdata', 'remove_empty',
    'update_ids')] + [(_U, 'prefer_self')]
SCOPE['C09'] = SCOPE['C09'] + [(_U, 'prefer_self')]
for _pid, _roots in SCOPE.items():
    PROPS[_pid]['rules'].append(partial(G.rule_ef_args, roots=_roots))
    if _pid == 'C07':
        continue
    PROPS[_pid]['rules'].append(partial(G.rule_numloss, roots=_roots))
    PROPS[_pid]['rules'].append(partial(G.rule_numeric_truth, roots=_roots))
PROPS['C18']['rules'].append(partial(G.rule_ef_args, roots=[
    (_T, 'Table.add_metadata'), (_T, 'Table.del_metadata'),
    (_T, 'Table.add_group_metadata'), (_P, 'MetadataMap.from_file'),
    ('biom/cli/metadata_adder.py', '_add_metadata')]))
import json as _json  # noqa: E402
import os as _os  # noqa: E402
with open(_os.path.join(_os.path.dirname(_os.path.dirname(
        _os.path.abspath(__file__))), 'properties.jsonl')) as _fh:
    for _line in _fh:
        _d = _json.loads(_line)
        _files = {f for f in _d['anchors']['files'] if f.endswith('.py')}
        PROPS[_d['id']]['rules'].append(
            partial(G.rule_late_binding, rels=_files))
for _pid in ('C01', 'C08', 'C14'):
    PROPS[_pid]['rules'].append(partial(G.rule_emptiness_scan,
                                        roots=SCOPE[_pid]))
for _pid in ('C15', 'C17', 'C02'):
    PROPS[_pid]['rules'].append(G.rule_shape_forwarded)
for _pid in ('C04', 'C01', 'C15'):
    PROPS[_pid]['rules'].append(G.rule_field_const)
from . import rules_round2 as R2  # noqa: E402
PROPS['C01']['rules'] += [R2.rule_pathname, R2.rule_text_payload]
PROPS['C02']['rules'] += [R2.rule_date_inverse]
PROPS['C03']['rules'] += [R2.rule_processor_keeps_all]
PROPS['C05']['rules'] += [R2.rule_filter_passthrough]
PROPS['C08']['rules'] += [R2.rule_filter_passthrough]
PROPS['C09']['rules'] += [R2.rule_fast_merge_operands]
PROPS['C11']['rules'] += [R2.rule_acc_dtype]
PROPS['C12']['rules'] += [R2.rule_byid_branch]
PROPS['C16']['rules'] += [R2.rule_eq_aggregates]
PROPS['C17']['rules'] += [R2.rule_uc_kinds, R2.rule_adjacency_all_records]
PROPS['C18']['rules'] += [R2.rule_converter_every_field]
PROPS['C20']['rules'] += [rules_table.rule_or_errcheck]
PROPS['C07']['rules'] += [R2.rule_loop_rebind]
PROPS['C05']['rules'] += [R2.rule_empty_accumulation, R2.rule_all_kinds_scanned]
PROPS['C11']['rules'] += [R2.rule_empty_accumulation]
from . import rules_round3 as R3  # noqa: E402
PROPS['C01']['rules'] += [R3.rule_h5_options]
PROPS['C04']['rules'] += [R3.rule_h5_options, R3.rule_group_md_attr]
PROPS['C02']['rules'] += [R3.rule_ensure_ascii, R3.rule_element_type]
PROPS['C03']['rules'] += [R3.rule_tsv_id_text]
PROPS['C07']['rules'] += [R3.rule_copy_shares_nothing]
PROPS['C08']['rules'] += [R3.rule_kernel_path]
PROPS['C05']['rules'] += [R3.rule_kernel_path]
PROPS['C11']['rules'] += [R3.rule_collapse_partition_defaults]
PROPS['C14']['rules'] += [R3.rule_param_kept, R3.rule_numeric_position_order]
PROPS['C15']['rules'] += [R3.rule_validator_types]
PROPS['C17']['rules'] += [R3.rule_is_empty_definition, R3.rule_uc_increments]
PROPS['C19']['rules'] += [R3.rule_bincount_minlength]
PROPS['C10']['rules'] += [R3.rule_disjoint_accumulates,
                          rules_table.rule_or_errcheck]
PROPS['C10'].setdefault('scope', {})['OR-ERRCHECK'] = (
    lambda f: f.startswith('Table.concat'))
PROPS['C06']['rules'] += [R3.rule_update_ids_from_original]
PROPS['C09']['rules'] += [R3.rule_merge_md_per_iteration]
for _pid in ('C11', 'C12', 'C13'):
    PROPS[_pid]['rules'] += [R3.rule_small_shortcuts]
PROPS['C11'].setdefault('scope', {}).update({
    'TA-RNG': lambda f: False, 'SB-RANK': lambda f: False})
PROPS['C12'].setdefault('scope', {}).update({
    'SB-LABEL': lambda f: False, 'SB-RANK': lambda f: False})
PROPS['C13'].setdefault('scope', {}).update({
    'SB-LABEL': lambda f: False, 'TA-RNG': lambda f: False})
PROPS['C20']['rules'] += [R3.rule_profile_confined_raise]
PROPS['C16']['rules'] += [R3.rule_metadata_canonical]
PROPS['C07']['rules'] += [R3.rule_metadata_canonical]
from . import rules_round4 as R4  # noqa: E402
with open(_os.path.join(_os.path.dirname(_os.path.dirname(
        _os.path.abspath(__file__))), 'properties.jsonl')) as _fh:
    for _line in _fh:
        _d = _json.loads(_line)
        _files = {f for f in _d['anchors']['files'] if f.endswith('.py')}
        for _r, _rid in ((R4.rule_call_signature, 'AG-CALLSIG'),
                         (R4.rule_format_template, 'TA-FMTSTR'),
                         (R4.rule_scoped_yield, 'OR-SCOPEDYIELD'),
                         (R4.rule_open_encoding, 'TA-CODEC')):
            if _d['id'] in SCOPE and _rid != 'TA-CODEC':
                PROPS[_d['id']]['rules'].append(
                    G.closure_scoped(_r, [_rid], SCOPE[_d['id']]))
            else:
                PROPS[_d['id']]['rules'].append(partial(_r, rels=_files))
for _pid in ('C05', 'C07', 'C16', 'C19'):
    PROPS[_pid]['rules'].append(R4.rule_no_matrix_cache)
for _pid in ('C11', 'C09', 'C10', 'C05'):
    PROPS[_pid]['rules'].append(R4.rule_parallel_lists)
PROPS['C02']['rules'] += [R4.rule_every_vector_written]
PROPS['C03']['rules'] += [R4.rule_every_vector_written]
PROPS['C01']['rules'] += [R4.rule_aligned_recovery, R4.rule_category_sets]
PROPS['C04']['rules'] += [R4.rule_aligned_recovery]
PROPS['C09']['rules'] += [R4.rule_callbacks]
PROPS['C13']['rules'] += [R4.rule_callbacks]
PROPS['C09'].setdefault('scope', {})['OR-CALLBACK'] = (
    lambda f: f == 'Table.merge')
PROPS['C13'].setdefault('scope', {})['OR-CALLBACK'] = (
    lambda f: f == 'Table.transform')
PROPS['C12']['rules'] += [partial(R4.rule_kernels_see_sorted,
                                  which=('subsample',))]
PROPS['C13']['rules'] += [partial(R4.rule_kernels_see_sorted,
                                  which=('transform',))]
PROPS['C16']['rules'] += [R4.rule_kernels_see_sorted]
PROPS['C16']['rules'].append(partial(G.rule_ef_args, roots=[
    (_T, 'Table.to_hdf5'), (_T, 'Table.to_json'), (_T, 'Table.to_tsv'),
    (_T, 'Table.delimited_self'), (_T, 'general_formatter'),
    (_T, 'vlen_list_of_str_formatter')]))
PROPS['C06']['rules'] += [R4.rule_transpose_returns,
                          R4.rule_dup_test_on_result]
PROPS['C03']['rules'] += [R4.rule_convert_single_write]
PROPS['C01']['rules'] += [rules_hdf5.rule_ag_spec]
PROPS['C18']['rules'] += [R4.rule_mapping_separator]
PROPS['C15']['rules'] += [R4.rule_record_metadata_required]
PROPS['C20']['rules'] += [R4.rule_state_validated]
PROPS['C19']['rules'] += [R4.rule_stat_labels]
PROPS['C16']['rules'] += [rules_table.rule_or_coperm]
PROPS['C07']['rules'] += [ax_kinds(['KERNEL'])]
from . import rules_round5 as R5  # noqa: E402
with open(_os.path.join(_os.path.dirname(_os.path.dirname(
        _os.path.abspath(__file__))), 'properties.jsonl')) as _fh:
    for _line in _fh:
        _d = _json.loads(_line)
        _pid = _d['id']
        _files = {f for f in _d['anchors']['files'] if f.endswith('.py')}
        for _r, _rid in ((R5.rule_param_used, 'AG-PARAMUSED'),
                         (R5.rule_no_global_mutation, 'EF-GLOBAL'),
                         (R5.rule_number_regex, 'TA-NUMREGEX')):
            if _pid in SCOPE:
                PROPS[_pid]['rules'].append(
                    G.closure_scoped(_r, [_rid], SCOPE[_pid]))
            else:
                PROPS[_pid]['rules'].append(partial(_r, rels=_files))
# CLI wrappers belong to the properties that name the command
PROPS['C03']['rules'].append(partial(
    R5.rule_param_used, rels={'biom/cli/table_converter.py'}))
PROPS['C18']['rules'].append(partial(
    R5.rule_param_used, rels={'biom/cli/metadata_adder.py'}))
PROPS['C14']['rules'].append(partial(
    R5.rule_param_used, rels={'biom/cli/table_subsetter.py'}))
PROPS['C19']['rules'].append(partial(
    R5.rule_param_used, rels={'biom/cli/table_summarizer.py',
                              'biom/cli/table_head.py',
                              'biom/cli/table_ids.py',
                              'biom/cli/metadata_exporter.py'}))
PROPS['C13']['rules'].append(partial(
    R5.rule_param_used, rels={'biom/cli/table_normalizer.py'}))
PROPS['C09']['rules'] += [R5.rule_work_vector]
for _pid in ('C20', 'C17', 'C02', 'C03', 'C01', 'C14'):
    PROPS[_pid]['rules'].append(partial(
        R5.rule_broad_except, rels={'biom/parse.py', 'biom/table.py',
                                    'biom/util.py'}))
for _pid in ('C15', 'C17', 'C18', 'C19'):
    PROPS[_pid]['rules'].append(R5.rule_small_round5)
PROPS['C15'].setdefault('scope', {}).update({
    k: (lambda f: False) for k in ('SB-FOLD', 'SB-ALLIDS', 'OR-TYPECHECK',
                                   'AG-UCKINDS', 'TA-NUMLOSS')})
PROPS['C17'].setdefault('scope', {}).update({
    k: (lambda f: False) for k in ('SB-FOLD', 'SB-ALLIDS')})
PROPS['C17']['scope']['AG-VALID'] = lambda f: False
PROPS['C17']['scope']['TA-NUMLOSS'] = lambda f: f != '_int'
PROPS['C18'].setdefault('scope', {}).update({
    k: (lambda f: False) for k in ('SB-FOLD', 'SB-ALLIDS', 'OR-TYPECHECK',
                                   'AG-UCKINDS', 'AG-VALID')})
PROPS['C19'].setdefault('scope', {}).update({
    k: (lambda f: False) for k in ('OR-TYPECHECK', 'AG-UCKINDS', 'AG-VALID',
                                   'TA-NUMLOSS')})
PROPS['C06']['rules'] += [R5.rule_delegations, R5.rule_id_width]
PROPS['C13']['rules'] += [R5.rule_delegations]
PROPS['C10']['rules'] += [R5.rule_delegations, R5.rule_concat_operands]
PROPS['C11']['rules'] += [R5.rule_delegations]
PROPS['C06'].setdefault('scope', {})['SB-DELEGATE'] = (
    lambda f: f == 'Table.sort')
PROPS['C13'].setdefault('scope', {})['SB-DELEGATE'] = (
    lambda f: f in ('Table.norm', 'Table.rankdata'))
PROPS['C10'].setdefault('scope', {})['SB-DELEGATE'] = (
    lambda f: f == 'concat')
PROPS['C11'].setdefault('scope', {})['SB-DELEGATE'] = (
    lambda f: f == 'Table.partition')
PROPS['C01']['rules'] += [R5.rule_formatter_dtype]
PROPS['C08']['rules'] += [R5.rule_remove_empty_all_axes,
                          R5.rule_filter_inputs]
from . import rules_round6 as R6  # noqa: E402
PROPS['C02']['rules'] += [R6.rule_accumulator_drop]
PROPS['C14']['rules'] += [R6.rule_selection_narrowed]
for _pid in ('C06', 'C17', 'C02'):
    PROPS[_pid]['rules'] += [R6.rule_compressed_matrix]
PROPS['C03']['rules'] += [R6.rule_sniff_agrees]
PROPS['C09']['rules'] += [R6.rule_oneshot, R6.rule_order_by_position]
for _pid in ('C20', 'C08', 'C11'):
    PROPS[_pid]['rules'].append(partial(
        R6.rule_warning_suppression, rels={'biom/table.py', 'biom/err.py',
                                           'biom/util.py', 'biom/parse.py'}))
PROPS['C01']['rules'] += [R6.rule_partial_decode,
                          partial(R6.rule_date_whole,
                                  funcs=('Table.from_hdf5',))]
PROPS['C02']['rules'] += [partial(R6.rule_date_whole,
                                  funcs=('Table.from_json',)),
                          R6.rule_dense_flag]
PROPS['C04']['rules'] += [R6.rule_group_md_order]
PROPS['C03']['rules'] += [R6.rule_squeeze, R6.rule_parsed_ids,
                          R6.rule_row_counter, R6.rule_ids_as_read,
                          R6.rule_convert_writes_asis]
PROPS['C05']['rules'] += [R6.rule_new_axis_metadata, R6.rule_check_all_kinds]
PROPS['C18']['rules'] += [R6.rule_new_axis_metadata, R6.rule_quotes_everywhere,
                          R6.rule_split_strips]
PROPS['C10']['rules'] += [R6.rule_flag_accumulated]
PROPS['C11']['rules'] += [R6.rule_partition_yields_all,
                          R6.rule_sparse_ordinal]
PROPS['C12']['rules'] += [R6.rule_kernel_unconditional,
                          R6.rule_cleanup_unconditional,
                          R6.rule_id_set_raw, R6.rule_kernel_input]
PROPS['C13']['rules'] += [R6.rule_rank_methods, R6.rule_normalize_cli_thin]
PROPS['C14']['rules'] += [R6.rule_file_ids, R6.rule_filter_order,
                          partial(R6.rule_filtered_stack,
                                  funcs=('Table.from_hdf5',))]
PROPS['C17']['rules'] += [R6.rule_errmsg_repr, R6.rule_adjacency_header,
                          R6.rule_uc_pairs]
PROPS['C19']['rules'] += [R6.rule_reduce_all, R6.rule_export_asis,
                          R6.rule_cli_same_output, R6.rule_orient_first]
PROPS['C09']['rules'] += [R6.rule_value_buffer_dtype]
PROPS['C16']['rules'] += [R6.rule_raw_format]
PROPS['C06']['rules'] += [R6.rule_raw_format]
PROPS['C05']['rules'] += [R6.rule_raw_format]
for _pid in ('C05', 'C08'):
    PROPS[_pid]['rules'] += [R6.rule_stored_extreme_guarded]
for _pid in ('C01', 'C04'):
    PROPS[_pid]['rules'] += [rules_hdf5.rule_h5_group_md_axis]
    PROPS[_pid].setdefault('rule_texts', {})
for _pid in ('C05', 'C09'):
    PROPS[_pid]['rules'] += [R6.rule_sorted_haystack]
PROPS['C17']['rules'] += [R6.rule_raw_format]
PROPS['C02']['rules'] += [R6.rule_scatter, R6.rule_null_only_for_none]
PROPS['C06']['rules'] += [R6.rule_filtered_extreme, R6.rule_scatter,
                          R6.rule_map_absent]
for _pid in ('C05', 'C16', 'C19'):
    PROPS[_pid]['rules'] += [R6.rule_searchsorted_needs_sorted]
PROPS['C03']['rules'] += [R6.rule_seek_offsets]
PROPS['C19']['rules'] += [R6.rule_all_samples_counted]
for _pid in ('C14', 'C05'):
    PROPS[_pid]['rules'] += [R6.rule_stale_index]
PROPS['C04']['rules'] += [R4.rule_category_sets]
PROPS['C01']['rules'] += [R6.rule_group_md_order]
PROPS['C06']['rules'] += [R6.rule_transpose_copies]
PROPS['C07']['rules'] += [R6.rule_transpose_copies]
PROPS['C11']['rules'] += [R6.rule_dict_form]
PROPS['C12']['rules'] += [R6.rule_negative_slice]
PROPS['C19']['rules'] += [R6.rule_first_probe]
PROPS['C19']['rules'] += [R6.rule_sparse_fill]
PROPS['C19']['rules'] += [R6.rule_empty_reduce]
PROPS['C13']['rules'] += [R6.rule_reciprocal]
PROPS['C16']['rules'] += [R6.rule_eq_fields]
PROPS['C01']['rules'] += [R6.rule_formatter_identity, R6.rule_category_loop,
                          R6.rule_h5_string_type]
PROPS['C04']['rules'] += [R6.rule_h5_string_type]
for _pid in ('C02', 'C03', 'C01'):
    PROPS[_pid]['rules'] += [R6.rule_gzip_magic]
PROPS['C08']['rules'] += [R6.rule_selection_kind]
PROPS['C11']['rules'] += [R6.rule_visit_all]
PROPS['C12']['rules'] += [R6.rule_naive_shuffle]
PROPS['C14']['rules'] += [R6.rule_refuse_any_missing,
                          R6.rule_subset_cleanup_axis]
PROPS['C17']['rules'] += [R6.rule_value_buffer_dtype, R6.rule_check_all_kinds]
PROPS['C18']['rules'] += [R6.rule_delete_key, partial(
    R6.rule_linesplit, rels={'biom/parse.py', 'biom/cli/metadata_adder.py'})]
PROPS['C03']['rules'].append(partial(
    R6.rule_linesplit, rels={'biom/parse.py', 'biom/cli/table_converter.py'}))
PROPS['C19']['rules'] += [R6.rule_presence]
PROPS['C09']['rules'] += [R6.rule_negative_sentinel]
PROPS['C20']['rules'] += [R6.rule_errstate_entry, R6.rule_check_all_kinds]
PROPS['C09']['rules'].append(partial(rules_effects.rule_ef_new,
                                     only={'merge', '_fast_merge'}))
PROPS['C10']['rules'].append(partial(rules_effects.rule_ef_new,
                                     only={'concat'}))
PROPS['C14']['rules'].append(partial(
    R6.rule_whitespace_split, rels={'biom/cli/table_subsetter.py',
                                    'biom/parse.py'}))
PROPS['C03']['rules'].append(partial(
    R6.rule_whitespace_split, rels={'biom/table.py',
                                    'biom/cli/table_converter.py'}))
PROPS['C18']['rules'].append(partial(
    R6.rule_whitespace_split, rels={'biom/parse.py',
                                    'biom/cli/metadata_adder.py'}))
PROPS['C17']['rules'].append(partial(
    R6.rule_whitespace_split, rels={'biom/parse.py', 'biom/table.py',
                                    'biom/cli/uc_processor.py'}))
for _p in PROPS.values():
    for _k, _v in R6.RULE_TEXT.items():
        _p['rule_texts'].setdefault(_k, ' '.join(_v.split()))
for _p in PROPS.values():
    for _k, _v in R5.RULE_TEXT.items():
        _p['rule_texts'].setdefault(_k, ' '.join(_v.split()))
for _p in PROPS.values():
    for _k, _v in R4.RULE_TEXT.items():
        _p['rule_texts'].setdefault(_k, ' '.join(_v.split()))
for _p in PROPS.values():
    for _k, _v in R3.RULE_TEXT.items():
        _p['rule_texts'].setdefault(_k, ' '.join(_v.split()))
for _p in PROPS.values():
    for _k, _v in R2.RULE_TEXT.items():
        _p['rule_texts'].setdefault(_k, ' '.join(_v.split()))
    for _k, _v in G.RULE_TEXT.items():
        _p['rule_texts'].setdefault(_k, ' '.join(_v.split()))

# ---- per-property scope of shared rules -------------------------------------
# A rule shared between properties reports on every function it covers; an
# obligation about a function outside a property's mechanism is not evidence
# about that property.
def _not_io(f):
    return f.startswith('Table.') and not f.startswith(
        ('Table.to_', 'Table.from_', 'Table.delimited_self',
         'Table._extract_data_from_tsv', 'Table.__str__', 'Table.__repr__'))


def _not(*names):
    return lambda f: not f.startswith(names)


def _only(*names):
    return lambda f: f.startswith(names)


for _r in ('AX-TRUTH', 'AX-MAJOR', 'EF-DDICT'):
    PROPS['C05'].setdefault('scope', {})[_r] = _not_io
PROPS['C11'].setdefault('scope', {})['OR-ERRCHECK'] = _only(
    'Table.collapse', 'Table.partition')
PROPS['C17'].setdefault('scope', {})['OR-ERRCHECK'] = _not(
    'Table.filter', 'Table.update_ids', 'Table.collapse')
PROPS['C12'].setdefault('scope', {})['EF-NOMUT'] = _only(
    'Table.subsample', '_subsample', 'subsample')
PROPS['C01'].setdefault('scope', {})['TA-NUMLOSS'] = _not(
    'Table.from_tsv', 'Table._extract_data_from_tsv', 'Table.from_json')
PROPS['C02'].setdefault('scope', {})['TA-NUMLOSS'] = _not(
    'Table.from_tsv', 'Table._extract_data_from_tsv', 'Table.from_hdf5')
PROPS['C14'].setdefault('scope', {})['TA-NUMLOSS'] = _not(
    'Table.from_tsv', 'Table._extract_data_from_tsv')

# vacuity minima tolerate refactorings that merge or split obligations: they
# only have to notice that the analysis lost sight of the code altogether
for _p in PROPS.values():
    _p['minima'] = {k: max(2, v // 4) for k, v in _p['minima'].items()
                    if v // 2 >= 2}
