"""Property -> rules registry, vacuity minima, trusted base.

``minima`` are the numbers of *resolved* obligations per rule confirmed by
hand on the reviewed tree; falling below one means the analysis lost sight of
the code (ANALYSIS-ERROR, exit 2), never a pass and never a violation.
"""
from . import rules_err

TRUSTED_COMMON = [
    'python ast module (parsing of the working tree)',
    "sa/ engine (source model, CFG/dominators, rule implementations)",
]

PROPS = {}


def _prop(pid, rules, minima, rule_texts, trusted=(), assumptions=(),
          thorough_rules=()):
    PROPS[pid] = {
        'rules': list(rules),
        'thorough_rules': list(thorough_rules),
        'minima': dict(minima),
        'rule_texts': {k: ' '.join((v or '').split())
                       for k, v in rule_texts.items()},
        'trusted': TRUSTED_COMMON + list(trusted),
        'assumptions': list(assumptions),
    }


_prop('C20',
      rules=[rules_err.rule_or_finally, rules_err.rule_or_atomic,
             rules_err.rule_refuse_unknown, rules_err.rule_ef_state,
             rules_err.rule_ag_errstates, rules_err.rule_propagation,
             rules_err.rule_ag_errkinds],
      minima={'OR-FINALLY': 3, 'OR-ATOMIC': 5, 'OR-REFUSEKIND': 7,
              'EF-STATE': 2, 'AG-ERRSTATES': 2, 'AG-REACTIONS': 5,
              'OR-PROPAGATE': 5, 'AG-ERRKINDS': 22, 'AX-SHAPE': 19},
      rule_texts=rules_err.RULE_TEXT,
      trusted=['contextlib.contextmanager re-raises the block\'s exception '
               'at the yield',
               'warnings.warn / sys.stdout.write semantics'],
      assumptions=['message texts and which input triggers which kind are '
                   'runtime facts, not decided',
                   'implicit exceptions (KeyError from a subscript) are not '
                   'modelled as raises by OR-ATOMIC'])

from . import rules_validator  # noqa: E402

_prop('C15',
      rules=[rules_validator.rule_or_report, rules_validator.rule_ag_valid_hdf5,
             rules_validator.rule_ag_vocab, rules_validator.rule_or_aggr,
             rules_validator.rule_bounds,
             rules_validator.rule_shape_crosscheck,
             rules_validator.rule_records, rules_validator.rule_json_keys],
      minima={'OR-REPORT': 15, 'AG-VALID': 24, 'AG-VOCAB': 2, 'OR-AGGR': 7,
              'AX-BOUNDS': 8, 'AX-SHAPE': 6, 'SB-RECORDS': 8,
              'AG-JSONKEYS': 16},
      rule_texts=rules_validator.RULE_TEXT,
      trusted=['doc/documentation/format_versions/biom-2.1.rst is the '
               'specification'],
      assumptions=[])

from . import rules_text  # noqa: E402

_prop('C02',
      rules=[rules_text.rule_ta_escape, rules_text.rule_dumps_encoder,
             rules_text.rule_ta_lossy_json, rules_text.rule_sb_jsonpaths,
             rules_text.rule_ag_json_writer],
      minima={'TA-ESCAPE': 24, 'TA-ENCODER': 5, 'TA-LOSSY': 3,
              'SB-JSONPATHS': 12, 'AG-JSONKEYS': 25},
      rule_texts=rules_text.RULE_TEXT,
      trusted=['json.dumps escapes every string it is given and emits valid '
               'JSON; repr/str of a Python float is the shortest string that '
               're-parses to the same double; %f keeps six decimals'],
      assumptions=[])

_prop('C03',
      rules=[rules_text.rule_tsv, rules_text.rule_tsv_reader,
             rules_text.rule_ag_tsvsep],
      minima={'TA-LOSSY': 3, 'SB-TSVPATHS': 1, 'AX-FWD': 8, 'AG-TSVSEP': 3},
      rule_texts=rules_text.RULE_TEXT,
      trusted=['str(numpy.float64) is the shortest round-trip repr'],
      assumptions=[])

from . import rules_subset  # noqa: E402

_prop('C14',
      rules=[rules_subset.rule_ta_api, rules_subset.rule_ta_strip,
             rules_subset.rule_ax_jsonkey, rules_subset.rule_or_refuse,
             rules_subset.rule_ta_codec, rules_subset.rule_drop_empty],
      minima={'TA-API': 150, 'TA-STRIP': 4, 'SB-SLICERS': 6,
              'AX-JSONKEY': 9, 'AX-FWD': 2, 'OR-REFUSE': 3, 'TA-CODEC': 12,
              'AX-IDAPI': 5, 'SB-EMPTY': 2},
      rule_texts=rules_subset.RULE_TEXT,
      trusted=['the installed numpy/scipy/h5py/pandas/click namespaces '
               '(imported only to resolve attribute names)',
               'h5py returns bytes for variable-length string datasets; '
               "numpy's bytes->'U' conversion decodes ASCII"],
      assumptions=['the JSON text scanner direct_parse_key is not decided '
                   'beyond the normalisation of looked-up tokens'])

from . import rules_canon, rules_hdf5  # noqa: E402

_prop('C16',
      rules=[rules_canon.rule_invariant_g,
             rules_canon.rule_or_canon_consumers, rules_canon.rule_ta_repr,
             rules_canon.rule_sb_eq],
      minima={'OR-CANON': 15, 'TA-REPR': 5, 'SB-EQ': 24},
      rule_texts=rules_canon.RULE_TEXT,
      trusted=['scipy: format conversion / astype / copy / stacking / fancy '
               'indexing / transposition never create stored zeros; '
               'eliminate_zeros and sort_indices preserve values; astype '
               'copies by default; the result of a sparse comparison holds '
               'no stored False'],
      assumptions=[])

_prop('C04',
      rules=[rules_hdf5.rule_ag_spec, rules_hdf5.rule_h5_writer_axes,
             rules_hdf5.rule_h5_nnz],
      minima={'AG-SPEC': 48, 'AX-MATOP': 8, 'AX-IDAPI': 4, 'OR-CANON': 9,
              'AX-SHAPE': 1},
      rule_texts=rules_hdf5.RULE_TEXT,
      trusted=['scipy asformat contract', 'h5py create_dataset semantics'],
      assumptions=[])

_prop('C01',
      rules=[rules_hdf5.rule_ag_h5keys, rules_hdf5.rule_ag_reg,
             rules_subset.rule_ta_codec, rules_hdf5.rule_h5_reader_axes,
             rules_hdf5.rule_h5_fwd],
      minima={'AG-H5KEYS': 18, 'AG-REG': 10, 'AG-SENT': 7, 'TA-CODEC': 12,
              'AX-MATOP': 5, 'AX-FWD': 4},
      rule_texts=dict(rules_hdf5.RULE_TEXT,
                      **{'TA-CODEC': rules_subset.RULE_TEXT['TA-CODEC']}),
      trusted=['h5py: vlen-str datasets read as bytes, str attributes '
               'stored/read as UTF-8'],
      assumptions=[])
