"""Rules added after the fifth round of independent seeded changes."""
import ast

from .astutil import (body_walk, call_name, const_str, dotted, kwarg,
                      local_assignments, unparse)

TABLE = 'biom/table.py'
PARSE = 'biom/parse.py'

RULE_TEXT = {
    'AG-PARAMUSED': 'Every parameter of a public function / method / CLI '
                    'command is read somewhere in its body (an option that '
                    'is accepted and never looked at is silently ignored).',
    'EF-GLOBAL': 'No function changes, in place, a mutable object defined at '
                 'module level (a shared registry): the change would outlive '
                 'the call.',
    'TA-NUMREGEX': 'A regular expression that matches numbers accepts an '
                   'exponent part (shortest float repr uses one below 1e-4 '
                   'and from 1e16).',
    'SB-WORKVEC': 'A work vector that is filled position by position inside '
                  'a loop and used as a whole in the same iteration is '
                  'allocated (or reset) inside that iteration.',
    'SB-DELEGATE': 'Thin wrappers keep delegating: sort() returns '
                   'sort_order(sort_f(ids)); norm() runs a per-vector '
                   'division through transform(); the rank callback returns '
                   'scipy\'s rankdata; biom.concat forwards its keywords '
                   'untouched; partition\'s clean-up removes empty vectors '
                   'on both axes.',
    'SB-OPERANDS': 'concat places every operand it is given.',
    'TA-IDWIDTH': 'The width of a new id array is computed from the ids '
                  'themselves, not from the itemsize of an existing array '
                  '(object arrays have an itemsize of 8).',
    'AG-H5DTYPE': 'general_formatter declares either the variable-length '
                  'string type or lets h5py derive the type from all '
                  'values.',
    'SB-LOOPALL': 'remove_empty examines every requested axis.',
    'OR-VALIDATE-FIRST': 'Table.filter hands the kernel the ids, metadata '
                         'and index exactly as the accessors returned them.',
}


def _parents(fn):
    par = {}
    for p in ast.walk(fn):
        for c in ast.iter_child_nodes(p):
            par[id(c)] = p
    return par


# ---------------------------------------------------------------------------
PARAM_UNUSED_ALLOWED = {
    (TABLE, 'Table.to_anndata', 'transpose'):
        'documented as not implemented on the reviewed tree',
    ('biom/cli/table_validator.py', 'TableValidator._valid_nullable_id',
     'table_json'): 'uniform validator signature',
}


def rule_param_used(repo, col, rels=None, funcs=None):
    rule = 'AG-PARAMUSED'
    n = 0
    for rel, q, fn in repo.all_functions():
        if '/tests/' in rel or isinstance(fn, ast.Lambda):
            continue
        if rels is not None and rel not in rels:
            continue
        if funcs is not None and q not in funcs:
            continue
        short = q.split('.')[-1]
        depth = q.count('.')
        cls_method = depth == 1 and q.split('.')[0][:1].isupper()
        if depth > (1 if cls_method else 0):
            continue                      # nested helper / callback
        if short.startswith('_') and not short.startswith('__'):
            # private: only CLI workers (`_convert`, ...) are part of the
            # surface
            if not rel.startswith('biom/cli/'):
                continue
        if short.startswith('__') and short != '__init__':
            continue
        # abstract / documentation-only bodies
        body = [st for st in fn.body if not (isinstance(st, ast.Expr) and
                                             isinstance(st.value,
                                                        ast.Constant))]
        if not body or all(isinstance(st, (ast.Pass, ast.Raise))
                           for st in body):
            continue
        params = [a.arg for a in fn.args.args + fn.args.kwonlyargs
                  if a.arg not in ('self', 'cls')]
        used = {x.id for x in ast.walk(fn) if isinstance(x, ast.Name)}
        for p in params:
            if p.startswith('_'):
                continue
            n += 1
            if (rel, q, p) in PARAM_UNUSED_ALLOWED:
                continue
            col.check(p in used, rule, rel, q, 'param:%s' % p, fn,
                      'read in the body',
                      'parameter `%s` of %s is accepted but never read: '
                      'whatever the caller (or the command line) passes for '
                      'it is ignored' % (p, q))
    col.ok(rule, 'biom', '<package>', 'scan', None, '%d parameters' % n)


def rule_no_global_mutation(repo, col, rels=None):
    from .rules_generic import _ArgAlias
    rule = 'EF-GLOBAL'
    n = 0
    for rel, m in repo.modules.items():
        if '/tests/' in rel or rel.endswith('.pyx'):
            continue
        if rels is not None and rel not in rels:
            continue
        shared = set()
        for st in m.tree.body:
            if isinstance(st, ast.Assign) and len(st.targets) == 1 and \
                    isinstance(st.targets[0], ast.Name):
                v = st.value
                if isinstance(v, (ast.Dict, ast.List, ast.Set)) or (
                        isinstance(v, ast.Call) and (call_name(v) or '')
                        .split('.')[-1] in ('dict', 'list', 'set',
                                            'defaultdict', 'OrderedDict')):
                    shared.add(st.targets[0].id)
        if not shared:
            continue
        for q, fn in m.functions():
            if isinstance(fn, ast.Lambda):
                continue
            hits = []
            aa = _ArgAlias(fn, lambda node, p, how: hits.append(
                (node, p, how)))
            local_names = {x.id for x in ast.walk(fn)
                           if isinstance(x, ast.Name) and
                           isinstance(x.ctx, ast.Store)} | \
                {a.arg for a in fn.args.args + fn.args.kwonlyargs}
            aa.env0 = {g: {g} for g in shared if g not in local_names}
            if not aa.env0:
                continue
            n += 1
            aa.run()
            seen = set()
            for node, g, how in hits:
                if (g, how) in seen:
                    continue
                seen.add((g, how))
                col.bad(rule, rel, q, 'mutates:%s' % g, node,
                        '`%s` changes the module-level object `%s` in '
                        'place: what one call registers or removes is '
                        'still there for every later call in the process'
                        % (how, g))
    col.ok(rule, 'biom', '<package>', 'scan', None,
           '%d functions that can see a module-level container' % n)


def rule_number_regex(repo, col, rels=None):
    rule = 'TA-NUMREGEX'
    n = 0
    for rel, m in repo.modules.items():
        if '/tests/' in rel:
            continue
        if rels is not None and rel not in rels:
            continue
        for node in ast.walk(m.tree):
            if isinstance(node, ast.Call) and (call_name(node) or '').split(
                    '.')[0] == 're' and node.args:
                pat = const_str(node.args[0])
                if pat is None and isinstance(node.args[0], ast.JoinedStr):
                    continue
                if not pat:
                    continue
                if ('\\d' in pat or '[0-9]' in pat) and '\\.' in pat:
                    fn = m.enclosing_function(node)
                    q = m.qual.get(fn, '<module>') if fn is not None \
                        else '<module>'
                    if 'natsort' in q:
                        # splits id text into digit runs for natural
                        # sorting; it does not parse matrix values
                        continue
                    n += 1
                    col.check('e' in pat.lower().replace('\\d', ''), rule,
                              rel, q, 'number-pattern', node,
                              'the pattern allows an exponent',
                              'the pattern %r matches decimal numbers but '
                              'no exponent: values written as 5e-05 or '
                              '1e+20 are skipped' % pat[:60])
    col.ok(rule, 'biom', '<package>', 'scan', None,
           '%d numeric patterns' % n)


def rule_work_vector(repo, col):
    rule = 'SB-WORKVEC'
    cls = repo.cls(TABLE, 'Table')
    n = 0
    ALLOC = {'zeros', 'empty', 'ones', 'full', 'np.zeros', 'np.empty',
             'np.ones', 'np.full'}
    for fn in cls.body:
        if not isinstance(fn, ast.FunctionDef):
            continue
        q = 'Table.' + fn.name
        par = _parents(fn)
        for st in body_walk(fn):
            if not (isinstance(st, ast.Assign) and len(st.targets) == 1 and
                    isinstance(st.targets[0], ast.Name) and
                    isinstance(st.value, ast.Call) and
                    call_name(st.value) in ALLOC):
                continue
            name = st.targets[0].id
            # loops that follow the allocation at the same block level
            blk = None
            p = par.get(id(st))
            for fld in ('body', 'orelse', 'finalbody'):
                b = getattr(p, fld, None)
                if isinstance(b, list) and st in b:
                    blk = b
            if blk is None:
                continue
            for loop in [x for x in blk[blk.index(st) + 1:]
                         if isinstance(x, (ast.For, ast.While))]:
                stores = [x for x in ast.walk(loop) if isinstance(
                    x, (ast.Assign, ast.AugAssign)) and any(
                    isinstance(t, ast.Subscript) and dotted(t.value) == name
                    and not (isinstance(t.slice, ast.Slice) and
                             t.slice.lower is None and t.slice.upper is None)
                    for t in (x.targets if isinstance(x, ast.Assign)
                              else [x.target]))]
                whole = [x for x in ast.walk(loop) if isinstance(x, ast.Call)
                         and any(isinstance(a, ast.Name) and a.id == name
                                 for a in x.args)]
                resets = [x for x in ast.walk(loop) if (
                    isinstance(x, ast.Assign) and any(
                        isinstance(t, ast.Name) and t.id == name or
                        isinstance(t, ast.Subscript) and
                        dotted(t.value) == name and isinstance(
                            t.slice, ast.Slice) and t.slice.lower is None
                        and t.slice.upper is None for t in x.targets)) or (
                    isinstance(x, ast.Call) and isinstance(
                        x.func, ast.Attribute) and x.func.attr == 'fill' and
                    dotted(x.func.value) == name)]
                if not (stores and whole):
                    continue
                # one value per iteration of *this* loop (result[idx] = ...)
                # is an accumulator, not a work vector: the whole-use must
                # be inside the loop that stores
                n += 1
                col.check(bool(resets), rule, TABLE, q,
                          'work-vector:%s' % name, st,
                          'reset inside the iteration',
                          '`%s` is allocated once before the loop, filled '
                          'at some positions and used as a whole in each '
                          'iteration without being reset: positions not '
                          'written in an iteration keep the previous '
                          'iteration\'s values' % name)
    col.ok(rule, TABLE, '<Table>', 'scan', None, '%d work vectors' % n)


def rule_delegations(repo, col):
    rule = 'SB-DELEGATE'
    # sort
    fn = repo.func(TABLE, 'Table.sort')
    rets = [r for r in body_walk(fn) if isinstance(r, ast.Return)]
    bad = [r for r in rets if not (isinstance(r.value, ast.Call) and
                                   dotted(r.value.func) ==
                                   'self.sort_order')]
    col.check(bool(rets) and not bad, rule, TABLE, 'Table.sort',
              'via-sort_order', bad[0] if bad else fn,
              'every return is sort_order(sort_f(ids), axis)',
              'sort returns `%s` on some path instead of the table '
              're-ordered by sort_f' % (unparse(bad[0].value, 50)
                                        if bad else ''))
    # norm
    fn = repo.func(TABLE, 'Table.norm')
    deleg = any(isinstance(c, ast.Call) and dotted(c.func) ==
                'self.transform' for c in body_walk(fn))
    col.check(deleg, rule, TABLE, 'Table.norm', 'via-transform', fn,
              'norm divides vector by vector through transform()',
              'norm no longer goes through transform(): totals taken from '
              'a running sum over all stored values carry the rounding '
              'error of everything stored before the vector')
    # rank callback
    fn = repo.func(TABLE, 'Table.rankdata')
    inner = [x for x in ast.walk(fn) if isinstance(x, ast.FunctionDef) and
             x is not fn]
    for f in inner:
        rets = [r for r in ast.walk(f) if isinstance(r, ast.Return)]
        bad = [r for r in rets if not (isinstance(r.value, ast.Call) and
                                       (call_name(r.value) or '').endswith(
                                           'rankdata'))]
        col.check(bool(rets) and not bad, rule, TABLE, 'Table.rankdata',
                  'scipy-rankdata', bad[0] if bad else f,
                  'ranks come from scipy.stats.rankdata',
                  'the rank callback returns `%s` instead of scipy\'s '
                  'rankdata (ties / ordinal stability are its contract)'
                  % (unparse(bad[0].value, 50) if bad else ''))
    # biom.concat wrapper
    rel = 'biom/__init__.py'
    if repo.has_func(rel, 'concat'):
        fn = repo.func(rel, 'concat')
        pops = [c for c in body_walk(fn) if isinstance(c, ast.Call) and
                isinstance(c.func, ast.Attribute) and c.func.attr in (
                    'pop', 'popitem', 'clear') and
                dotted(c.func.value) == 'kwargs']
        dels = [d for d in body_walk(fn) if isinstance(d, ast.Delete) and
                'kwargs' in unparse(d)]
        col.check(not pops and not dels, rule, rel, 'concat',
                  'kwargs-intact', (pops + dels)[0] if pops or dels else fn,
                  'keywords reach Table.concat untouched',
                  'the wrapper removes a keyword (`%s`) before forwarding: '
                  'Table.concat then runs with its default'
                  % (unparse((pops + dels)[0], 50) if pops or dels else ''))
    # partition clean-up
    fn = repo.func(TABLE, 'Table.partition')
    for c in body_walk(fn):
        if isinstance(c, ast.Call) and isinstance(c.func, ast.Attribute) \
                and c.func.attr == 'remove_empty':
            ax = kwarg(c, 'axis') or (c.args[0] if c.args else None)
            col.check(ax is None or const_str(ax) == 'whole', rule, TABLE,
                      'Table.partition', 'remove-empty-whole', c,
                      'empty vectors are removed on both axes',
                      'the clean-up is restricted to `%s`: all-zero vectors '
                      'of the other axis stay in the part'
                      % unparse(ax, 40))


def rule_concat_operands(repo, col):
    rule = 'SB-OPERANDS'
    fn = repo.func(TABLE, 'Table.concat')
    bad = []
    for n in body_walk(fn):
        if isinstance(n, ast.Assign) and any(
                isinstance(t, ast.Name) and t.id in ('others', 'all_tables',
                                                     'tables')
                for t in n.targets):
            v = n.value
            if any(isinstance(c, (ast.ListComp, ast.GeneratorExp)) and any(
                    g.ifs for g in c.generators) for c in ast.walk(v)) or \
                    any(isinstance(c, ast.Call) and call_name(c) == 'filter'
                        for c in ast.walk(v)):
                bad.append(n)
    col.check(not bad, rule, TABLE, 'Table.concat', 'operands',
              bad[0] if bad else fn, 'the operand list is not filtered',
              'operands are dropped before concatenation (`%s`): ids of '
              'the other axis that only a dropped operand carries are '
              'missing from the result'
              % (unparse(bad[0], 70) if bad else ''))


def rule_id_width(repo, col):
    rule = 'TA-IDWIDTH'
    fn = repo.func(TABLE, 'Table.update_ids')
    bad = [n for n in body_walk(fn) if isinstance(n, ast.Attribute) and
           n.attr == 'itemsize']
    col.check(not bad, rule, TABLE, 'Table.update_ids', 'width-from-ids',
              bad[0] if bad else fn, 'the width is measured on the ids',
              'the width of the new id array is derived from `%s`: an '
              'object-dtype id array reports 8 bytes whatever its ids, so '
              'kept ids are truncated' % (unparse(bad[0], 50) if bad
                                          else ''))


def rule_formatter_dtype(repo, col):
    rule = 'AG-H5DTYPE'
    fn = repo.func(TABLE, 'general_formatter')
    ass = local_assignments(fn)

    def leaves(e, depth=0):
        if isinstance(e, ast.IfExp):
            return leaves(e.body, depth) + leaves(e.orelse, depth)
        if isinstance(e, ast.Name) and e.id in ass and depth < 3:
            out = []
            for v, _ in ass[e.id]:
                if v is not None:
                    out += leaves(v, depth + 1)
            return out or [e]
        return [e]
    k = 0
    for n in body_walk(fn):
        if isinstance(n, ast.Call) and isinstance(n.func, ast.Attribute) \
                and n.func.attr == 'create_dataset':
            d = kwarg(n, 'dtype')
            if d is None:
                continue
            k += 1
            bad = [x for x in leaves(d) if not (
                dotted(x) == 'H5PY_VLEN_STR' or isinstance(x, ast.Constant)
                and x.value is None)]
            col.check(not bad, rule, TABLE, 'general_formatter',
                      'dataset-dtype#%d' % k, n,
                      'vlen-str or derived by h5py from all values',
                      'the dataset type is taken from `%s`: values of a '
                      'wider type later in the category are cast to it '
                      '(6.5 -> 6, 3 -> True)'
                      % (unparse(bad[0], 50) if bad else ''))


def rule_remove_empty_all_axes(repo, col):
    rule = 'SB-LOOPALL'
    fn = repo.func(TABLE, 'Table.remove_empty')
    loops = [n for n in body_walk(fn) if isinstance(n, ast.For)]
    for lp in loops:
        early = [x for b in lp.body for x in ast.walk(b)
                 if isinstance(x, (ast.Break, ast.Continue, ast.Return))]
        col.check(not early, rule, TABLE, 'Table.remove_empty', 'axis-loop',
                  early[0] if early else lp, 'every requested axis is '
                  'examined', 'the loop over the axes is left early: empty '
                  'vectors of the remaining axis survive')


def rule_filter_inputs(repo, col):
    rule = 'OR-VALIDATE-FIRST'
    fn = repo.func(TABLE, 'Table.filter')
    calls = [n for n in body_walk(fn) if isinstance(n, ast.Call) and
             call_name(n) == '_filter']
    if not calls:
        return
    c = calls[0]
    ass = local_assignments(fn)
    for pname, pos in (('ids', 1), ('metadata', 2), ('index', 3)):
        a = c.args[pos] if len(c.args) > pos else kwarg(c, pname)
        if not isinstance(a, ast.Name):
            continue
        vals = ass.get(a.id, [])
        # assignments before the kernel call only
        pre = [(v, st) for v, st in vals if getattr(st, 'lineno', 0) <
               c.lineno]
        ok = len(pre) == 1 and isinstance(pre[0][0], ast.Call) and \
            isinstance(pre[0][0].func, ast.Attribute)
        col.check(ok, rule, TABLE, 'Table.filter', 'kernel-input:%s' % pname,
                  pre[1][1] if len(pre) > 1 else c,
                  'the kernel gets what the accessor returned',
                  '`%s` is re-bound before the kernel call: the predicate / '
                  'the kept table no longer sees the table\'s own %s'
                  % (a.id, pname))


# ---------------------------------------------------------------------------
BROAD_ALLOWED = {
    (TABLE, '_identify_bad_value'): 'probes a conversion per field',
    (TABLE, 'Table.to_json'): 'shape probe of an empty table',
    ('biom/util.py', 'flatten'): 'non-iterable items',
    ('biom/cli/table_validator.py', 'TableValidator._valid_date'):
        'any parsing failure is the verdict',
    ('biom/cli/table_validator.py', 'TableValidator._valid_sparse_data'):
        'any unpacking failure is the verdict',
}

RULE_TEXT['OR-BROADEXCEPT'] = (
    'No handler catches Exception / BaseException / everything and carries '
    'on, outside the enumerated probes: it would also swallow the table '
    'error the configured profile asks for.')


def rule_broad_except(repo, col, rels=None):
    rule = 'OR-BROADEXCEPT'
    n = 0
    for rel, q, fn in repo.all_functions():
        if '/tests/' in rel or isinstance(fn, ast.Lambda):
            continue
        if rels is not None and rel not in rels:
            continue
        for t in body_walk(fn):
            if not isinstance(t, ast.Try):
                continue
            for h in t.handlers:
                ty = unparse(h.type, 60) if h.type is not None else ''
                names = {x.id for x in ast.walk(h.type)
                         if isinstance(x, ast.Name)} if h.type is not None \
                    else set()
                broad = h.type is None or names & {'Exception',
                                                   'BaseException'}
                if not broad:
                    continue
                n += 1
                reraises = any(isinstance(x, ast.Raise) for b in h.body
                               for x in ast.walk(b))
                if reraises or (rel, q) in BROAD_ALLOWED:
                    col.ok(rule, rel, q, 'handler@%d' % n, h,
                           're-raises' if reraises else
                           'enumerated probe: ' + BROAD_ALLOWED[(rel, q)])
                else:
                    col.bad(rule, rel, q, 'handler', h,
                            '`except %s:` carries on: a TableException '
                            'raised underneath (duplicate ids under the '
                            "'raise' reaction, malformed metadata) is "
                            'swallowed and the caller gets whatever the '
                            'fall-back produces' % (ty or ''))
    col.ok(rule, 'biom', '<package>', 'scan', None, '%d broad handlers' % n)


def rule_small_round5(repo, col):
    """Construct-level necessary conditions: the int converter of
    add-metadata goes through int() only; Table.reduce folds without a
    seed; export-metadata writes every id; the constructor stores the
    caller's metadata entries as they are (the cast validates them); parse_uc
    skips records of kinds it does not know; a required JSON key is missing
    only if it is absent."""
    # _int
    rel = 'biom/cli/metadata_adder.py'
    if repo.has_func(rel, '_int'):
        fn = repo.func(rel, '_int')
        fl = [c for c in ast.walk(fn) if isinstance(c, ast.Call) and
              call_name(c) == 'float']
        col.check(not fl, 'TA-NUMLOSS', rel, '_int', 'int-only',
                  fl[0] if fl else fn, 'integers are parsed by int()',
                  'integer fields go through float(): whole numbers above '
                  '2**53 are rounded')
    # reduce
    fn = repo.func(TABLE, 'Table.reduce')
    rc = [c for c in ast.walk(fn) if isinstance(c, ast.Call) and
          (call_name(c) or '').split('.')[-1] == 'reduce' and
          isinstance(c.func, ast.Name)]
    for c in rc:
        col.check(len(c.args) == 2 and not c.keywords, 'SB-FOLD', TABLE,
                  'Table.reduce', 'unseeded', c,
                  'the fold starts from the first value',
                  'the fold is seeded (`%s`): for a function of which the '
                  'seed is not a left identity (product, difference, '
                  'minimum of positives) the result is wrong'
                  % unparse(c, 60))
    # export-metadata
    rel = 'biom/cli/metadata_exporter.py'
    for q_ in ('_export_metadata', 'export_metadata'):
        if not repo.has_func(rel, q_):
            continue
        fn = repo.func(rel, q_)
        drops = [c for c in ast.walk(fn) if isinstance(c, ast.Call) and
                 isinstance(c.func, ast.Attribute) and c.func.attr in (
                     'dropna', 'drop', 'query', 'drop_duplicates', 'head',
                     'tail', 'sample')]
        col.check(not drops, 'SB-ALLIDS', rel, q_,
                  'every-id', drops[0] if drops else fn,
                  'the frame is written as built',
                  'rows are removed from the metadata frame before it is '
                  'written (`%s`): ids without values disappear from the '
                  'export' % (unparse(drops[0], 50) if drops else ''))
    # constructor metadata stores
    fn = repo.func(TABLE, 'Table.__init__')
    for st in body_walk(fn):
        if isinstance(st, ast.Assign) and any(
                isinstance(t, ast.Attribute) and t.attr in (
                    '_sample_metadata', '_observation_metadata')
                for t in st.targets) and not (
                isinstance(st.value, ast.Constant)):
            rewrites = any(isinstance(x, (ast.BoolOp, ast.IfExp))
                           for x in ast.walk(st.value))
            col.check(not rewrites, 'OR-TYPECHECK', TABLE, 'Table.__init__',
                      'entries-as-given', st,
                      'entries reach _cast_metadata unchanged',
                      'metadata entries are rewritten while they are '
                      'stored (`%s`): falsy non-mappings ("" , 0, []) turn '
                      'into None before the cast can refuse them'
                      % unparse(st.value, 60))
    # parse_uc record kinds
    fn = repo.func(PARSE, 'parse_uc')
    tests = [n for n in ast.walk(fn) if isinstance(n, ast.Compare) and
             isinstance(n.ops[0], (ast.NotIn, ast.In)) and
             dotted(n.left) == 'line_type']
    col.check(bool(tests), 'AG-UCKINDS', PARSE, 'parse_uc', 'kind-filter',
              tests[0] if tests else fn,
              'records of other kinds are skipped',
              'no membership test on the record type is left: records of '
              'kinds that carry no cluster (N, C, D) register observations')
    # validator: missing key
    rel = 'biom/cli/table_validator.py'
    fn = repo.func(rel, 'TableValidator._validate_json')
    for n in ast.walk(fn):
        if isinstance(n, ast.If) and any(
                isinstance(x, ast.Compare) and isinstance(
                    x.ops[0], ast.NotIn) and 'table_json' in unparse(x)
                for x in ast.walk(n.test)) and any(
                'Missing' in unparse(b, 200) for b in n.body):
            only_membership = isinstance(n.test, ast.Compare)
            col.check(only_membership, 'AG-VALID', rel,
                      'TableValidator._validate_json', 'missing-means-absent',
                      n, 'a field is missing only when the key is absent',
                      'a present field with a falsy value (`%s`) is reported '
                      'missing: the "data": [] of an all-zero table makes a '
                      'library-written file invalid' % unparse(n.test, 70))


for _k in ('SB-FOLD', 'SB-ALLIDS', 'OR-TYPECHECK', 'AG-UCKINDS', 'AG-VALID',
           'TA-NUMLOSS'):
    RULE_TEXT.setdefault(_k, ' '.join(rule_small_round5.__doc__.split()))
