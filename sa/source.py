"""Source model: parses /repo's current working tree on every run.

Nothing from the repository is imported or executed.  Python modules are
parsed with ``ast``; the three Cython kernels are converted to parseable
Python by a purpose-built de-cythoniser that keeps line numbers; the BIOM 2.1
specification (reStructuredText) is parsed for its "Required ..." blocks.
"""
import ast
import hashlib
import os
import re


class AnalysisError(Exception):
    """The analysis itself cannot stand (lost anchor, unparsable source...).

    Reported as ``ANALYSIS-ERROR`` with exit status 2: neither a pass nor a
    violation.
    """


REPO = os.environ.get('VERIF_REPO', '/repo')

PY_EXCLUDE = ('tests', 'assets')


# --------------------------------------------------------------------------
# de-cythoniser
# --------------------------------------------------------------------------

def _split0(s):
    out, depth, cur = [], 0, ''
    for ch in s:
        if ch in '([{':
            depth += 1
        if ch in ')]}':
            depth -= 1
        if ch == ',' and depth == 0:
            out.append(cur)
            cur = ''
        else:
            cur += ch
    out.append(cur)
    return out


def _strip_type(decl):
    """``cnp.ndarray[T, ndim=1] name = rhs`` -> (name, rhs or None)."""
    decl = re.sub(r"ndarray\[[^\]]*\]", "ndarray", decl.strip())
    if '=' in decl:
        lhs, rhs = decl.split('=', 1)
    else:
        lhs, rhs = decl, None
    names = re.findall(r'[A-Za-z_]\w*', re.sub(r'\[.*?\]', '', lhs))
    if not names:
        raise AnalysisError("de-cythoniser: cannot find a name in %r" % decl)
    return names[-1], (rhs.strip() if rhs is not None else None)


def _logical_lines(src):
    """Yield (first_physical_index, n_physical, text) with backslash
    continuations joined."""
    lines = src.split('\n')
    i = 0
    while i < len(lines):
        start = i
        text = lines[i]
        while text.rstrip().endswith('\\') and i + 1 < len(lines):
            i += 1
            text = text.rstrip()[:-1] + ' ' + lines[i].strip()
        yield start, i - start + 1, text
        i += 1


def decythonise(src, fname='<pyx>'):
    """Return python source with the same number of lines as ``src``."""
    phys = src.split('\n')
    out = [''] * len(phys)
    logical = list(_logical_lines(src))
    k = 0
    while k < len(logical):
        start, n, ln = logical[k]
        st = ln.strip()
        ind = ln[:len(ln) - len(ln.lstrip())]
        if st.startswith('cimport ') or re.match(r'from\s+\S+\s+cimport\b', st):
            out[start] = ind + 'pass'
            k += 1
            continue
        st_nt = re.sub(r"ndarray\[[^\]]*\]", "ndarray", st)
        if re.match(r'cdef\s+.*\(', st_nt) and not st.startswith('cdef:') \
                and '=' not in st_nt.split('(')[0]:
            # cdef function header, possibly spanning several logical lines
            hdr = st
            kk = k
            while not hdr.rstrip().endswith(':'):
                kk += 1
                if kk >= len(logical):
                    raise AnalysisError("%s: unterminated cdef header at "
                                        "line %d" % (fname, start + 1))
                hdr += ' ' + logical[kk][2].strip()
            m = re.match(r'cdef\s+(.*?)(\w+)\s*\((.*)\)\s*:$', hdr)
            if not m:
                raise AnalysisError("%s: unrecognised cdef header at line %d"
                                    % (fname, start + 1))
            params = [_strip_type(p) for p in _split0(m.group(3))
                      if p.strip()]
            out[start] = ind + 'def %s(%s):' % (
                m.group(2),
                ', '.join(nm if d is None else nm + '=' + d
                          for nm, d in params))
            k = kk + 1
            continue
        if st == 'cdef:':
            out[start] = ind + 'pass'
            k += 1
            while k < len(logical):
                s2start, s2n, s2ln = logical[k]
                s2 = s2ln.strip()
                s2ind = len(s2ln) - len(s2ln.lstrip())
                if s2 and s2ind <= len(ind):
                    break
                if s2:
                    s2 = re.sub(r'^cdef\s+', '', s2)
                    stmts = []
                    for dcl in _split0(s2):
                        nm, rhs = _strip_type(dcl)
                        if rhs:
                            stmts.append('%s = %s' % (nm, rhs))
                    out[s2start] = ind + ('; '.join(stmts) if stmts
                                          else 'pass')
                k += 1
            continue
        m = re.match(r'cdef\s+(.+)$', st)
        if m:
            stmts = []
            for dcl in _split0(m.group(1)):
                nm, rhs = _strip_type(dcl)
                if rhs:
                    stmts.append('%s = %s' % (nm, rhs))
            out[start] = ind + ('; '.join(stmts) if stmts else 'pass')
            k += 1
            continue
        if re.search(r'\bcdef\b|\bcpdef\b|\bctypedef\b', st) and \
                not st.startswith('#') and '"""' not in st:
            raise AnalysisError("%s: residual Cython syntax at line %d: %s"
                                % (fname, start + 1, st))
        out[start] = ln
        k += 1
    return '\n'.join(out)


# --------------------------------------------------------------------------
# modules
# --------------------------------------------------------------------------

class Module:
    def __init__(self, rel, path, src, tree, is_pyx=False):
        self.rel = rel            # e.g. 'biom/table.py'
        self.path = path
        self.src = src
        self.tree = tree
        self.is_pyx = is_pyx
        self.digest = hashlib.sha256(src.encode('utf8')).hexdigest()[:16]
        self.parent = {}
        self.qual = {}            # FunctionDef/ClassDef node -> qualname
        self.defs = {}            # qualname -> node
        self._index()

    def _index(self):
        def walk(node, prefix):
            for child in ast.iter_child_nodes(node):
                self.parent[child] = node
                if isinstance(child, (ast.FunctionDef, ast.AsyncFunctionDef,
                                      ast.ClassDef)):
                    q = prefix + child.name
                    # property setter shares the name with the getter
                    if q in self.defs and isinstance(child, ast.FunctionDef):
                        decos = [ast.unparse(d) for d in child.decorator_list]
                        if any(d.endswith('.setter') for d in decos):
                            q = q + '.setter'
                    self.qual[child] = q
                    self.defs[q] = child
                    walk(child, q + '.')
                else:
                    walk(child, prefix)
        walk(self.tree, '')

    def enclosing_function(self, node):
        cur = self.parent.get(node)
        while cur is not None and not isinstance(
                cur, (ast.FunctionDef, ast.AsyncFunctionDef)):
            cur = self.parent.get(cur)
        return cur

    def functions(self):
        for q, n in self.defs.items():
            if isinstance(n, (ast.FunctionDef, ast.AsyncFunctionDef)):
                yield q, n


class Repo:
    """All analysable sources of the working tree."""

    def __init__(self, root=None):
        self.root = root or REPO
        self.modules = {}
        pkg = os.path.join(self.root, 'biom')
        if not os.path.isdir(pkg):
            raise AnalysisError("no biom/ package under %s" % self.root)
        try:
            from .normalize import load_table_signatures
            with open(os.path.join(pkg, 'table.py'), encoding='utf8') as fh:
                load_table_signatures(fh.read())
        except OSError:
            pass
        for dirpath, dirnames, filenames in os.walk(pkg):
            dirnames[:] = sorted(d for d in dirnames
                                 if d not in PY_EXCLUDE and
                                 not d.startswith(('.', '__pycache__')))
            for fn in sorted(filenames):
                full = os.path.join(dirpath, fn)
                rel = os.path.relpath(full, self.root)
                if fn.endswith('.py'):
                    self._load_py(rel, full)
                elif fn.endswith('.pyx'):
                    self._load_pyx(rel, full)
        self.spec_path = os.path.join(
            self.root, 'doc/documentation/format_versions/biom-2.1.rst')

    def _load_py(self, rel, full):
        with open(full, encoding='utf8') as f:
            src = f.read()
        try:
            tree = ast.parse(src, filename=full)
        except SyntaxError as e:
            raise AnalysisError("cannot parse %s: %s" % (rel, e))
        if '/tests/' not in rel:
            from .normalize import canonical_imports, canonical_locals
            canonical_imports(tree)
            canonical_locals(tree, rel)
            from .normalize import canonical_forms
            tree = canonical_forms(tree)
        inlined = []
        if '/tests/' not in rel:
            from .normalize import inline_new_helpers
            try:
                inlined = inline_new_helpers(tree, rel)
            except RecursionError:
                inlined = []
            from .normalize import inline_new_nested_helpers
            try:
                inline_new_nested_helpers(tree, rel)
            except RecursionError:
                pass
        # (after the inlining, so that inlined bodies are folded / unrolled
        # together with their new surroundings)
        self._normalise(rel, tree)
        self.modules[rel] = Module(rel, full, src, tree)
        self.modules[rel].inlined_helpers = set(inlined)

    # functions whose rules read the *shape* of the code (writer / reader
    # models): equivalent spellings are brought to one form first
    NORMALISE = {
        'biom/table.py': {'Table.to_hdf5', 'Table.from_hdf5', 'Table.__init__',
                          'Table._index_ids',
                          'general_parser', 'vlen_list_of_str_parser',
                          'general_formatter', 'vlen_list_of_str_formatter'},
        'biom/cli/table_validator.py': {'TableValidator._validate_hdf5',
                                        'TableValidator._validate_json',
                                        'TableValidator._valid_data'},
    }
    # functions in which the loops over the two axes are unrolled as well
    UNROLL_AXIS_LOOPS = {'TableValidator._validate_hdf5',
                         'TableValidator._validate_json',
                         'TableValidator._valid_data'}

    def _normalise(self, rel, tree):
        want = self.NORMALISE.get(rel)
        if not want:
            return
        from .normalize import normalize
        AX = ('observation', 'sample')

        def keep(node, rows):
            # loops over the two axes are what the models specialise on
            return any(isinstance(x, ast.Constant) and x.value in AX
                       for r in rows for x in r)

        def walk(body, prefix):
            for i, n in enumerate(body):
                if isinstance(n, ast.ClassDef):
                    walk(n.body, prefix + n.name + '.')
                elif isinstance(n, ast.FunctionDef) and \
                        prefix + n.name in want:
                    body[i] = normalize(
                        n, tree, keep=None if prefix + n.name in
                        self.UNROLL_AXIS_LOOPS else keep)
        walk(tree.body, '')

    def _load_pyx(self, rel, full):
        with open(full, encoding='utf8') as f:
            src = f.read()
        py = decythonise(src, rel)
        try:
            tree = ast.parse(py, filename=full)
        except SyntaxError as e:
            raise AnalysisError("cannot parse de-cythonised %s: %s"
                                % (rel, e))
        m = Module(rel, full, src, tree, is_pyx=True)
        m.py_src = py
        self.modules[rel] = m

    # ---- lookup -----------------------------------------------------------
    def mod(self, rel):
        if rel not in self.modules:
            raise AnalysisError("anchor module %s not found" % rel)
        return self.modules[rel]

    def func(self, rel, qual):
        m = self.mod(rel)
        n = m.defs.get(qual)
        if n is None or not isinstance(n, (ast.FunctionDef,
                                           ast.AsyncFunctionDef)):
            raise AnalysisError("anchor function %s:%s not found"
                                % (rel, qual))
        return n

    def has_func(self, rel, qual):
        m = self.modules.get(rel)
        return bool(m and isinstance(m.defs.get(qual), ast.FunctionDef))

    def cls(self, rel, qual):
        m = self.mod(rel)
        n = m.defs.get(qual)
        if n is None or not isinstance(n, ast.ClassDef):
            raise AnalysisError("anchor class %s:%s not found" % (rel, qual))
        return n

    def all_functions(self):
        for rel, m in self.modules.items():
            for q, n in m.functions():
                yield rel, q, n

    def digest(self):
        h = hashlib.sha256()
        for rel in sorted(self.modules):
            h.update(rel.encode())
            h.update(self.modules[rel].digest.encode())
        return h.hexdigest()[:16]

    # ---- specification ----------------------------------------------------
    def spec(self):
        """Parse the three 'Required ...' literal blocks of biom-2.1.rst.

        Returns dict(attrs={name: typetext}, groups=[...],
        datasets={name: typetext}, types=[vocabulary]).
        """
        if not os.path.exists(self.spec_path):
            raise AnalysisError("specification %s not found" % self.spec_path)
        with open(self.spec_path, encoding='utf8') as f:
            lines = f.read().split('\n')
        res = {'attrs': {}, 'groups': [], 'datasets': {}, 'types': []}
        section = None
        for ln in lines:
            if ln.startswith('Required top-level attributes::'):
                section = 'attrs'
                continue
            if ln.startswith('Required groups::'):
                section = 'groups'
                continue
            if ln.startswith('Required datasets::'):
                section = 'datasets'
                continue
            if section and ln.strip() and not ln.startswith(' '):
                section = None
                continue
            if not section or not ln.strip():
                continue
            m = re.match(r'^\s{4}(\S+)\s*:\s*(.*)$', ln)
            if m and not ln.startswith('     '):
                name, rest = m.group(1), m.group(2)
                if section == 'attrs':
                    res['attrs'][name] = rest
                elif section == 'groups':
                    res['groups'].append(name.rstrip('/'))
                else:
                    res['datasets'][name] = rest
            elif section == 'attrs':
                m2 = re.match(r'^\s+"([^"]+)"\s*$', ln)
                if m2:
                    res['types'].append(m2.group(1))
        if len(res['attrs']) < 1 or len(res['groups']) < 1 or \
                len(res['datasets']) < 1:
            raise AnalysisError("specification blocks not recognised in %s"
                                % self.spec_path)
        return res
