"""Rules for subsetting while reading (C14) and codec agreement (C01)."""
import ast
import importlib
import re

from .astutil import (body_walk, call_name, const_str, dotted, kwarg,
                      local_assignments, param_names, target_names, unparse)
from .consteval import ConstEval, UNKNOWN
from .flow import taint, expr_tainted, nested_functions
from .source import AnalysisError

TABLE = 'biom/table.py'
PARSE = 'biom/parse.py'
SUBSET = 'biom/cli/table_subsetter.py'

THIRD_PARTY = ('numpy', 'scipy', 'h5py', 'pandas', 'click')


# --------------------------------------------------------------------------
# TA-API
# --------------------------------------------------------------------------

def _resolve_chain(root, chain):
    obj = importlib.import_module(root)
    for a in chain:
        try:
            obj = getattr(obj, a)
        except AttributeError:
            try:
                obj = importlib.import_module(obj.__name__ + '.' + a)
            except Exception:
                raise AttributeError(a)
    return obj


def api_chains(tree):
    """(lineno, root module, attribute chain, node) for every attribute
    chain rooted at an imported third-party module, plus from-imports."""
    alias = {}
    fromimp = []
    for node in ast.walk(tree):
        if isinstance(node, ast.Import):
            for a in node.names:
                alias[a.asname or a.name.split('.')[0]] = \
                    a.name if a.asname else a.name.split('.')[0]
        elif isinstance(node, ast.ImportFrom) and node.module and \
                node.level == 0:
            if node.module.split('.')[0] in THIRD_PARTY:
                for a in node.names:
                    fromimp.append((node, node.module, a.name))
    out = []
    seen = set()
    for node in ast.walk(tree):
        if isinstance(node, ast.Attribute):
            chain = []
            cur = node
            while isinstance(cur, ast.Attribute):
                chain.append(cur.attr)
                cur = cur.value
            if isinstance(cur, ast.Name) and cur.id in alias and \
                    alias[cur.id].split('.')[0] in THIRD_PARTY:
                chain = list(reversed(chain))
                key = (id(cur), )
                out.append((node.lineno, alias[cur.id], chain, node))
    # keep only maximal chains (an Attribute that is the .value of another
    # Attribute is a prefix)
    inner = set()
    for node in ast.walk(tree):
        if isinstance(node, ast.Attribute) and isinstance(node.value,
                                                          ast.Attribute):
            inner.add(id(node.value))
    out = [o for o in out if id(o[3]) not in inner]
    return out, fromimp


_POSITIVE_CONTROL = "import numpy as np\nx = np.this_name_does_not_exist_42"


def rule_ta_api(repo, col):
    """Every attribute chain rooted at an imported third-party module
    (numpy, scipy, h5py, pandas, click) resolves in the installed version:
    a call through a removed API fails for every input."""
    rule = 'TA-API'
    # positive control: the resolver must flag a non-existent attribute
    chains, _ = api_chains(ast.parse(_POSITIVE_CONTROL))
    flagged = 0
    for ln, root, chain, node in chains:
        try:
            _resolve_chain(root, chain)
        except AttributeError:
            flagged += 1
        except ImportError:
            raise AnalysisError('TA-API: %s is not importable in the '
                                'analysis interpreter' % root)
    if flagged != 1:
        raise AnalysisError('TA-API positive control did not fire')
    for rel, m in sorted(repo.modules.items()):
        if m.is_pyx:
            continue
        chains, fromimp = api_chains(m.tree)
        for ln, root, chain, node in chains:
            fn = m.enclosing_function(node)
            q = m.qual.get(fn, '<module>') if fn is not None else '<module>'
            # resolve through as many attributes as are modules/objects;
            # stop at the first callable result's attributes (instance
            # attributes cannot be resolved statically)
            try:
                obj = importlib.import_module(root)
            except ImportError:
                col.unknown(rule, rel, q, '.'.join([root] + chain), node,
                            'module not importable here')
                continue
            ok = True
            name = root
            for a in chain:
                try:
                    obj = getattr(obj, a)
                except AttributeError:
                    try:
                        obj = importlib.import_module(
                            getattr(obj, '__name__', name) + '.' + a)
                    except Exception:
                        ok = False
                        name += '.' + a
                        break
                name += '.' + a
                if not (isinstance(obj, type(importlib)) or
                        isinstance(obj, type)):
                    # a function/instance: further attributes are dynamic
                    break
            role = '.'.join([root] + chain)
            if ok:
                col.ok(rule, rel, q, role, node, 'resolves')
            else:
                col.bad(rule, rel, q, role, node,
                        '%s does not exist in the installed %s: every call '
                        'through it raises AttributeError' % (name, root))
        for node, module, name in fromimp:
            try:
                getattr(importlib.import_module(module), name)
                col.ok(rule, rel, '<module>', 'from %s import %s'
                       % (module, name), node, 'resolves')
            except Exception:
                col.bad(rule, rel, '<module>', 'from %s import %s'
                        % (module, name), node, 'import fails')


# --------------------------------------------------------------------------
# TA-STRIP / SB-SLICERS
# --------------------------------------------------------------------------

NORMALISERS = ('strip_f', 'int', 'str.strip')


def _is_normaliser(f):
    if dotted(f) in NORMALISERS:
        return True
    if isinstance(f, ast.Lambda):
        return any(isinstance(n, ast.Call) and isinstance(n.func,
                                                          ast.Attribute)
                   and n.func.attr == 'strip' for n in ast.walk(f.body))
    return False


def _tokens_normalised(e):
    """Is every element of the token list produced by ``e`` individually
    whitespace-normalised?  True/False/None(unknown)."""
    if isinstance(e, ast.Call) and call_name(e) in ('list', 'tuple') and \
            len(e.args) == 1:
        return _tokens_normalised(e.args[0])
    if isinstance(e, ast.Call) and call_name(e) == 'map' and \
            len(e.args) == 2:
        if _is_normaliser(e.args[0]):
            return True
        return None
    if isinstance(e, (ast.ListComp, ast.GeneratorExp)):
        elt = e.elt
        if isinstance(elt, ast.Call) and (
                _is_normaliser(elt.func) or (
                    isinstance(elt.func, ast.Attribute) and
                    elt.func.attr == 'strip')):
            return True
        return None
    if isinstance(e, ast.Call) and isinstance(e.func, ast.Attribute) and \
            e.func.attr in ('split', 'rsplit'):
        return False        # raw tokens (whatever was done to the whole)
    return None


def rule_ta_strip(repo, col):
    """A token split off raw JSON text is whitespace-normalised before it is
    used as a key of the canonical remap table; both slicers and both
    remappers look up their own coordinate."""
    rule = 'TA-STRIP'
    want_pos = {'_direct_slice_data_sparse_obs': 0,
                '_direct_slice_data_sparse_samp': 1,
                '_remap_axis_sparse_obs': 0,
                '_remap_axis_sparse_samp': 1}
    for q, pos in sorted(want_pos.items()):
        f = repo.func(PARSE, q)
        assigns = local_assignments(f)
        # the lookup container: a local dict built over sorted(to_keep) or
        # a parameter named lookup
        containers = set()
        for name, vals in assigns.items():
            for v, st in vals:
                if isinstance(v, ast.DictComp):
                    containers.add(name)
        for p in param_names(f):
            if 'lookup' in p:
                containers.add(p)
        keys = []
        for n in body_walk(f):
            if isinstance(n, ast.Compare) and isinstance(
                    n.ops[0], (ast.In, ast.NotIn)) and \
                    dotted(n.comparators[0]) in containers:
                keys.append((n.left, n))
            if isinstance(n, ast.Subscript) and \
                    dotted(n.value) in containers:
                keys.append((n.slice, n))
            # inside f-strings
        for n in ast.walk(f):
            if isinstance(n, ast.JoinedStr):
                for x in ast.walk(n):
                    if isinstance(x, ast.Subscript) and \
                            dotted(x.value) in containers and \
                            not any(x is k[1] for k in keys):
                        keys.append((x.slice, x))
        if not keys:
            col.unknown(rule, PARSE, q, 'lookup', f, 'no lookup found')
            continue
        for key, node in keys:
            if not isinstance(key, ast.Name):
                col.unknown(rule, PARSE, q, 'lookup-key', node,
                            'key is not a simple name')
                continue
            # the tuple assignment that binds the key
            bound = None
            for n in body_walk(f):
                if isinstance(n, ast.Assign) and isinstance(
                        n.targets[0], (ast.Tuple, ast.List)):
                    names = target_names(n.targets[0])
                    if key.id in names:
                        bound = (names.index(key.id), n.value, n)
            if bound is None:
                col.unknown(rule, PARSE, q, 'lookup-key', node,
                            'binding of the key not found')
                continue
            idx, val, st = bound
            norm = _tokens_normalised(val)
            if norm is None:
                col.unknown(rule, PARSE, q, 'lookup-key', st,
                            'token list shape not recognised')
            else:
                col.check(norm, rule, PARSE, q, 'lookup-key', st,
                          'every token is stripped before the lookup',
                          "the token looked up in the remap table is a raw "
                          "piece of the JSON text: with ', ' separators or "
                          "indentation it carries whitespace, never matches "
                          'and the entry is silently dropped')
            col.check(idx == pos, 'SB-SLICERS', PARSE, q, 'coordinate', node,
                      'looks up coordinate %d (its own axis)' % pos,
                      'looks up coordinate %d of (row, col, value); the %s '
                      'function must use coordinate %d'
                      % (idx, 'observation' if pos == 0 else 'sample', pos))
    # the remappers rewrite only their own coordinate
    for q, pos in (('_remap_axis_sparse_obs', 0),
                   ('_remap_axis_sparse_samp', 1)):
        f = repo.func(PARSE, q)
        rets = [n for n in body_walk(f) if isinstance(n, ast.Return)]
        ok = None
        if len(rets) == 1 and isinstance(rets[0].value, ast.JoinedStr):
            fields = [v.value for v in rets[0].value.values
                      if isinstance(v, ast.FormattedValue)]
            if len(fields) == 3:
                mapped = [isinstance(x, ast.Subscript) for x in fields]
                ok = mapped == [i == pos for i in range(3)]
        if ok is None:
            col.unknown('SB-SLICERS', PARSE, q, 'remap', f,
                        'return shape not recognised')
        else:
            col.check(ok, 'SB-SLICERS', PARSE, q, 'remap', rets[0],
                      'only coordinate %d is remapped' % pos,
                      'the remapped coordinate is not coordinate %d' % pos)


def rule_ax_jsonkey(repo, col):
    """Wherever BIOM-1.0 members are named: observation <-> rows <->
    shape[0], sample <-> columns <-> shape[1]; the other axis' member is
    passed through unchanged."""
    rule = 'AX-JSONKEY'
    # get_axis_indices
    f = repo.func(PARSE, 'get_axis_indices')
    pairs = {}
    for n in body_walk(f):
        if isinstance(n, ast.If):
            cur = n
            while isinstance(cur, ast.If):
                t = cur.test
                if isinstance(t, ast.Compare) and isinstance(
                        t.ops[0], ast.Eq) and dotted(t.left) == 'axis' and \
                        const_str(t.comparators[0]):
                    for b in cur.body:
                        if isinstance(b, ast.Assign) and \
                                dotted(b.targets[0]) == 'axis_key':
                            pairs[const_str(t.comparators[0])] = (
                                const_str(b.value), b)
                cur = cur.orelse[0] if len(cur.orelse) == 1 else None
    for axis, key in (('observation', 'rows'), ('sample', 'columns')):
        if axis not in pairs:
            col.unknown(rule, PARSE, 'get_axis_indices', axis, f,
                        'axis branch not recognised')
        else:
            col.check(pairs[axis][0] == key, rule, PARSE, 'get_axis_indices',
                      axis, pairs[axis][1], "%s ids live under '%s'"
                      % (axis, key), "%s ids are read from '%s', expected "
                      "'%s'" % (axis, pairs[axis][0], key))
    # direct_slice_data
    f = repo.func(PARSE, 'direct_slice_data')
    dims = {}
    for n in body_walk(f):
        if isinstance(n, ast.Assign) and isinstance(n.targets[0], ast.Tuple):
            names = target_names(n.targets[0])
            if names == ['n_rows', 'n_cols'] or (
                    len(names) == 2 and 'shape' in unparse(n.value)):
                dims = {names[0]: 0, names[1]: 1}

    def branches(func):
        for n in body_walk(func):
            if isinstance(n, ast.If):
                cur = n
                while isinstance(cur, ast.If):
                    t = cur.test
                    if isinstance(t, ast.Compare) and isinstance(
                            t.ops[0], ast.Eq) and \
                            dotted(t.left) == 'axis' and \
                            const_str(t.comparators[0]):
                        yield const_str(t.comparators[0]), cur
                    cur = cur.orelse[0] if len(cur.orelse) == 1 and \
                        isinstance(cur.orelse[0], ast.If) else None
    n_checked = 0
    for axis, br in branches(f):
        d = 0 if axis == 'observation' else 1
        for x in br.body:
            for c in ast.walk(x):
                # bound test: max(to_keep) >= n_rows / n_cols
                if isinstance(c, ast.Compare) and dotted(
                        c.comparators[0]) in dims and 'to_keep' in unparse(
                        c.left):
                    n_checked += 1
                    col.check(dims[dotted(c.comparators[0])] == d, rule,
                              PARSE, 'direct_slice_data', 'bound:%s' % axis,
                              c, 'indices bounded by shape[%d]' % d,
                              '%s indices are bounded by shape[%d]'
                              % (axis, dims[dotted(c.comparators[0])]))
                # new shape tuple
                if isinstance(c, ast.BinOp) and isinstance(c.op, ast.Mod) \
                        and isinstance(c.right, ast.Tuple) and \
                        len(c.right.elts) == 2:
                    n_checked += 1
                    keep_pos = [i for i, e in enumerate(c.right.elts)
                                if 'to_keep' in unparse(e)]
                    other = [dims.get(dotted(e)) for e in c.right.elts
                             if dotted(e) in dims]
                    ok = keep_pos == [d] and other == [1 - d]
                    col.check(ok, rule, PARSE, 'direct_slice_data',
                              'shape:%s' % axis, c,
                              'new shape replaces dimension %d' % d,
                              'new shape for %s does not replace dimension '
                              '%d only' % (axis, d))
                if isinstance(c, ast.Call) and (call_name(c) or ''
                                                ).startswith(
                        '_direct_slice_data_sparse_'):
                    n_checked += 1
                    want = '_direct_slice_data_sparse_%s' % (
                        'obs' if axis == 'observation' else 'samp')
                    col.check(call_name(c) == want, rule, PARSE,
                              'direct_slice_data', 'slicer:%s' % axis, c,
                              'dispatches to %s' % want,
                              '%s axis dispatches to %s'
                              % (axis, call_name(c)))
    if n_checked < 6:
        col.unknown(rule, PARSE, 'direct_slice_data', 'branches', f,
                    'only %d axis-dependent constructs recognised'
                    % n_checked)
    # _subset_table: pass-through of the other axis
    f = repo.func(SUBSET, '_subset_table')
    g = nested_functions(f).get('subset_generator')
    found = False
    if g is not None:
        # semantic form: the member handed to direct_parse_key, evaluated
        # for both values of `axis`
        from .flow import value_at
        pk = [c for c in ast.walk(g) if isinstance(c, ast.Call) and
              call_name(c) == 'direct_parse_key' and len(c.args) == 2]
        got = {}
        for v in ('observation', 'sample'):
            got[v] = {value_at(g, c.args[1], {'axis': v}) for c in pk} - \
                {None}
        if pk and all(len(got[v]) == 1 for v in got):
            found = True
            a_, b_ = got['observation'].pop(), got['sample'].pop()
            col.check((a_, b_) == ('columns', 'rows'), rule, SUBSET,
                      '_subset_table', 'pass-through', pk[0],
                      "the other axis' member is copied unchanged",
                      "when slicing observations the member '%s' is passed "
                      "through and when slicing samples '%s' (expected "
                      "'columns' / 'rows')" % (a_, b_))
    if g is not None and not found:
        for n in ast.walk(g):
            if isinstance(n, ast.If) and isinstance(n.test, ast.Compare) and \
                    dotted(n.test.left) == 'axis' and \
                    const_str(n.test.comparators[0]) in ('observation',
                                                         'sample'):
                axis = const_str(n.test.comparators[0])

                def key_of(stmts):
                    for s in stmts:
                        for c in ast.walk(s):
                            if isinstance(c, ast.Call) and \
                                    call_name(c) == 'direct_parse_key' and \
                                    len(c.args) == 2:
                                return const_str(c.args[1])
                a, b = key_of(n.body), key_of(n.orelse)
                if isinstance(n.test.ops[0], ast.NotEq):
                    a, b = b, a
                want_a = 'columns' if axis == 'observation' else 'rows'
                want_b = 'rows' if axis == 'observation' else 'columns'
                found = True
                col.check(a == want_a and b == want_b, rule, SUBSET,
                          '_subset_table', 'pass-through', n,
                          "the other axis' member is copied unchanged",
                          "when slicing %s the member '%s' is passed "
                          "through (expected '%s')" % (axis, a, want_a))
    if not found:
        col.unknown(rule, SUBSET, '_subset_table', 'pass-through', f,
                    'pass-through branch not recognised')
    # the sliced pieces come from the same axis / ids
    calls = {call_name(c): c for c in body_walk(f)
             if isinstance(c, ast.Call)}
    c1 = calls.get('get_axis_indices')
    c2 = calls.get('direct_slice_data')
    if c1 is None or c2 is None:
        col.unknown('AX-FWD', SUBSET, '_subset_table', 'forward', f,
                    'slicer calls not found')
    else:
        ok = len(c1.args) == 3 and dotted(c1.args[1]) == 'ids' and \
            dotted(c1.args[2]) == 'axis' and len(c2.args) == 3 and \
            dotted(c2.args[2]) == 'axis'
        idxs = None
        for n in body_walk(f):
            if isinstance(n, ast.Assign) and n.value is c1:
                idxs = target_names(n.targets[0])
        ok = ok and idxs and dotted(c2.args[1]) == idxs[0]
        col.check(bool(ok), 'AX-FWD', SUBSET, '_subset_table',
                  'forward-json', c2, 'ids/axis forwarded; the indices found '
                  'for the ids drive the data slicer',
                  'ids/axis/indices are not forwarded consistently')
    c3 = [c for c in body_walk(f) if isinstance(c, ast.Call) and
          (call_name(c) or '').endswith('from_hdf5')]
    if c3:
        c = c3[0]
        ok = dotted(kwarg(c, 'ids') or ast.Constant(None)) == 'ids' and \
            dotted(kwarg(c, 'axis') or ast.Constant(None)) == 'axis'
        col.check(ok, 'AX-FWD', SUBSET, '_subset_table', 'forward-hdf5', c,
                  'ids and axis forwarded to from_hdf5',
                  'ids/axis are not forwarded to from_hdf5')
    else:
        col.unknown('AX-FWD', SUBSET, '_subset_table', 'forward-hdf5', f,
                    'from_hdf5 call not found')


# --------------------------------------------------------------------------
# OR-REFUSE
# --------------------------------------------------------------------------

def _file_ids_seed(ce, rel, env_axes=('observation', 'sample')):
    """seed(node): a read of an ids dataset from an HDF5 group."""
    def seed(n):
        if isinstance(n, ast.Subscript):
            key = n.slice
            k = const_str(key)
            if k is not None and (k == 'ids' or k.endswith('/ids')):
                return True
            if isinstance(key, ast.BinOp) and isinstance(key.op, ast.Mod) \
                    and const_str(key.left) and \
                    const_str(key.left).endswith('/ids'):
                return True
        if isinstance(n, ast.Call) and call_name(n) == 'axis_load':
            return True
        return False
    return seed


def rule_or_refuse(repo, col):
    """Every subset path (``ids is not None``) of from_hdf5 and
    get_axis_indices contains a ``raise`` whose condition depends both on
    the requested ids and on the ids found in the file."""
    rule = 'OR-REFUSE'
    ce = ConstEval(repo)
    f = repo.func(TABLE, 'Table.from_hdf5')
    m = repo.mod(TABLE)
    req = taint(f, lambda n: isinstance(n, ast.Name) and n.id == 'ids',
                initial={'ids'})
    # 'ids' is reused as a local name inside nested helpers (axis_load,
    # _get_ids): taint by name is then too generous, so nested functions
    # that assign their own 'ids' are analysed through their parameters only
    found_ids = taint(f, _file_ids_seed(ce, TABLE))
    nested = nested_functions(f)

    def refusing_ifs(scope):
        out = []
        for n in ast.walk(scope):
            if isinstance(n, ast.If) and any(isinstance(b, ast.Raise)
                                             for b in n.body):
                names = {x.id for x in ast.walk(n.test)
                         if isinstance(x, ast.Name)}
                out.append((n, names))
        return out

    # regions: If statements at function level whose test mentions `ids`
    # being not None
    regions = []
    for n in f.body:
        if isinstance(n, ast.If):
            t = unparse(n.test)
            if 'ids is not None' in t:
                regions.append(n)
    if not regions:
        col.unknown(rule, TABLE, 'Table.from_hdf5', 'subset-regions', f,
                    'no `ids is not None` region found')
    seen_roles = set()
    for reg in regions:
        meta_free = 'subset_with_metadata' in unparse(reg.test)
        role = 'metadata-free-path' if meta_free else 'default-path'
        if role in seen_roles:
            continue
        # does the region only post-process (filter) ? skip those without
        # any read of file ids / matrix
        src = unparse(reg, 10 ** 6)
        if not meta_free and '_get_ids' not in src and 'h5_' not in src \
                and 'raise' not in src:
            continue
        seen_roles.add(role)
        scopes = [reg]
        for c in ast.walk(reg):
            if isinstance(c, ast.Call) and call_name(c) in nested:
                scopes.append(nested[call_name(c)])
        ok = None
        for sc in scopes:
            if sc is reg:
                req_names, found_names = req, found_ids
            else:
                # map arguments to parameters for this nested function
                params = param_names(sc)
                req_names, found_names = set(), set()
                for c in ast.walk(reg):
                    if isinstance(c, ast.Call) and \
                            call_name(c) == sc.name:
                        for p, a in zip(params, c.args):
                            if expr_tainted(a, req, lambda n: False):
                                req_names.add(p)
                            if expr_tainted(a, found_ids,
                                            _file_ids_seed(ce, TABLE)):
                                found_names.add(p)
                req_names = taint(sc, lambda n: False, initial=req_names)
                found_names = taint(sc, lambda n: False,
                                    initial=found_names)
            for n, names in refusing_ifs(sc):
                if names & req_names and names & found_names:
                    ok = n
        col.check(ok is not None, rule, TABLE, 'Table.from_hdf5', role,
                  ok.test if ok is not None else reg.test,
                  'a raise depends on a comparison of requested and stored '
                  'ids', 'no raise in this subset path depends on both the '
                  'requested ids and the ids stored in the file: a request '
                  'naming an unknown id is not refused')
    # get_axis_indices
    g = repo.func(PARSE, 'get_axis_indices')
    req = taint(g, lambda n: False, initial={'to_keep'})
    found = taint(g, lambda n: isinstance(n, ast.Call) and
                  call_name(n) in ('json.loads', 'direct_parse_key'))
    ok = None
    for n, names in refusing_ifs(g):
        if names & req and names & found:
            ok = n
    col.check(ok is not None, rule, PARSE, 'get_axis_indices', 'json-path',
              ok.test if ok is not None else g,
              'a raise depends on requested and found ids',
              'unknown ids are not refused by the JSON slicer')


# --------------------------------------------------------------------------
# TA-CODEC
# --------------------------------------------------------------------------

def _norm_codec(c):
    return (c or '').lower().replace('-', '').replace('_', '')


def _decodes(e, names=None):
    """Does the expression apply .decode(<codec>) -> list of codecs."""
    out = []
    for n in ast.walk(e):
        if isinstance(n, ast.Call) and isinstance(n.func, ast.Attribute) and \
                n.func.attr == 'decode':
            c = const_str(n.args[0]) if n.args else 'utf8'
            out.append(_norm_codec(c))
    return out


def _mentions_tainted(e, tainted, ft):
    """Like is_t but also true for booleans/comparisons built from tainted
    names (used for the operands of a comparison)."""
    return ft.is_t(e, tainted) or any(
        isinstance(x, ast.Name) and x.id in tainted for x in ast.walk(e))


def rule_ta_codec(repo, col):
    """Text written as utf8 bytes (ids, string / list metadata, group
    metadata) is read back through an explicit utf8 decode before it is
    compared, converted to a unicode array or handed to the constructor;
    numpy's implicit bytes->'U' conversion is an ASCII decode."""
    rule = 'TA-CODEC'
    ce = ConstEval(repo)
    # ---- writer side: encode sites ---------------------------------
    enc = []
    for q in ('Table.to_hdf5', 'general_formatter',
              'vlen_list_of_str_formatter'):
        f = repo.func(TABLE, q)
        for n in ast.walk(f):
            if isinstance(n, ast.Call) and isinstance(n.func, ast.Attribute) \
                    and n.func.attr == 'encode':
                c = const_str(n.args[0]) if n.args else 'utf8'
                enc.append((q, n, _norm_codec(c)))
    for q, n, c in enc:
        col.check(c == 'utf8', rule, TABLE, q, 'encode', n,
                  'payload encoded as utf8', 'payload encoded as %s' % c)
    if len(enc) < 4:
        col.unknown(rule, TABLE, 'Table.to_hdf5', 'encode-sites', None,
                    'only %d encode sites found' % len(enc))
    # ---- reader side: parsers ---------------------------------------
    for q in ('general_parser', 'vlen_list_of_str_parser'):
        f = repo.func(TABLE, q)
        codecs = _decodes(f)
        col.check(bool(codecs) and set(codecs) == {'utf8'}, rule, TABLE, q,
                  'decode', f, 'bytes decoded as utf8',
                  'metadata bytes are decoded as %s (writer encodes utf8)'
                  % (sorted(set(codecs)) or 'nothing'))
    f = repo.func(TABLE, 'Table.from_hdf5')
    nested = nested_functions(f)
    if 'ensure_utf8' in nested:
        codecs = _decodes(nested['ensure_utf8'])
        col.check(set(codecs) == {'utf8'}, rule, TABLE,
                  'Table.from_hdf5.ensure_utf8', 'decode',
                  nested['ensure_utf8'], 'group metadata decoded as utf8',
                  'group metadata decoded as %s' % sorted(set(codecs)))
    # ---- reader side: ids ------------------------------------------
    seed = _file_ids_seed(ce, TABLE)

    def seed_reads(n):
        # only dataset reads, not axis_load results (those are checked
        # inside axis_load)
        return isinstance(n, ast.Subscript) and seed(n)

    # local decoding helpers: nested functions whose return decodes
    decoders = {name for name, g in nested.items()
                if any(isinstance(r, ast.Return) and r.value is not None and
                       _decodes(r.value) for r in ast.walk(g))}

    def sanitise(n):
        if isinstance(n, ast.Call) and call_name(n) in decoders:
            return True
        if isinstance(n, (ast.ListComp, ast.GeneratorExp)) and \
                _decodes(n.elt):
            return True
        if isinstance(n, ast.Call) and isinstance(n.func, ast.Attribute) \
                and n.func.attr == 'decode':
            return True
        if isinstance(n, ast.Call) and call_name(n) in ('len', 'max',
                                                        'range'):
            return True
        if isinstance(n, ast.Attribute) and n.attr in ('size', 'shape'):
            return True
        return False

    from .flow import FlowTaint
    from .astutil import walk_shallow
    q = 'Table.from_hdf5'
    raw_at, req_at, stmts = {}, {}, {}

    def rec(store):
        def on_stmt(st, tainted, scope):
            store.setdefault(id(st), set()).update(tainted)
            stmts[id(st)] = st
        return on_stmt
    ft_raw = FlowTaint(f, seed_reads, sanitise, rec(raw_at))
    ft_raw.run()
    ft_req = FlowTaint(f, lambda n: False, None, rec(req_at))
    ft_req.run(initial={'ids'})
    n_sinks = 0
    n_sources = sum(1 for n in ast.walk(f)
                    if isinstance(n, ast.Subscript) and seed_reads(n))
    results = {}

    def note(role, node, ok, why_ok, why_bad):
        key = (role, id(node))
        prev = results.get(key)
        if prev is None or (prev[1] and not ok):
            results[key] = (node, ok, why_ok, why_bad, role)

    for sid, st in stmts.items():
        raw = raw_at.get(sid, set())
        requested = req_at.get(sid, set())
        for n in walk_shallow(st):
            # explicit decodes of ids
            if isinstance(n, (ast.ListComp, ast.GeneratorExp)) and \
                    _decodes(n.elt) and (
                    ft_raw.is_t(n.generators[0].iter, raw) or not isinstance(
                        n.generators[0].iter, (ast.Tuple, ast.List))):
                # (a literal tuple of header attributes is not an id array)
                for c in _decodes(n.elt):
                    note('ids-decode', n, c == 'utf8',
                         'ids decoded as utf8',
                         'ids decoded as %s (writer encodes utf8)' % c)
            # (a) implicit ASCII conversion
            if isinstance(n, ast.Call) and call_name(n) in (
                    'np.asarray', 'np.array', 'asarray', 'array',
                    'numpy.asarray', 'numpy.array') and n.args:
                dt = kwarg(n, 'dtype') or (n.args[1] if len(n.args) > 1
                                           else None)
                if dt is not None and ft_raw.is_t(n.args[0], raw):
                    dts = unparse(dt)
                    textual = dotted(dt) in ('str', 'np.str_') or \
                        "'U" in dts or '"U' in dts or '_dtype' in dts
                    note('implicit-ascii', n, not textual,
                         'not a text dtype conversion',
                         'bytes read from an ids dataset are converted '
                         'to a unicode array by numpy, which decodes as '
                         'ASCII: any non-ASCII id raises '
                         'UnicodeDecodeError')
            # (b) comparison of raw bytes with requested (text) ids
            if isinstance(n, ast.Compare) and isinstance(
                    n.ops[0], (ast.In, ast.NotIn, ast.Eq, ast.NotEq)):
                sides = [n.left, n.comparators[0]]
                rawside = [_mentions_tainted(s_, raw, ft_raw)
                           for s_ in sides]
                reqside = [_mentions_tainted(s_, requested, ft_req)
                           for s_ in sides]
                if (rawside[0] and reqside[1] and not rawside[1]) or \
                        (rawside[1] and reqside[0] and not rawside[0]):
                    note('compare-raw', n, False, '',
                         'ids read from the file (bytes) are compared '
                         'with the requested ids before any decode: text '
                         'ids never match')
                elif (reqside[0] or reqside[1]) and not any(rawside) and \
                        isinstance(n.ops[0], (ast.In, ast.NotIn)):
                    note('compare-raw', n, True,
                         'requested ids are compared with decoded ids', '')
            if isinstance(n, ast.Call) and isinstance(
                    n.func, ast.Attribute) and n.func.attr in (
                    'issubset', 'issuperset', 'isdisjoint', 'intersection',
                    'difference') and n.args:
                sides = [n.func.value, n.args[0]]
                rawside = [_mentions_tainted(s_, raw, ft_raw)
                           for s_ in sides]
                reqside = [_mentions_tainted(s_, requested, ft_req)
                           for s_ in sides]
                if (rawside[0] and reqside[1]) or (rawside[1] and
                                                   reqside[0]):
                    note('compare-raw', n, False, '',
                         'ids read from the file (bytes) are compared '
                         'with the requested ids before any decode')
                elif any(reqside):
                    note('compare-raw', n, True,
                         'requested ids are compared with decoded ids', '')
            # (c) constructor
            if isinstance(n, ast.Call) and call_name(n) in ('Table', 'cls'):
                for i in (1, 2):
                    if len(n.args) > i:
                        t = ft_raw.is_t(n.args[i], raw)
                        note('ctor-ids:%d' % i, n.args[i], not t,
                             'ids handed to the constructor are decoded '
                             'text', 'undecoded bytes read from the file '
                             'become table ids')
    for (role, _), (node, ok, why_ok, why_bad, role) in sorted(
            results.items(), key=lambda kv: (kv[0][0],
                                             getattr(kv[1][0], 'lineno', 0))):
        n_sinks += 1
        col.check(ok, rule, TABLE, q, role, node, why_ok, why_bad)
    if n_sources < 3:
        col.unknown(rule, TABLE, 'Table.from_hdf5', 'id-sources', None,
                    'only %d ids dataset reads found' % n_sources)
    # explicit ASCII decodes of attributes are informational
    for n in ast.walk(f):
        if isinstance(n, ast.Call) and isinstance(n.func, ast.Attribute) and \
                n.func.attr == 'decode' and n.args and \
                _norm_codec(const_str(n.args[0])) == 'ascii':
            col.info(rule, TABLE, 'Table.from_hdf5', 'attr-ascii', n,
                     'attribute decoded as ascii under an isinstance(bytes) '
                     'guard; h5py 3 returns str for str attributes, so this '
                     'branch is not taken for files the library writes')


# --------------------------------------------------------------------------
# drop-empty step
# --------------------------------------------------------------------------

def _any_value_predicate(func):
    """Is the nested function a sign-insensitive emptiness predicate
    (np.any(vals) / (vals != 0).any() / vals.any())?"""
    rets = [n for n in ast.walk(func) if isinstance(n, ast.Return)]
    if len(rets) != 1 or rets[0].value is None:
        return None
    v = rets[0].value
    p = param_names(func)[0]
    s = unparse(v)
    if isinstance(v, ast.Call) and call_name(v) in ('np.any', 'any',
                                                    'numpy.any') and \
            v.args and dotted(v.args[0]) == p:
        return True
    if re.fullmatch(r'\(?%s != 0(\.0)?\)?\.any\(\)' % re.escape(p), s):
        return True
    if s == '%s.any()' % p:
        return True
    if isinstance(v, ast.Compare) and ('sum' in s):
        return False
    return None


def rule_drop_empty(repo, col):
    """After a subset read, the empty-vector filter runs on the *other* axis
    with a sign-insensitive predicate (from_hdf5 and parse_biom_table)."""
    for rel, q in ((TABLE, 'Table.from_hdf5'), (PARSE, 'parse_biom_table')):
        f = repo.func(rel, q)
        nested = nested_functions(f)
        # semantic form first: the axis argument of the emptiness filter,
        # evaluated for both values of the `axis` parameter
        from .flow import value_at
        decided = False
        for n in body_walk(f):
            if isinstance(n, ast.Call) and isinstance(
                    n.func, ast.Attribute) and n.func.attr == 'filter' \
                    and n.args and dotted(n.args[0]) in nested and \
                    _any_value_predicate(nested[dotted(n.args[0])]) \
                    is not None:
                ax = kwarg(n, 'axis') or (n.args[1] if len(n.args) > 1
                                          else None)
                if ax is None:
                    continue
                got = tuple(value_at(f, ax, {'axis': v})
                            for v in ('sample', 'observation'))
                if None in got:
                    continue
                decided = True
                col.check(got == ('observation', 'sample'), 'AX-IDAPI', rel,
                          q, 'invert-axis', n,
                          'the axis is inverted before the empty-vector '
                          'filter', 'the empty-vector filter runs on axis '
                          '%s for a read subset along (sample, observation): '
                          'the other axis keeps its all-zero vectors and '
                          'selected ids that are empty are dropped'
                          % (got,))
                col.ok('AX-IDAPI', rel, q, 'empty-filter-axis', n,
                       'filters the inverted axis')
        if decided:
            continue
        # find: axis = 'observation' if axis == 'sample' else 'sample'
        flips = []
        for n in body_walk(f):
            if isinstance(n, ast.Assign) and dotted(n.targets[0]) == 'axis' \
                    and isinstance(n.value, ast.IfExp):
                v = n.value
                t = v.test
                if isinstance(t, ast.Compare) and dotted(t.left) == 'axis' \
                        and isinstance(t.ops[0], ast.Eq):
                    a = const_str(t.comparators[0])
                    b, c = const_str(v.body), const_str(v.orelse)
                    flips.append((n, {a, b} == {'sample', 'observation'} and
                                  c == a))
        if not flips:
            # an emptiness filter that still runs on the requested axis?
            hit = None
            reassigned = any(isinstance(n, ast.Assign) and
                             dotted(n.targets[0]) == 'axis'
                             for n in body_walk(f))
            for n in body_walk(f):
                if isinstance(n, ast.Call) and isinstance(
                        n.func, ast.Attribute) and n.func.attr == 'filter' \
                        and n.args and dotted(n.args[0]) in nested and \
                        _any_value_predicate(nested[dotted(n.args[0])]) \
                        is not None and \
                        dotted(kwarg(n, 'axis') or ast.Constant(None)) == \
                        'axis':
                    hit = n
            if hit is not None and not reassigned:
                col.bad('AX-IDAPI', rel, q, 'invert-axis', hit,
                        'the empty-vector filter runs on the requested axis '
                        'itself: the axis is never inverted, so the other '
                        'axis keeps its all-zero vectors and selected ids '
                        'that are empty are dropped')
            else:
                col.unknown('AX-IDAPI', rel, q, 'invert-axis', f,
                            'axis inversion idiom not recognised')
            continue
        if len(flips) != 1:
            col.unknown('AX-IDAPI', rel, q, 'invert-axis', f,
                        'axis inversion idiom not recognised')
            continue
        st, okflip = flips[0]
        col.check(okflip, 'AX-IDAPI', rel, q, 'invert-axis', st,
                  'the axis is inverted before the empty-vector filter',
                  'the axis expression is not the inverse axis')
        # the filter after the flip uses axis=axis and an emptiness predicate
        after = False
        found = False
        for n in body_walk(f):
            if n is st:
                after = True
            if after and isinstance(n, ast.Call) and isinstance(
                    n.func, ast.Attribute) and n.func.attr == 'filter':
                ax = kwarg(n, 'axis')
                pred = n.args[0] if n.args else None
                found = True
                col.check(ax is not None and dotted(ax) == 'axis',
                          'AX-IDAPI', rel, q, 'empty-filter-axis', n,
                          'filters the inverted axis',
                          'the empty-vector filter does not run on the '
                          'inverted axis')
                if pred is not None and dotted(pred) in nested:
                    r = _any_value_predicate(nested[dotted(pred)])
                    if r is None:
                        col.unknown('SB-EMPTY', rel, q, 'empty-predicate',
                                    nested[dotted(pred)],
                                    'predicate shape not recognised')
                    else:
                        col.check(r, 'SB-EMPTY', rel, q, 'empty-predicate',
                                  nested[dotted(pred)],
                                  'keeps a vector iff any entry is non-zero',
                                  'the predicate is sign-sensitive: vectors '
                                  'whose entries cancel or are negative are '
                                  'dropped')
        if not found:
            col.bad('AX-IDAPI', rel, q, 'empty-filter-axis', st,
                    'no filter follows the axis inversion')
    # parse_biom_table: the id filter keeps ids in the requested set on the
    # requested axis
    f = repo.func(PARSE, 'parse_biom_table')
    nested = nested_functions(f)
    g = nested.get('subset_ids')
    if g is None:
        col.unknown('AX-IDAPI', PARSE, 'parse_biom_table', 'subset-ids', f,
                    'subset predicate not found')
    else:
        rets = [n for n in ast.walk(g) if isinstance(n, ast.Return)]
        params = param_names(g)
        ok = len(rets) == 1 and isinstance(rets[0].value, ast.Compare) and \
            isinstance(rets[0].value.ops[0], ast.In) and \
            dotted(rets[0].value.left) == params[1] and \
            dotted(rets[0].value.comparators[0]) == 'ids'
        col.check(ok, 'AX-IDAPI', PARSE, 'parse_biom_table', 'subset-ids',
                  g, 'keeps exactly the ids in the requested collection',
                  'the subset predicate does not test the id (second '
                  'argument) for membership in the requested ids')


RULE_TEXT = {
    'TA-API': rule_ta_api.__doc__,
    'TA-STRIP': rule_ta_strip.__doc__,
    'SB-SLICERS': 'the two JSON slicers and the two remappers each act on '
                  'their own coordinate of (row, col, value)',
    'AX-JSONKEY': rule_ax_jsonkey.__doc__,
    'AX-FWD': 'wrappers forward ids / axis to the function that does the '
              'work',
    'OR-REFUSE': rule_or_refuse.__doc__,
    'TA-CODEC': rule_ta_codec.__doc__,
    'AX-IDAPI': rule_drop_empty.__doc__,
    'SB-EMPTY': 'emptiness predicates are sign-insensitive unless the '
                'operand is a non-negative count by construction',
}
