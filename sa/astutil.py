"""Small AST helpers shared by the rules."""
import ast

FUNC_NODES = (ast.FunctionDef, ast.AsyncFunctionDef, ast.Lambda)


def unparse(node, limit=160):
    try:
        s = ast.unparse(node)
    except Exception:  # pragma: no cover
        s = '<%s>' % type(node).__name__
    s = ' '.join(s.split())
    return s if len(s) <= limit else s[:limit - 3] + '...'


def dotted(node):
    """a.b.c -> 'a.b.c' (None if not a pure name/attribute chain)."""
    parts = []
    while isinstance(node, ast.Attribute):
        parts.append(node.attr)
        node = node.value
    if isinstance(node, ast.Name):
        parts.append(node.id)
        return '.'.join(reversed(parts))
    return None


def call_name(call):
    """Dotted name of the callee of a Call (None when computed)."""
    if not isinstance(call, ast.Call):
        return None
    return dotted(call.func)


def const_str(node):
    if isinstance(node, ast.Constant) and isinstance(node.value, str):
        return node.value
    return None


def is_none(node):
    return isinstance(node, ast.Constant) and node.value is None


def walk_shallow(node):
    """ast.walk (pre-order) that does not descend into nested function /
    lambda / class definitions below ``node``."""
    stack = [node]
    while stack:
        n = stack.pop()
        yield n
        if n is not node and isinstance(n, FUNC_NODES + (ast.ClassDef,)):
            continue
        stack.extend(reversed(list(ast.iter_child_nodes(n))))


def body_walk(func):
    """Walk the statements/expressions of a function body, not descending
    into nested defs/lambdas/classes."""
    stack = list(reversed(func.body))
    while stack:
        n = stack.pop()
        yield n
        if isinstance(n, FUNC_NODES + (ast.ClassDef,)):
            continue
        stack.extend(reversed(list(ast.iter_child_nodes(n))))


def body_walk_all(func):
    """Walk a function body including nested defs and lambdas."""
    for st in func.body:
        yield from ast.walk(st)


def calls_in(node, shallow=True):
    it = walk_shallow(node) if shallow else ast.walk(node)
    for n in it:
        if isinstance(n, ast.Call):
            yield n


def names_in(node):
    return {n.id for n in ast.walk(node) if isinstance(n, ast.Name)}


def target_names(target):
    """Names bound by an assignment target (tuples unpacked)."""
    out = []
    if isinstance(target, ast.Name):
        out.append(target.id)
    elif isinstance(target, (ast.Tuple, ast.List)):
        for e in target.elts:
            out.extend(target_names(e))
    elif isinstance(target, ast.Starred):
        out.extend(target_names(target.value))
    return out


def kwarg(call, name):
    """The argument of `call` for parameter `name`: the keyword, or - for a
    call of a Table method, whose signature is known - the positional
    argument in that parameter's position."""
    for kw in call.keywords:
        if kw.arg == name:
            return kw.value
    if isinstance(call.func, ast.Attribute) and call.args:
        try:
            from .normalize import TABLE_SIGNATURES
        except Exception:
            return None
        sig = TABLE_SIGNATURES.get(call.func.attr)
        if sig and name in sig:
            i = sig.index(name)
            if i < len(call.args) and not any(
                    isinstance(a, ast.Starred) for a in call.args[:i + 1]):
                return call.args[i]
    return None


def arg_or_kw(call, pos, name):
    """Positional argument ``pos`` or keyword ``name`` of a call."""
    if pos is not None and len(call.args) > pos and not any(
            isinstance(a, ast.Starred) for a in call.args[:pos + 1]):
        return call.args[pos]
    return kwarg(call, name)


def param_names(func):
    a = func.args
    return [x.arg for x in a.posonlyargs + a.args + a.kwonlyargs]


def param_default(func, name):
    """Default expression of parameter ``name`` (None when it has none)."""
    a = func.args
    pos = a.posonlyargs + a.args
    ndef = len(a.defaults)
    for i, p in enumerate(pos):
        if p.arg == name:
            j = i - (len(pos) - ndef)
            return a.defaults[j] if j >= 0 else None
    for p, d in zip(a.kwonlyargs, a.kw_defaults):
        if p.arg == name:
            return d
    return None


def decorators(func):
    return [dotted(d) if not isinstance(d, ast.Call) else dotted(d.func)
            for d in func.decorator_list]


def stmt_of(mod, node):
    """Innermost statement containing ``node``."""
    cur = node
    while cur is not None and not isinstance(cur, ast.stmt):
        cur = mod.parent.get(cur)
    return cur


def ancestors(mod, node):
    cur = mod.parent.get(node)
    while cur is not None:
        yield cur
        cur = mod.parent.get(cur)


def local_assignments(func):
    """name -> list of (value_expr, stmt) for simple single-name assignments
    in the function body (shallow).  Tuple unpacking records value None."""
    out = {}
    for n in body_walk(func):
        if isinstance(n, ast.Assign):
            for t in n.targets:
                if isinstance(t, ast.Name):
                    out.setdefault(t.id, []).append((n.value, n))
                else:
                    for nm in target_names(t):
                        out.setdefault(nm, []).append((None, n))
        elif isinstance(n, ast.AugAssign) and isinstance(n.target, ast.Name):
            out.setdefault(n.target.id, []).append((None, n))
        elif isinstance(n, ast.AnnAssign) and isinstance(n.target, ast.Name) \
                and n.value is not None:
            out.setdefault(n.target.id, []).append((n.value, n))
        elif isinstance(n, (ast.For, ast.AsyncFor)):
            for nm in target_names(n.target):
                out.setdefault(nm, []).append((None, n))
        elif isinstance(n, (ast.With, ast.AsyncWith)):
            for it in n.items:
                if it.optional_vars is not None:
                    for nm in target_names(it.optional_vars):
                        out.setdefault(nm, []).append((None, n))
        elif isinstance(n, ast.NamedExpr) and isinstance(n.target, ast.Name):
            out.setdefault(n.target.id, []).append((n.value, n))
    return out


def arg_of(call, pos, name):
    """The argument of `call` bound to the parameter at position `pos` named
    `name`: positional or keyword."""
    if len(call.args) > pos and not any(
            isinstance(a, ast.Starred) for a in call.args[:pos + 1]):
        return call.args[pos]
    for k in call.keywords:
        if k.arg == name:
            return k.value
    return None
