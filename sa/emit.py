"""Abstract evaluation of string-building code (the JSON and TSV writers).

A function is interpreted once per *mode* (e.g. ``direct_io`` truthy /
falsy).  Strings are abstracted to streams of items:

    ('lit', text)                      literal text
    ('dyn', kind, src, prov)           dynamic text; kind says how it was
                                       produced (dumps, str, repr, int,
                                       float_fixed, isoformat, raw, ...),
                                       prov is a frozenset of provenance
                                       paths such as
                                       'self.iter(axis=observation)[*][0][*]'
    ('alt', (stream, ...))             alternatives (unknown condition)
    ('rep', stream)                    zero or more repetitions (loop)
    ('join', sep, liststream)          sep.join(list)

and lists of strings to streams of ('elem', stream) / 'rep' / 'alt' items.
Everything not understood becomes an unknown value; rules treat unknown as
"unresolved", never as a verdict.
"""
import ast
import re

from .astutil import dotted, call_name, unparse, target_names, param_names
from .consteval import ConstEval, UNKNOWN

TRUTHY = 'TRUTHY'
FALSY = 'FALSY'


class SV:       # string value
    def __init__(self, stream):
        self.stream = tuple(stream)

    def __eq__(self, o):
        return isinstance(o, SV) and o.stream == self.stream

    def __hash__(self):
        return hash(('SV', self.stream))


class LV:       # list-of-strings value
    def __init__(self, stream):
        self.stream = tuple(stream)

    def __eq__(self, o):
        return isinstance(o, LV) and o.stream == self.stream

    def __hash__(self):
        return hash(('LV', self.stream))


class UV:       # unknown / dynamic non-string value
    def __init__(self, src, prov=()):
        self.src = src
        self.prov = frozenset(prov)

    def __eq__(self, o):
        return isinstance(o, UV) and o.src == self.src and o.prov == self.prov

    def __hash__(self):
        return hash(('UV', self.src, self.prov))


class CV:       # python constant
    def __init__(self, value):
        self.value = value

    def __eq__(self, o):
        return isinstance(o, CV) and type(o.value) is type(self.value) and \
            o.value == self.value

    def __hash__(self):
        return hash(('CV', repr(self.value)))


class AV:       # alternatives of values
    def __init__(self, options):
        flat = []
        for o in options:
            if isinstance(o, AV):
                flat.extend(o.options)
            else:
                flat.append(o)
        seen = []
        for o in flat:
            if o not in seen:
                seen.append(o)
        self.options = tuple(seen)

    def __eq__(self, o):
        return isinstance(o, AV) and o.options == self.options

    def __hash__(self):
        return hash(('AV', self.options))


def mk_alt(values):
    a = AV(values)
    if len(a.options) == 1:
        return a.options[0]
    if all(isinstance(o, SV) for o in a.options):
        return SV((('alt', tuple(o.stream for o in a.options)),))
    return a


FMT_RE = re.compile(
    r'%(?:\((\w+)\))?([-#0 +]*)(\*|\d+)?(?:\.(\*|\d+))?[hlL]?'
    r'([diouxXeEfFgGcrsa%])')


class Emit:
    def __init__(self, repo, rel, func, fixed=None, out_param=None):
        self.repo = repo
        self.rel = rel
        self.func = func
        self.fixed = fixed or {}
        self.out_param = out_param
        self.ce = ConstEval(repo)
        self.returns = []
        self.problems = []
        self.local_defs = {}
        self._inline_depth = 0
        self._break_envs = []

    # ---- driver -------------------------------------------------------
    def run(self):
        env = {'$out': LV(())}
        for p in param_names(self.func):
            if p in self.fixed:
                v = self.fixed[p]
                env[p] = CV(v) if v not in (TRUTHY, FALSY) else UV(
                    p, {p})
            else:
                env[p] = UV(p, {p})
        end = self.block(self.func.body, env)
        self.final_env = end
        outs = []
        if end is not None:
            outs.append(end['$out'])
        self.out = mk_alt(outs + list(self._ret_outs)) if (outs or
                                                     self._ret_outs) else \
            LV(())
        return self

    _ret_outs = ()

    # ---- statements ---------------------------------------------------
    def block(self, stmts, env):
        for st in stmts:
            if env is None:
                return None
            env = self.stmt(st, env)
        return env

    def stmt(self, st, env):
        if isinstance(st, ast.Expr):
            v = st.value
            if isinstance(v, ast.Constant):
                return env
            if isinstance(v, ast.Call) and isinstance(v.func, ast.Attribute):
                base = dotted(v.func.value)
                meth = v.func.attr
                if base == self.out_param and meth == 'write' and v.args:
                    return self._append(env, '$out', self.ev(v.args[0], env))
                if base == self.out_param and meth == 'writelines' and \
                        v.args:
                    lv = self.ev(v.args[0], env)
                    env = dict(env)
                    if isinstance(lv, LV) and isinstance(env['$out'], LV):
                        env['$out'] = LV(env['$out'].stream + lv.stream)
                    elif isinstance(lv, AV) and isinstance(
                            env['$out'], LV) and all(
                            isinstance(o, LV) for o in lv.options):
                        env['$out'] = LV(env['$out'].stream + ((
                            'alt', tuple(o.stream for o in lv.options)),))
                    else:
                        env['$out'] = self._append(
                            env, '$out', UV(unparse(v.args[0])))['$out']
                    return env
                if base in env and isinstance(env[base], (LV, AV)) and \
                        meth == 'append' and v.args:
                    return self._append(env, base, self.ev(v.args[0], env))
                if base in env and isinstance(env[base], (LV, AV)) and \
                        meth in ('extend', 'insert'):
                    lv = self.ev(v.args[-1], env)
                    if meth == 'extend' and isinstance(lv, LV) and \
                            isinstance(env[base], LV):
                        env = dict(env)
                        env[base] = LV(env[base].stream + lv.stream)
                        return env
                    env = dict(env)
                    env[base] = UV(base, {base})
                    return env
            return env
        if isinstance(st, ast.Assign):
            val = self.ev(st.value, env)
            env = dict(env)
            for t in st.targets:
                if isinstance(t, ast.Name):
                    env[t.id] = val
                else:
                    prov = self.prov(st.value, env)
                    for i, nm in enumerate(target_names(t)):
                        env[nm] = UV(nm, {p + '[%d]' % i for p in prov})
            return env
        if isinstance(st, ast.AugAssign):
            env = dict(env)
            if isinstance(st.target, ast.Name):
                cur = env.get(st.target.id)
                add = self.ev(st.value, env)
                if isinstance(st.op, ast.Add) and isinstance(cur, SV) and \
                        isinstance(add, SV):
                    env[st.target.id] = SV(cur.stream + add.stream)
                elif isinstance(st.op, ast.Add) and isinstance(cur, LV) and \
                        isinstance(add, LV):
                    env[st.target.id] = LV(cur.stream + add.stream)
                else:
                    env[st.target.id] = UV(st.target.id, {st.target.id})
            return env
        if isinstance(st, ast.If):
            t = self.truth(st.test, env)
            if t is True:
                return self.block(st.body, env)
            if t is False:
                return self.block(st.orelse, env)
            a = self.block(st.body, dict(env))
            b = self.block(st.orelse, dict(env))
            return self.merge(env, [a, b])
        if isinstance(st, (ast.For, ast.While)):
            return self.loop(st, env)
        if isinstance(st, ast.With):
            return self.block(st.body, env)
        if isinstance(st, ast.Try):
            a = self.block(st.body + st.orelse, dict(env))
            outs = [a]
            for h in st.handlers:
                outs.append(self.block(h.body, dict(env)))
            res = self.merge(env, outs)
            if st.finalbody and res is not None:
                res = self.block(st.finalbody, res)
            return res
        if isinstance(st, ast.Return):
            if st.value is not None:
                self.returns.append(self.ev(st.value, env))
            self._ret_outs = tuple(self._ret_outs) + (env['$out'],)
            return None
        if isinstance(st, ast.Raise):
            return None
        if isinstance(st, ast.Break) and self._break_envs:
            self._break_envs[-1].append(env)
            return None
        if isinstance(st, (ast.FunctionDef, ast.ClassDef)):
            env = dict(env)
            env[st.name] = UV('<def %s>' % st.name)
            if isinstance(st, ast.FunctionDef):
                self.local_defs[st.name] = st
            return env
        return env

    def _append(self, env, name, val):
        env = dict(env)
        cur = env[name]
        if isinstance(cur, AV) and all(isinstance(o, LV)
                                       for o in cur.options):
            outs = []
            for o in cur.options:
                e2 = dict(env)
                e2[name] = o
                outs.append(self._append(e2, name, val)[name])
            env[name] = AV(outs)
            return env
        if not isinstance(cur, LV):
            env[name] = UV(name, {name})
            return env
        if isinstance(val, SV):
            item = ('elem', val.stream)
        elif isinstance(val, AV) and all(isinstance(o, SV)
                                         for o in val.options):
            item = ('elem', (('alt', tuple(o.stream
                                           for o in val.options)),))
        else:
            src = val.src if isinstance(val, UV) else '?'
            prov = val.prov if isinstance(val, UV) else frozenset()
            item = ('elem', (('dyn', 'raw', src, prov),))
        env[name] = LV(cur.stream + (item,))
        return env

    def loop(self, st, env):
        assigned = set()
        for n in ast.walk(st):
            if isinstance(n, (ast.Assign, ast.AugAssign, ast.AnnAssign)):
                tg = n.targets if isinstance(n, ast.Assign) else [n.target]
                for t in tg:
                    assigned.update(target_names(t))
        body_env = dict(env)
        for nm in assigned:
            if nm in body_env and not isinstance(body_env[nm], (LV,)):
                body_env[nm] = UV(nm, {nm}) if not isinstance(
                    body_env[nm], UV) else body_env[nm]
        if isinstance(st, ast.For):
            self.bind_iter(st.target, st.iter, body_env)
        self._break_envs.append([])
        after = self.block(st.body, body_env)
        breaks = self._break_envs.pop()
        res = dict(env)
        if after is None:
            after = body_env
        for nm in set(after) | set(env):
            a = after.get(nm)
            b = env.get(nm)
            if a == b:
                continue
            ext = _ext_merge(b, [a], lambda ds: ('rep', ds[0]))
            if ext is not None:
                res[nm] = ext
            elif b is None:
                res[nm] = a
            elif a is None:
                res[nm] = b
            else:
                res[nm] = mk_alt([b, a])
        normal = res
        if getattr(st, 'orelse', None):
            # the else branch runs when the loop was not left by break
            normal = self.block(st.orelse, dict(res))
        if breaks:
            return self.merge(env, [normal] + breaks)
        return normal

    def bind_iter(self, target, it, env):
        names = target_names(target)
        if isinstance(it, ast.Call) and call_name(it) == 'enumerate' and \
                it.args and isinstance(target, (ast.Tuple, ast.List)) and \
                len(target.elts) == 2:
            env[names[0]] = UV(names[0], {'<index>'})
            rest = target.elts[1]
            prov = {p + '[*]' for p in self.prov(it.args[0], env)}
            self._bind_target(rest, prov, env)
            return
        if isinstance(it, ast.Call) and call_name(it) == 'zip' and \
                isinstance(target, (ast.Tuple, ast.List)) and \
                len(target.elts) == len(it.args):
            for t, a in zip(target.elts, it.args):
                self._bind_target(t, {p + '[*]' for p in self.prov(a, env)},
                                  env)
            return
        if isinstance(it, ast.Call) and call_name(it) == 'range':
            for nm in names:
                env[nm] = UV(nm, {'<index>'})
            return
        # a literal sequence of constants / of tuples of constants: each
        # target ranges over the literals at its position
        if isinstance(it, (ast.Tuple, ast.List)) and it.elts:
            rows = None
            if all(isinstance(x, ast.Constant) for x in it.elts) and \
                    isinstance(target, ast.Name):
                rows = [[x] for x in it.elts]
                tnames = [target.id]
            elif all(isinstance(x, (ast.Tuple, ast.List)) for x in it.elts) \
                    and isinstance(target, (ast.Tuple, ast.List)) and all(
                        isinstance(t, ast.Name) for t in target.elts) and \
                    all(len(x.elts) == len(target.elts) for x in it.elts):
                rows = [list(x.elts) for x in it.elts]
                tnames = [t.id for t in target.elts]
            if rows is not None:
                for i, nm in enumerate(tnames):
                    colv = [r[i] for r in rows]
                    if all(isinstance(c, ast.Constant) and isinstance(
                            c.value, str) for c in colv):
                        env[nm] = mk_alt([SV((('lit', c.value),))
                                          for c in colv])
                    elif all(isinstance(c, ast.Constant) for c in colv):
                        env[nm] = mk_alt([CV(c.value) for c in colv])
                    else:
                        env[nm] = UV(nm, {nm})
                return
        prov = {p + '[*]' for p in self.prov(it, env)}
        self._bind_target(target, prov, env)

    def _bind_target(self, target, prov, env):
        if isinstance(target, ast.Name):
            env[target.id] = UV(target.id, prov)
        elif isinstance(target, (ast.Tuple, ast.List)):
            for i, t in enumerate(target.elts):
                self._bind_target(t, {p + '[%d]' % i for p in prov}, env)

    def merge(self, base, envs):
        live = [e for e in envs if e is not None]
        if not live:
            return None
        if len(live) == 1:
            return live[0]
        res = {}
        names = set()
        for e in live:
            names |= set(e)
        for nm in names:
            vals = [e.get(nm) for e in live]
            if all(v == vals[0] for v in vals):
                res[nm] = vals[0]
                continue
            b = base.get(nm)
            ext = _ext_merge(b, vals, lambda ds: ('alt', tuple(ds)))
            if ext is not None:
                res[nm] = ext
            else:
                res[nm] = mk_alt([v if v is not None else UV(nm)
                                  for v in vals])
        return res

    # ---- truth --------------------------------------------------------
    def truth(self, test, env):
        if isinstance(test, ast.Name) and test.id in self.fixed:
            v = self.fixed[test.id]
            if v == TRUTHY:
                return True
            if v == FALSY:
                return False
            return bool(v)
        if isinstance(test, ast.UnaryOp) and isinstance(test.op, ast.Not):
            t = self.truth(test.operand, env)
            return None if t is None else (not t)
        if isinstance(test, ast.Compare) and len(test.ops) == 1 and \
                isinstance(test.left, ast.Name) and \
                test.left.id in self.fixed and \
                isinstance(test.comparators[0], ast.Constant) and \
                test.comparators[0].value is None:
            v = self.fixed[test.left.id]
            isnone = (v == FALSY) or v is None
            if v == TRUTHY:
                isnone = False
            if isinstance(test.ops[0], ast.Is):
                return isnone
            if isinstance(test.ops[0], ast.IsNot):
                return not isnone
        if isinstance(test, ast.BoolOp):
            vals = [self.truth(v, env) for v in test.values]
            if isinstance(test.op, ast.And):
                if any(v is False for v in vals):
                    return False
                if all(v is True for v in vals):
                    return True
            else:
                if any(v is True for v in vals):
                    return True
                if all(v is False for v in vals):
                    return False
            return None
        v = self.ev(test, env)
        if isinstance(v, CV):
            return bool(v.value)
        return None

    # ---- provenance ---------------------------------------------------
    def prov(self, e, env):
        if isinstance(e, ast.Name):
            v = env.get(e.id)
            if isinstance(v, UV):
                return set(v.prov) or {e.id}
            if isinstance(v, AV):
                out = set()
                for o in v.options:
                    if isinstance(o, UV):
                        out |= set(o.prov)
                return out or {e.id}
            return {e.id}
        if isinstance(e, ast.Attribute):
            d = dotted(e)
            if d:
                return {d}
            return {p + '.' + e.attr for p in self.prov(e.value, env)}
        if isinstance(e, ast.Subscript):
            base = self.prov(e.value, env)
            if isinstance(e.slice, ast.Constant) and \
                    isinstance(e.slice.value, int):
                return {p + '[%d]' % e.slice.value for p in base}
            return {p + '[?]' for p in base}
        if isinstance(e, ast.Call):
            name = call_name(e) or unparse(e.func, 40)
            parts = []
            for a in e.args:
                parts += sorted(self.prov(a, env))
            for kw in e.keywords:
                if kw.arg and isinstance(kw.value, ast.Constant):
                    parts.append('%s=%s' % (kw.arg, kw.value.value))
            return {'%s(%s)' % (name, ','.join(parts))}
        if isinstance(e, (ast.Constant,)):
            return set()
        out = set()
        for c in ast.iter_child_nodes(e):
            if isinstance(c, ast.expr):
                out |= self.prov(c, env)
        return out

    # ---- expressions --------------------------------------------------
    def classify(self, e, env):
        """How an expression turns a value into text -> (kind, inner expr)"""
        if isinstance(e, ast.Call):
            name = call_name(e)
            if name in ('dumps', 'json.dumps', '_json_dumps'):
                return 'dumps', (e.args[0] if e.args else e)
            if name == 'str' and e.args:
                return 'str', e.args[0]
            if name == 'repr' and e.args:
                return 'repr', e.args[0]
            if isinstance(e.func, ast.Attribute) and \
                    e.func.attr == 'isoformat':
                return 'isoformat', e.func.value
            if name in ('round', 'int', 'np.round', 'np.around',
                        'numpy.round') and e.args:
                return 'rounded', e.args[0]
            if name in ('float', 'np.float64') and e.args:
                k, inner = self.classify(e.args[0], env)
                return ('num' if k == 'raw' else k), inner
            if name in ('len',):
                return 'int', e
        if isinstance(e, ast.Name):
            v = env.get(e.id)
            # a position produced by enumerate() / range() is an integer
            if isinstance(v, UV) and v.prov == frozenset({'<index>'}):
                return 'int', e
            # a name bound to float(...) (assignment or walrus)
            if isinstance(v, UV) and v.prov and all(
                    p.startswith('<float>') for p in v.prov):
                return 'num', e
            if e.id in self._float_only_names():
                return 'num', e
        if isinstance(e, ast.NamedExpr):
            return self.classify(e.value, env)
        return 'raw', e

    def _float_only_names(self):
        """Names that are bound, everywhere in the function, to float(...)
        (plain assignment or walrus)."""
        if not hasattr(self, '_fnames'):
            binds = {}
            for n in ast.walk(self.func):
                tv = None
                if isinstance(n, ast.NamedExpr) and isinstance(
                        n.target, ast.Name):
                    tv = (n.target.id, n.value)
                elif isinstance(n, ast.Assign) and len(n.targets) == 1 and \
                        isinstance(n.targets[0], ast.Name):
                    tv = (n.targets[0].id, n.value)
                elif isinstance(n, (ast.For, ast.comprehension)):
                    for x in ast.walk(n.target):
                        if isinstance(x, ast.Name):
                            binds.setdefault(x.id, []).append(None)
                if tv:
                    binds.setdefault(tv[0], []).append(tv[1])
            self._fnames = {nm for nm, vals in binds.items() if vals and all(
                isinstance(v, ast.Call) and call_name(v) in (
                    'float', 'np.float64') for v in vals)}
        return self._fnames

    def dyn_for(self, e, env, spec_kind=None):
        kind, inner = self.classify(e, env)
        if spec_kind in ('int', 'float_fixed'):
            kind = spec_kind
        elif spec_kind == 'repr':
            kind = 'repr_num' if kind == 'num' else \
                ('rounded' if kind == 'rounded' else 'repr')
        elif spec_kind == 'str' and kind in ('raw', 'num'):
            kind = 'str_num' if kind == 'num' else 'raw'
        return ('dyn', kind, unparse(e, 80), frozenset(self.prov(inner,
                                                                 env)))

    def as_stream(self, v, e, env, spec_kind=None):
        """Text of a value when interpolated with %s / {} / f-string."""
        if isinstance(v, SV):
            return v.stream
        if isinstance(v, AV) and all(isinstance(o, (SV, CV))
                                     for o in v.options):
            return (('alt', tuple(
                o.stream if isinstance(o, SV) else
                (('lit', str(o.value)),) for o in v.options)),)
        if isinstance(v, CV):
            if spec_kind in (None, 'str', 'int', 'repr') and \
                    isinstance(v.value, (str, int)) and \
                    not isinstance(v.value, bool):
                return (('lit', str(v.value)),)
        return (self.dyn_for(e, env, spec_kind),)

    def ev(self, e, env):
        if isinstance(e, ast.Constant):
            if isinstance(e.value, str):
                return SV((('lit', e.value),)) if e.value else SV(())
            return CV(e.value)
        if isinstance(e, ast.Name):
            if e.id in env:
                return env[e.id]
            c = self.ce.ev(e, self.rel)
            if c is not UNKNOWN:
                return SV((('lit', c),)) if isinstance(c, str) else CV(c)
            return UV(e.id, {e.id})
        if isinstance(e, ast.NamedExpr) and isinstance(e.target, ast.Name):
            val = self.ev(e.value, env)
            if isinstance(e.value, ast.Call) and call_name(e.value) in (
                    'float', 'np.float64'):
                env[e.target.id] = UV(e.target.id, {'<float>' + p for p in
                                                    self.prov(e.value, env)}
                                      or {'<float>'})
            else:
                env[e.target.id] = val
            return val
        if isinstance(e, ast.JoinedStr):
            stream = ()
            for v in e.values:
                if isinstance(v, ast.Constant):
                    stream += (('lit', str(v.value)),)
                else:
                    val = self.ev(v.value, env)
                    if v.format_spec is not None:
                        spec = unparse(v.format_spec)
                        kind = 'float_fixed' if re.search(r'[eEfFgG%]',
                                                          spec) else \
                            ('int' if 'd' in spec else None)
                        if kind:
                            stream += (self.dyn_for(v.value, env, kind),)
                            continue
                    sk = 'repr' if v.conversion == 114 else 'str'
                    stream += self.as_stream(val, v.value, env, sk)
            return SV(_norm(stream))
        if isinstance(e, ast.BinOp) and isinstance(e.op, ast.Mod):
            fmt = self.ev(e.left, env)
            if isinstance(fmt, SV) and all(i[0] == 'lit'
                                           for i in fmt.stream):
                text = ''.join(i[1] for i in fmt.stream)
                args = list(e.right.elts) if isinstance(e.right, ast.Tuple) \
                    else [e.right]
                return self._percent(text, args, env, e)
            return UV(unparse(e, 60), self.prov(e, env))
        if isinstance(e, ast.BinOp) and isinstance(e.op, ast.Add):
            a = self.ev(e.left, env)
            b = self.ev(e.right, env)
            if isinstance(a, SV) and isinstance(b, SV):
                return SV(_norm(a.stream + b.stream))
            if isinstance(a, LV) and isinstance(b, LV):
                return LV(a.stream + b.stream)
            if isinstance(a, SV) or isinstance(b, SV):
                sa = self.as_stream(a, e.left, env, 'str')
                sb = self.as_stream(b, e.right, env, 'str')
                return SV(_norm(sa + sb))
            return UV(unparse(e, 60), self.prov(e, env))
        if isinstance(e, ast.IfExp):
            t = self.truth(e.test, env)
            if t is True:
                return self.ev(e.body, env)
            if t is False:
                return self.ev(e.orelse, env)
            return mk_alt([self.ev(e.body, env), self.ev(e.orelse, env)])
        if isinstance(e, (ast.List, ast.Tuple)):
            items = []
            for x in e.elts:
                v = self.ev(x, env)
                items.append(('elem', self.as_stream(v, x, env, 'str')))
            return LV(items)
        if isinstance(e, (ast.ListComp, ast.GeneratorExp)) and \
                len(e.generators) == 1 and not e.generators[0].ifs and \
                isinstance(e.generators[0].target, ast.Name) and \
                isinstance(e.generators[0].iter, ast.Name) and \
                isinstance(env.get(e.generators[0].iter.id), (LV, AV)):
            var = e.generators[0].target.id

            def mapl(ls):
                out = ()
                for it in ls:
                    if it[0] == 'elem':
                        env2 = dict(env)
                        env2[var] = SV(it[1])
                        v = self.ev(e.elt, env2)
                        out += (('elem', self.as_stream(v, e.elt, env2,
                                                        'str')),)
                    elif it[0] == 'rep':
                        out += (('rep', mapl(it[1])),)
                    elif it[0] == 'alt':
                        out += (('alt', tuple(mapl(o) for o in it[1])),)
                return out
            src = env[e.generators[0].iter.id]
            if isinstance(src, LV):
                return LV(mapl(src.stream))
            if all(isinstance(o, LV) for o in src.options):
                return AV([LV(mapl(o.stream)) for o in src.options])
        if isinstance(e, (ast.ListComp, ast.GeneratorExp)):
            env2 = dict(env)
            for g in e.generators:
                self.bind_iter(g.target, g.iter, env2)
            v = self.ev(e.elt, env2)
            return LV((('rep', (('elem', self.as_stream(v, e.elt, env2,
                                                        'str')),)),))
        if isinstance(e, ast.Call):
            return self._call(e, env)
        if isinstance(e, ast.Compare) or isinstance(e, ast.BoolOp) or \
                isinstance(e, ast.UnaryOp):
            return UV(unparse(e, 60), self.prov(e, env))
        return UV(unparse(e, 60), self.prov(e, env))

    def _percent(self, text, args, env, node):
        stream = ()
        pos = 0
        ai = 0
        for m in FMT_RE.finditer(text):
            if m.start() > pos:
                stream += (('lit', text[pos:m.start()].replace('%%', '%')),)
            pos = m.end()
            conv = m.group(5)
            if conv == '%':
                stream += (('lit', '%'),)
                continue
            if ai >= len(args):
                return UV(unparse(node, 60))
            a = args[ai]
            ai += 1
            if conv in 'di':
                sk = 'int'
            elif conv in 'eEfFgG':
                sk = 'float_fixed'
            elif conv in 'ra':
                sk = 'repr'
            elif conv == 's':
                sk = 'str'
                if m.group(4):       # %.3s truncates
                    sk = 'float_fixed'
            else:
                sk = 'int'
            v = self.ev(a, env)
            if sk == 'str':
                stream += self.as_stream(v, a, env, 'str')
            elif sk == 'int' and isinstance(v, CV) and \
                    isinstance(v.value, int):
                stream += (('lit', str(v.value)),)
            else:
                stream += (self.dyn_for(a, env, sk),)
        if pos < len(text):
            stream += (('lit', text[pos:].replace('%%', '%')),)
        return SV(_norm(stream))

    def _call(self, e, env):
        name = call_name(e)
        if isinstance(e.func, ast.Attribute):
            meth = e.func.attr
            if meth == 'join' and len(e.args) == 1:
                sep = self.ev(e.func.value, env)
                septext = None
                if isinstance(sep, SV) and all(i[0] == 'lit'
                                               for i in sep.stream):
                    septext = ''.join(i[1] for i in sep.stream)
                elif isinstance(sep, UV):
                    septext = '‹%s›' % sep.src
                if septext is not None:
                    lv = self.ev_list(e.args[0], env)
                    if isinstance(lv, LV):
                        return SV((('join', septext, lv.stream),))
                    if isinstance(lv, AV) and all(isinstance(o, LV)
                                                  for o in lv.options):
                        return SV((('alt', tuple(
                            (('join', septext, o.stream),)
                            for o in lv.options)),))
                return UV(unparse(e, 60), self.prov(e, env))
            if meth == 'format':
                fmt = self.ev(e.func.value, env)
                if isinstance(fmt, SV) and all(i[0] == 'lit'
                                               for i in fmt.stream) and \
                        not e.keywords:
                    text = ''.join(i[1] for i in fmt.stream)
                    return self._brace_format(text, e.args, env, e)
                return UV(unparse(e, 60), self.prov(e, env))
            if meth == 'isoformat':
                return SV((('dyn', 'isoformat', unparse(e, 60),
                            frozenset(self.prov(e.func.value, env))),))
        if isinstance(e.func, ast.Name) and e.func.id in self.local_defs \
                and not e.keywords and self._inline_depth < 3:
            fd = self.local_defs[e.func.id]
            ps = [a.arg for a in fd.args.args]
            if len(ps) == len(e.args) and not (
                    fd.args.vararg or fd.args.kwarg or fd.args.kwonlyargs):
                env2 = dict(env)
                for p_, a_ in zip(ps, e.args):
                    # parameters stand for the argument expressions: keep
                    # provenance by evaluating in the caller's environment
                    env2[p_] = self.ev(a_, env)
                saved = (self.returns, self._ret_outs)
                self.returns, self._ret_outs = [], ()
                self._inline_depth += 1
                try:
                    self.block(fd.body, env2)
                    rets = self.returns
                finally:
                    self._inline_depth -= 1
                    self.returns, self._ret_outs = saved
                if rets:
                    return rets[0] if len(rets) == 1 else mk_alt(rets)
        if name in ('dumps', 'json.dumps', '_json_dumps') and e.args:
            return SV((('dyn', 'dumps', unparse(e, 60),
                        frozenset(self.prov(e.args[0], env))),))
        if name == 'str' and len(e.args) == 1:
            v = self.ev(e.args[0], env)
            if isinstance(v, SV):
                return v
            return SV((self.dyn_for(e, env),))
        if name == 'repr' and len(e.args) == 1:
            return SV((self.dyn_for(e, env),))
        c = self.ce.ev(e, self.rel)
        if c is not UNKNOWN:
            return SV((('lit', c),)) if isinstance(c, str) else CV(c)
        return UV(unparse(e, 60), self.prov(e, env))

    def ev_list(self, e, env):
        if isinstance(e, ast.Call) and call_name(e) == 'map' and \
                len(e.args) == 2:
            f = e.args[0]
            fake = ast.Call(func=f, args=[ast.Name(id='$elem',
                                                   ctx=ast.Load())],
                            keywords=[])
            env2 = dict(env)
            env2['$elem'] = UV('$elem', {p + '[*]'
                                         for p in self.prov(e.args[1],
                                                            env)})
            v = self._call(fake, env2) if dotted(f) else UV(unparse(e))
            return LV((('rep', (('elem', self.as_stream(
                v, fake, env2, 'str')),)),))
        return self.ev(e, env)

    def _brace_format(self, text, args, env, node):
        stream = ()
        ai = 0
        i = 0
        buf = ''
        while i < len(text):
            ch = text[i]
            if ch == '{' and text[i:i + 2] == '{{':
                buf += '{'
                i += 2
                continue
            if ch == '}' and text[i:i + 2] == '}}':
                buf += '}'
                i += 2
                continue
            if ch == '{':
                j = text.index('}', i)
                field = text[i + 1:j]
                if buf:
                    stream += (('lit', buf),)
                    buf = ''
                idx = ai
                spec = ''
                if ':' in field:
                    field, spec = field.split(':', 1)
                if field.strip().isdigit():
                    idx = int(field)
                elif field.strip():
                    return UV(unparse(node, 60))
                else:
                    ai += 1
                if idx >= len(args):
                    return UV(unparse(node, 60))
                a = args[idx]
                if spec and re.search(r'[eEfFgG%d]', spec):
                    stream += (self.dyn_for(
                        a, env, 'int' if spec.endswith('d') else
                        'float_fixed'),)
                else:
                    stream += self.as_stream(self.ev(a, env), a, env, 'str')
                i = j + 1
                continue
            buf += ch
            i += 1
        if buf:
            stream += (('lit', buf),)
        return SV(_norm(stream))


def _ext_merge(b, vals, wrap):
    """All ``vals`` extend the list value ``b`` -> b + wrap(deltas);
    works option-wise on alternatives of lists.  None when not applicable."""
    if isinstance(b, LV) and all(
            isinstance(v, LV) and v.stream[:len(b.stream)] == b.stream
            for v in vals):
        deltas = [v.stream[len(b.stream):] for v in vals]
        if all(not d for d in deltas):
            return b
        return LV(b.stream + (wrap(deltas),))
    if isinstance(b, AV) and all(isinstance(o, LV) for o in b.options) and \
            all(isinstance(v, AV) and len(v.options) == len(b.options)
                for v in vals):
        outs = []
        for i, bo in enumerate(b.options):
            r = _ext_merge(bo, [v.options[i] for v in vals], wrap)
            if r is None:
                return None
            outs.append(r)
        return AV(outs)
    return None


def _norm(stream):
    """Merge adjacent literals."""
    out = []
    for it in stream:
        if it[0] == 'lit' and out and out[-1][0] == 'lit':
            out[-1] = ('lit', out[-1][1] + it[1])
        elif it[0] == 'lit' and it[1] == '':
            continue
        else:
            out.append(it)
    return tuple(out)


# --------------------------------------------------------------------------
# helpers over streams
# --------------------------------------------------------------------------

def simplify(stream):
    """Inline ''.join(...) items, simplify nested structure, merge lits."""
    out = ()
    for it in stream:
        if it[0] == 'join' and it[1] == '':
            out += simplify(_flatten_list(it[2]))
        elif it[0] == 'join':
            out += (('join', it[1], it[2]),)
        elif it[0] == 'alt':
            opts = []
            for o in it[1]:
                so = simplify(o)
                if len(so) == 1 and so[0][0] == 'alt':
                    opts.extend(so[0][1])
                else:
                    opts.append(so)
            uniq = []
            for o in opts:
                if o not in uniq:
                    uniq.append(o)
            if len(uniq) == 1:
                out += uniq[0]
            else:
                out += (('alt', tuple(uniq)),)
        elif it[0] == 'rep':
            out += (('rep', simplify(it[1])),)
        elif it[0] == 'elem':
            out += simplify(it[1])
        else:
            out += (it,)
    return _norm(out)


def flatten_out(v):
    """Output value (LV of written pieces / SV) -> one string stream."""
    return simplify(_flatten_out(v))


def _flatten_out(v):
    if isinstance(v, SV):
        return v.stream
    if isinstance(v, LV):
        return _flatten_list(v.stream)
    if isinstance(v, AV):
        return (('alt', tuple(_flatten_out(o) for o in v.options)),)
    return (('dyn', 'raw', getattr(v, 'src', '?'), frozenset()),)


def _flatten_list(ls):
    out = ()
    for it in ls:
        if it[0] == 'elem':
            out += it[1]
        elif it[0] == 'rep':
            out += (('rep', _flatten_list(it[1])),)
        elif it[0] == 'alt':
            out += (('alt', tuple(_flatten_list(o) for o in it[1])),)
    return _norm(out)


def iter_dyn(stream):
    for it in stream:
        if it[0] == 'dyn':
            yield it
        elif it[0] == 'alt':
            for o in it[1]:
                yield from iter_dyn(o)
        elif it[0] == 'rep':
            yield from iter_dyn(it[1])
        elif it[0] == 'join':
            yield from iter_dyn(_flatten_list(it[2]))
        elif it[0] == 'elem':
            yield from iter_dyn(it[1])


def render(stream):
    out = []
    for it in stream:
        if it[0] == 'lit':
            out.append(it[1])
        elif it[0] == 'dyn':
            out.append('‹%s:%s›' % (it[1], it[2]))
        elif it[0] == 'alt':
            opts = [render(o) for o in it[1]]
            out.append('⦅' + '│'.join(opts) + '⦆')
        elif it[0] == 'rep':
            out.append('⦅' + render(it[1]) + '⦆*')
        elif it[0] == 'join':
            inner = render(_flatten_list(it[2]))
            if it[1] == '':
                out.append(inner)
            else:
                out.append('join[%s]⦅%s⦆' % (it[1], inner))
        elif it[0] == 'elem':
            out.append(render(it[1]))
    return ''.join(out)
