"""Necessary-condition rules added after the second round of independent
seeded changes.  Each decides one structural clause; none decides the
behaviour as a whole."""
import ast

from .astutil import (body_walk, call_name, const_str, dotted, kwarg,
                      local_assignments, unparse)

TABLE = 'biom/table.py'
PARSE = 'biom/parse.py'

RULE_TEXT = {
    'TA-PATHNAME': 'Every dataset general_formatter creates for a category '
                   'is named through the "/"-escaping of the category name.',
    'TA-TEXTPAYLOAD': 'Metadata text handed to the HDF5 writers reaches the '
                      'dataset through encode() only; no trimming / case / '
                      'replace step outside the enumerated flat-string '
                      'coercion helper.',
    'AG-DATEINV': 'The JSON reader parses the date with the inverse of the '
                  'writer\'s isoformat() (fromisoformat), not a fixed '
                  'strptime layout.',
    'AG-TSVSEP': 'The list processor keeps every element of the split.',
    'OR-VALIDATE-FIRST': 'Table.filter hands the caller\'s selection and '
                         'invert flag to the kernel unchanged, so that the '
                         'kernel\'s unknown-id check sees them.',
    'SB-OPERANDS': '_fast_merge combines every operand it is given.',
    'AG-UCKINDS': 'parse_uc accepts hit, seed and library-seed records.',
    'SB-RECORDS-ALL': 'from_adjacency builds the matrix from every record, '
                      'or states the shape explicitly.',
    'OR-CONVERT-ALL': 'MetadataMap.from_file applies the registered '
                      'converter to every field of its column.',
    'TA-ACCDTYPE': 'The one-to-many accumulator holds floats or the '
                   'table\'s own dtype.',
    'SB-BYID': 'The same-axis emptiness filter of subsample belongs to the '
               'count-drawing branch only.',
    'TA-REPR': 'Equality does not compare floating aggregates whose value '
               'depends on the summation order.',
}


def _parents(fn):
    par = {}
    for p in ast.walk(fn):
        for c in ast.iter_child_nodes(p):
            par[id(c)] = p
    return par


# ---------------------------------------------------------------------------
def rule_pathname(repo, col):
    rule = 'TA-PATHNAME'
    fn = repo.func(TABLE, 'general_formatter')
    assigns = local_assignments(fn)

    def raw_header(e, depth=0):
        """True when the expression mentions `header` without the '/'
        replacement on the way."""
        if isinstance(e, ast.Call) and isinstance(e.func, ast.Attribute) \
                and e.func.attr == 'replace' and e.args and \
                const_str(e.args[0]) == '/':
            return False
        if isinstance(e, ast.Name):
            if e.id == 'header':
                return True
            if e.id in assigns and depth < 5:
                return any(v is not None and raw_header(v, depth + 1)
                           for v, _ in assigns[e.id])
            return False
        return any(raw_header(c, depth) for c in ast.iter_child_nodes(e))

    sites = [n for n in body_walk(fn) if isinstance(n, ast.Call) and
             isinstance(n.func, ast.Attribute) and
             n.func.attr == 'create_dataset' and n.args]
    for i, n in enumerate(sites):
        col.check(not raw_header(n.args[0]), rule, TABLE,
                  'general_formatter', 'dataset-name#%d' % (i + 1), n,
                  'the dataset name is built from the escaped category',
                  'a dataset is created under the raw category name: a "/" '
                  'in the category makes HDF5 create nested groups and the '
                  'reader (which un-escapes names) finds another category')
    col.soft(len(sites) >= 1, rule, TABLE, 'general_formatter', 'instances',
             fn, '%d create_dataset sites' % len(sites),
             'no create_dataset call found')


STR_TRANSFORMS = {'strip', 'lstrip', 'rstrip', 'lower', 'upper', 'title',
                  'capitalize', 'swapcase', 'casefold', 'replace',
                  'expandtabs', 'zfill', 'translate', 'removeprefix',
                  'removesuffix', 'center', 'ljust', 'rjust'}


def rule_text_payload(repo, col):
    rule = 'TA-TEXTPAYLOAD'
    for q in ('general_formatter', 'vlen_list_of_str_formatter'):
        fn = repo.func(TABLE, q)
        skip = set()
        # pieces of a split flat string (the documented 'a; b' -> list
        # coercion) may be trimmed: names bound to `.split(...)` results or
        # iterating over them
        def has_split(e):
            return any(isinstance(x, ast.Call) and isinstance(
                x.func, ast.Attribute) and x.func.attr == 'split'
                for x in ast.walk(e))
        split_names = set()
        grew = True
        while grew:
            grew = False
            for n in ast.walk(fn):
                tgt = src = None
                if isinstance(n, ast.Assign) and len(n.targets) == 1:
                    tgt, src = n.targets[0], n.value
                elif isinstance(n, (ast.For, ast.comprehension)):
                    tgt, src = n.target, n.iter
                if tgt is None or not isinstance(tgt, ast.Name) or \
                        tgt.id in split_names:
                    continue
                if has_split(src) or (isinstance(src, ast.Name) and
                                      src.id in split_names):
                    split_names.add(tgt.id)
                    grew = True
        # names that carry metadata values
        tainted = {'md', 'm'}
        changed = True
        while changed:
            changed = False
            for n in ast.walk(fn):
                tgt = src = None
                if isinstance(n, ast.Assign) and len(n.targets) == 1:
                    tgt, src = n.targets[0], n.value
                elif isinstance(n, (ast.For, ast.comprehension)):
                    tgt, src = n.target, n.iter
                if tgt is None:
                    continue
                if any(isinstance(x, ast.Name) and x.id in tainted
                       for x in ast.walk(src)):
                    for x in ast.walk(tgt):
                        if isinstance(x, ast.Name) and x.id not in tainted \
                                and x.id not in ('header', 'grp', 'i',
                                                 'shape', 'lengths'):
                            tainted.add(x.id)
                            changed = True
        bad = []
        n_enc = 0
        for n in ast.walk(fn):
            if id(n) in skip or not (isinstance(n, ast.Call) and isinstance(
                    n.func, ast.Attribute)):
                continue
            recv_names = {x.id for x in ast.walk(n.func.value)
                          if isinstance(x, ast.Name)}
            if not (recv_names & tainted):
                continue
            if n.func.attr == 'encode':
                n_enc += 1
            if n.func.attr in STR_TRANSFORMS and not (
                    isinstance(n.func.value, ast.Name) and
                    n.func.value.id in split_names):
                bad.append(n)
        col.check(not bad, rule, TABLE, q, 'payload', bad[0] if bad else fn,
                  'metadata text is only encoded (%d encode sites)' % n_enc,
                  'metadata text passes through `%s` before it is written: '
                  'the stored payload differs from the table\'s text'
                  % (unparse(bad[0], 80) if bad else ''))


def rule_date_inverse(repo, col):
    rule = 'AG-DATEINV'
    fn = repo.func(TABLE, 'Table.from_json')
    # the reader and the helpers it calls on the Table class / module
    fns = [fn]
    mod = repo.mod(TABLE)
    for n in ast.walk(fn):
        if isinstance(n, ast.Call):
            d = call_name(n) or ''
            last = d.split('.')[-1]
            for cand in ('Table.' + last, last):
                if cand in mod.defs and isinstance(
                        mod.defs[cand], ast.FunctionDef) and \
                        mod.defs[cand] not in fns and last not in (
                            'Table', '__init__'):
                    fns.append(mod.defs[cand])
    iso = [n for f in fns for n in ast.walk(f) if isinstance(n, ast.Call)
           and (call_name(n) or '').endswith('fromisoformat')]
    strp = [n for f in fns for n in ast.walk(f) if isinstance(n, ast.Call)
            and (call_name(n) or '').endswith('strptime')]
    if strp and not iso:
        col.bad(rule, TABLE, 'Table.from_json', 'date-parser', strp[0],
                'the date is parsed with a fixed strptime layout: '
                'isoformat() omits the fraction when microseconds are 0 and '
                'appends a UTC offset for aware datetimes, so such dates do '
                'not read back')
    else:
        col.soft(bool(iso), rule, TABLE, 'Table.from_json', 'date-parser',
                 iso[0] if iso else fn, 'fromisoformat inverts isoformat',
                 'no fromisoformat call found in the reader')


def rule_processor_keeps_all(repo, col):
    rule = 'AG-TSVSEP'
    CONV = 'biom/cli/table_converter.py'
    m = repo.mod(CONV)
    found = 0
    for n in ast.walk(m.tree):
        if isinstance(n, ast.Assign) and len(n.targets) == 1 and \
                dotted(n.targets[0]) == 'observation_metadata_types' and \
                isinstance(n.value, ast.Dict):
            for k, v in zip(n.value.keys, n.value.values):
                if isinstance(v, ast.Name) and v.id in m.defs and \
                        isinstance(m.defs[v.id], ast.FunctionDef):
                    v = m.defs[v.id]
                if not isinstance(v, (ast.Lambda, ast.FunctionDef)):
                    continue
                comps = [c for c in ast.walk(v) if isinstance(
                    c, (ast.ListComp, ast.GeneratorExp))]
                splits = [c for c in ast.walk(v) if isinstance(c, ast.Call)
                          and isinstance(c.func, ast.Attribute) and
                          c.func.attr == 'split']
                if not splits:
                    continue
                found += 1
                filt = [g for c in comps for g in c.generators if g.ifs]
                fcall = [c for c in ast.walk(v) if isinstance(c, ast.Call)
                         and call_name(c) == 'filter']
                col.check(not filt and not fcall, rule, CONV, '<module>',
                          'keeps-all:%s' % const_str(k), v,
                          'every element of the split is kept',
                          'the processor drops elements of the split (`%s`): '
                          'a list with an empty level does not read back'
                          % unparse(v, 100))
    col.soft(found >= 1, rule, CONV, '<module>', 'keeps-all:instances',
             None, '%d splitting processors' % found,
             'no splitting processor found')


def rule_filter_passthrough(repo, col):
    rule = 'OR-VALIDATE-FIRST'
    fn = repo.func(TABLE, 'Table.filter')
    calls = [n for n in body_walk(fn) if isinstance(n, ast.Call) and
             call_name(n) == '_filter']
    if not calls:
        col.unknown(rule, TABLE, 'Table.filter', 'passthrough', fn,
                    'kernel call not found')
        return
    c = calls[0]
    stores = {}
    for n in body_walk(fn):
        if isinstance(n, (ast.Assign, ast.AugAssign)):
            tg = n.targets if isinstance(n, ast.Assign) else [n.target]
            for t in tg:
                for x in ast.walk(t):
                    if isinstance(x, ast.Name) and isinstance(
                            x.ctx, ast.Store):
                        stores.setdefault(x.id, []).append(n)
    for pname, pos in (('ids_to_keep', 4), ('invert', 6)):
        a = kwarg(c, pname) or (c.args[pos] if len(c.args) > pos else None)
        if a is None:
            col.unknown(rule, TABLE, 'Table.filter', 'passthrough:' + pname,
                        c, 'argument not found')
            continue
        ok = isinstance(a, ast.Name) and a.id == pname and \
            pname not in stores
        col.check(ok, rule, TABLE, 'Table.filter', 'passthrough:' + pname,
                  stores[pname][0] if pname in stores else c,
                  'the caller\'s %s reaches the kernel unchanged' % pname,
                  'Table.filter rewrites `%s` before the kernel sees it: '
                  'the kernel is where unknown ids are refused and where '
                  'the inversion is applied, so the rewritten selection '
                  'bypasses both' % pname)


def rule_fast_merge_operands(repo, col):
    rule = 'SB-OPERANDS'
    fn = repo.func(TABLE, 'Table._fast_merge')
    assigns = local_assignments(fn)
    vals = [v for v, _ in assigns.get('tables', []) if v is not None]
    if not vals:
        col.unknown(rule, TABLE, 'Table._fast_merge', 'operands', fn,
                    'operand list not recognised')
        return
    for v in vals:
        filt = [g for c in ast.walk(v) if isinstance(
            c, (ast.ListComp, ast.GeneratorExp)) for g in c.generators
            if g.ifs]
        fcall = [c for c in ast.walk(v) if isinstance(c, ast.Call) and
                 call_name(c) == 'filter']
        mentions = {x.id for x in ast.walk(v) if isinstance(x, ast.Name)}
        ok = not filt and not fcall and {'self', 'others'} <= mentions
        col.check(ok, rule, TABLE, 'Table._fast_merge', 'operands', v,
                  'the receiver and every other table take part',
                  'the operand list is filtered (`%s`): the ids of a '
                  'dropped operand are missing from the union'
                  % unparse(v, 100))


def rule_uc_kinds(repo, col):
    from .consteval import ConstEval
    rule = 'AG-UCKINDS'
    fn = repo.func(PARSE, 'parse_uc')
    assigns = local_assignments(fn)
    vals = [v for v, _ in assigns.get('line_types', []) if v is not None]
    got = None
    if len(vals) == 1:
        try:
            got = ConstEval(repo).ev(vals[0], PARSE)
        except Exception:
            got = None
    if not isinstance(got, (set, frozenset, tuple, list, str)):
        col.unknown(rule, PARSE, 'parse_uc', 'record-kinds', fn,
                    'accepted record kinds not evaluable')
        return
    col.check(set(got) >= {'H', 'S', 'L'}, rule, PARSE, 'parse_uc',
              'record-kinds', vals[0],
              'H, S and L records are processed',
              'accepted record kinds are %s: seeds that only appear as '
              'library seeds (L) or hits/seeds are no longer registered as '
              'observations' % sorted(got))


def rule_adjacency_all_records(repo, col):
    rule = 'SB-RECORDS-ALL'
    fn = repo.func(TABLE, 'Table.from_adjacency')
    ctor = [n for n in body_walk(fn) if isinstance(n, ast.Call) and
            (call_name(n) or '').split('.')[-1] in ('coo_matrix',
                                                    'csr_matrix',
                                                    'csc_matrix')]
    if not ctor:
        col.unknown(rule, TABLE, 'Table.from_adjacency', 'matrix', fn,
                    'matrix constructor not found')
        return
    c = ctor[0]
    has_shape = kwarg(c, 'shape') is not None or len(c.args) > 1
    masked = [x for x in ast.walk(c.args[0]) if isinstance(x, ast.Subscript)
              ] if c.args else []
    col.check(has_shape or not masked, rule, TABLE, 'Table.from_adjacency',
              'matrix', c, 'all records (or an explicit shape) define the '
              'matrix', 'the coordinate arrays are subset (`%s`) and no '
              'shape is given: the inferred shape no longer covers ids that '
              'only occur in dropped records, so ids and matrix disagree'
              % (unparse(masked[0], 60) if masked else ''))


def rule_converter_every_field(repo, col):
    rule = 'OR-CONVERT-ALL'
    fn = repo.func(PARSE, 'MetadataMap.from_file')
    par = _parents(fn)
    sites = []
    for n in ast.walk(fn):
        if isinstance(n, ast.Call):
            f = n.func
            # process_fns[k](v)  or  fn(v) with fn = process_fns.get(k)
            direct = isinstance(f, ast.Subscript) and \
                dotted(f.value) == 'process_fns'
            via = False
            if isinstance(f, ast.Name):
                for v, _ in local_assignments(fn).get(f.id, []):
                    if v is not None and 'process_fns' in unparse(v):
                        via = True
            if direct or via:
                sites.append(n)
    if not sites:
        col.unknown(rule, PARSE, 'MetadataMap.from_file', 'apply', fn,
                    'converter application not found')
        return
    for n in sites:
        # conditions on the field value between the field loop and the call
        cur, cond = n, None
        while id(cur) in par:
            p = par[id(cur)]
            if isinstance(p, (ast.For,)):
                break
            if isinstance(p, (ast.If, ast.IfExp)) and cur is not p.test:
                names = {x.id for x in ast.walk(p.test)
                         if isinstance(x, ast.Name)}
                argn = {x.id for a in n.args for x in ast.walk(a)
                        if isinstance(x, ast.Name)}
                if names & argn:
                    cond = p.test
                    break
            cur = p
        col.check(cond is None, rule, PARSE, 'MetadataMap.from_file',
                  'apply', n, 'the converter is applied to every field',
                  'the converter is only applied when `%s`: fields failing '
                  'the test keep their raw text although a converter is '
                  'registered for the column'
                  % (unparse(cond, 60) if cond is not None else ''))


def rule_acc_dtype(repo, col):
    rule = 'TA-ACCDTYPE'
    fn = repo.func(TABLE, 'Table.collapse')
    assigns = local_assignments(fn)
    sites = [n for n in body_walk(fn) if isinstance(n, ast.Call) and
             (call_name(n) or '').split('.')[-1] in ('dok_matrix',
                                                     'lil_matrix')]
    if not sites:
        col.unknown(rule, TABLE, 'Table.collapse', 'accumulator', fn,
                    'accumulator allocation not found')
        return

    def leaves(e, depth=0):
        if isinstance(e, ast.IfExp):
            return leaves(e.body, depth) + leaves(e.orelse, depth)
        if isinstance(e, ast.Name) and e.id in assigns and depth < 4:
            out = []
            for v, _ in assigns[e.id]:
                if v is not None:
                    out += leaves(v, depth + 1)
            return out or [e]
        return [e]
    OKD = {'np.float64', 'float', 'self.dtype', 'np.float_', 'np.double',
           'numpy.float64', 'self._data.dtype', 'self.matrix_data.dtype'}
    for n in sites:
        d = kwarg(n, 'dtype')
        if d is None:
            col.ok(rule, TABLE, 'Table.collapse', 'accumulator', n,
                   'default dtype (float64)')
            continue
        lv = leaves(d)
        badl = [x for x in lv if not (dotted(x) in OKD or (
            const_str(x) in ('float', 'float64', 'd', 'f8')))]
        col.check(not badl, rule, TABLE, 'Table.collapse', 'accumulator', n,
                  'accumulator dtype is float64 or the table\'s dtype',
                  'the accumulator is allocated with dtype `%s`: fractional '
                  'values added into it are truncated'
                  % (unparse(badl[0]) if badl else ''))


def rule_byid_branch(repo, col):
    rule = 'SB-BYID'
    fn = repo.func(TABLE, 'Table.subsample')
    par = _parents(fn)
    ifs = [n for n in body_walk(fn) if isinstance(n, ast.If) and (
        dotted(n.test) == 'by_id' or (
            isinstance(n.test, ast.UnaryOp) and isinstance(
                n.test.op, ast.Not) and dotted(n.test.operand) == 'by_id'))]
    if not ifs:
        col.unknown(rule, TABLE, 'Table.subsample', 'by-id-branch', fn,
                    'by_id branch not found')
        return
    top = ifs[0]
    neg = isinstance(top.test, ast.UnaryOp) and isinstance(top.test.op,
                                                           ast.Not)
    byid_body = top.orelse if neg else top.body
    inside = set()
    for st in byid_body:
        inside.update(id(x) for x in ast.walk(st))
    in_if = set(id(x) for x in ast.walk(top))
    bad = []
    for n in body_walk(fn):
        if isinstance(n, ast.Call) and isinstance(n.func, ast.Attribute) \
                and n.func.attr == 'filter' and 'sum' in unparse(n) and \
                isinstance(kwarg(n, 'axis'), ast.Name) and \
                kwarg(n, 'axis').id == 'axis':
            if id(n) in inside or id(n) not in in_if:
                bad.append(n)
    col.check(not bad, rule, TABLE, 'Table.subsample', 'by-id-branch',
              bad[0] if bad else top,
              'the same-axis emptiness filter runs only after drawing '
              'counts', 'with by_id=True the selected ids are additionally '
              'filtered by their sum: an all-zero (or cancelling) vector '
              'that was selected by id disappears from the result')


def rule_eq_aggregates(repo, col):
    rule = 'TA-REPR'
    for q in ('Table.__eq__', 'Table.__ne__', 'Table.descriptive_equality',
              'Table._data_equality'):
        fn = repo.func(TABLE, q)
        bad = [n for n in body_walk(fn) if isinstance(n, ast.Call) and
               isinstance(n.func, ast.Attribute) and
               n.func.attr in ('sum', 'mean', 'std', 'var', 'prod', 'dot',
                               'norm', 'cumsum')
               and not (isinstance(n.func.value, ast.Compare) or isinstance(
                   n.func.value, ast.Call) and isinstance(
                   n.func.value.func, ast.Attribute) and False)
               and not _is_boolean_reduction(n)]
        col.check(not bad, rule, TABLE, q, 'no-float-aggregate',
                  bad[0] if bad else fn, 'no floating aggregate compared',
                  'equality compares `%s`: a floating-point aggregate '
                  'depends on the order in which the stored entries are '
                  'added, which differs between layouts of equal content'
                  % (unparse(bad[0], 60) if bad else ''))


def _is_boolean_reduction(call):
    """(a != b).sum() style counts of a comparison are exact."""
    v = call.func.value
    while isinstance(v, ast.Attribute):
        v = v.value
    if isinstance(v, ast.Compare):
        return True
    if isinstance(v, ast.Call) and isinstance(v.func, ast.Attribute) and \
            isinstance(v.func.value, ast.Compare):
        return True
    return False


def rule_loop_rebind(repo, col):
    """EF-RETNEW: in the operations documented to return a new table, a
    result name that starts out as the receiver and is rebound to a factory
    result inside a loop is rebound on every iteration."""
    from .rules_effects import NEW_TABLE_OPS
    rule = 'EF-RETNEW'
    n_sites = 0
    for m in NEW_TABLE_OPS:
        q = 'Table.' + m
        if not repo.has_func(TABLE, q):
            continue
        fn = repo.func(TABLE, q)
        ret_names = {r.value.id for r in body_walk(fn)
                     if isinstance(r, ast.Return) and
                     isinstance(r.value, ast.Name)}
        assigns = local_assignments(fn)
        for r in sorted(ret_names):
            vals = assigns.get(r, [])
            if not any(isinstance(v, ast.Name) and v.id == 'self'
                       for v, _ in vals):
                continue
            for loop in [n for n in body_walk(fn) if isinstance(n, ast.For)]:
                rebinds = [st for st in ast.walk(loop)
                           if isinstance(st, ast.Assign) and any(
                               isinstance(t, ast.Name) and t.id == r
                               for t in st.targets)]
                if not rebinds:
                    continue
                n_sites += 1
                direct = [st for st in loop.body if st in rebinds]
                early = []
                if direct:
                    idx = loop.body.index(direct[0])
                    for st in loop.body[:idx]:
                        early += [x for x in ast.walk(st) if isinstance(
                            x, (ast.Continue, ast.Break))]
                ok = bool(direct) and not early
                col.check(ok, rule, TABLE, q, 'rebind:%s' % r,
                          early[0] if early else rebinds[0],
                          'every iteration rebinds the result to a new '
                          'table', 'an iteration can skip the rebinding of '
                          '`%s`, which starts out as the receiver: the '
                          'operation then returns the receiver itself '
                          'instead of a new table' % r)
    col.ok(rule, TABLE, '<new-table ops>', 'scan', None,
           '%d loop-rebound results examined' % n_sites)


RULE_TEXT['EF-RETNEW'] = ' '.join(rule_loop_rebind.__doc__.split())


def rule_empty_accumulation(repo, col):
    """OR-EMPTYACC: a list accumulated by appends in a loop (it may stay
    empty) is handed to the matrix converter only under an emptiness guard or
    together with the shape: the converter cannot infer the other axis'
    length from an empty list."""
    rule = 'OR-EMPTYACC'
    mod = repo.mod(TABLE)
    cls = repo.cls(TABLE, 'Table')
    n_sites = 0
    for fn in cls.body:
        if not isinstance(fn, ast.FunctionDef):
            continue
        q = 'Table.' + fn.name
        assigns = local_assignments(fn)
        par = _parents(fn)
        acc = set()
        for name, vals in assigns.items():
            if any(isinstance(v, ast.List) and not v.elts for v, _ in vals
                   if v is not None):
                for n in body_walk(fn):
                    if isinstance(n, ast.Call) and isinstance(
                            n.func, ast.Attribute) and n.func.attr in (
                            'append', 'extend') and isinstance(
                            n.func.value, ast.Name) and \
                            n.func.value.id == name:
                        cur = n
                        while id(cur) in par:
                            cur = par[id(cur)]
                            if isinstance(cur, (ast.For, ast.While)):
                                acc.add(name)
                                break
        if not acc:
            continue
        for n in body_walk(fn):
            if not (isinstance(n, ast.Call) and isinstance(
                    n.func, ast.Attribute) and n.func.attr in (
                    '_conv_to_self_type', '_to_sparse') and n.args and
                    isinstance(n.args[0], ast.Name) and
                    n.args[0].id in acc):
                continue
            name = n.args[0].id
            n_sites += 1
            if kwarg(n, 'shape') is not None:
                col.ok(rule, TABLE, q, 'convert:%s' % name, n,
                       'the shape accompanies the list')
                continue
            # guarded by a test on the list (enclosing If / IfExp) or by an
            # earlier `if not L: raise/return`
            guarded = False
            cur = n
            while id(cur) in par and not guarded:
                p = par[id(cur)]
                if isinstance(p, (ast.If, ast.IfExp)) and cur is not p.test \
                        and any(isinstance(x, ast.Name) and x.id == name
                                for x in ast.walk(p.test)):
                    guarded = True
                for fld in ('body', 'orelse'):
                    blk = getattr(p, fld, None)
                    if isinstance(blk, list) and cur in blk:
                        for st in blk[:blk.index(cur)]:
                            if isinstance(st, ast.If) and any(
                                    isinstance(x, ast.Name) and x.id == name
                                    for x in ast.walk(st.test)):
                                # leaves on emptiness, or replaces the empty
                                # list by something that carries a shape
                                if st.body and isinstance(
                                        st.body[-1], (ast.Raise,
                                                      ast.Return)):
                                    guarded = True
                                if any(isinstance(x, ast.Assign) and any(
                                        isinstance(t, ast.Name) and
                                        t.id == name for t in x.targets)
                                        for b in st.body + st.orelse
                                        for x in ast.walk(b)):
                                    guarded = True
                cur = p
            col.check(guarded, rule, TABLE, q, 'convert:%s' % name, n,
                      'an empty accumulation is handled separately',
                      '`%s` may still be empty here (no group / vector '
                      'passed the loop); the converter then returns a 0x0 '
                      'matrix whatever the length of the other axis, and '
                      'the table built from it has a shape that disagrees '
                      'with its ids' % name)
    col.ok(rule, TABLE, '<Table>', 'scan', None,
           '%d converter calls on loop-accumulated lists' % n_sites)


RULE_TEXT['OR-EMPTYACC'] = ' '.join(rule_empty_accumulation.__doc__.split())


def rule_all_kinds_scanned(repo, col):
    """OR-ALLKINDS: ErrorProfile.test goes on to the remaining error kinds
    when the reaction of a firing kind produced nothing (ignored / only
    reported); only a reaction result ends the scan."""
    rule = 'OR-ALLKINDS'
    ERR = 'biom/err.py'
    fn = repo.func(ERR, 'ErrorProfile.test')
    loops = [n for n in body_walk(fn) if isinstance(n, ast.For)]
    if not loops:
        col.unknown(rule, ERR, 'ErrorProfile.test', 'scan', fn,
                    'loop over the error kinds not found')
        return
    loop = loops[0]
    par = _parents(loop)
    rets = [n for n in ast.walk(loop) if isinstance(n, ast.Return)]
    if not rets:
        col.ok(rule, ERR, 'ErrorProfile.test', 'scan', loop,
               'the loop never returns early')
        return
    for r in rets:
        v = r.value
        direct = isinstance(v, ast.Call) and (call_name(v) or '').endswith(
            '_handle_error')
        guarded = False
        if isinstance(v, ast.Name):
            cur = r
            while id(cur) in par:
                p = par[id(cur)]
                if isinstance(p, ast.If) and any(
                        isinstance(x, ast.Name) and x.id == v.id
                        for x in ast.walk(p.test)):
                    guarded = True
                    break
                cur = p
        col.check(guarded and not direct, rule, ERR, 'ErrorProfile.test',
                  'scan', r, 'the scan ends only on a reaction result',
                  'the scan over the error kinds returns at the first kind '
                  'that fires even when its reaction is to ignore it: '
                  '\'empty\' sorts first and is ignored by default, so a '
                  'table with an empty axis is never checked for size '
                  'mismatches or duplicate ids')


RULE_TEXT['OR-ALLKINDS'] = ' '.join(rule_all_kinds_scanned.__doc__.split())
