"""OR-CANON: structure-sensitive consumers of sparse matrices must see a
canonical matrix (no explicitly stored zeros); TA-REPR and SB-EQ for the
equality methods (C16, and clauses of C05/C13/C17/C19/C09)."""
import ast

from .astutil import (body_walk, call_name, const_str, dotted, kwarg,
                      local_assignments, param_names, target_names, unparse,
                      walk_shallow)
from .cfg import CFG
from .source import AnalysisError

TABLE = 'biom/table.py'

# value-preserving operations that never create stored zeros (scipy contract)
PRESERVING = {'tocsr', 'tocsc', 'tocoo', 'asformat', 'astype', 'copy',
              'transpose', 'getrow', 'getcol', 'tolil', 'todok'}
KERNELS_DIRTY = {'subsample', '_transform'}   # write zeros into .data
CANON, NONCANON, INV, TOP = 'CANON', 'NONCANON', 'INV', 'TOP'


def _is_data_of(e):
    """X._data / X.matrix_data -> X (dotted) else None"""
    d = dotted(e)
    if d and (d.endswith('._data') or d.endswith('.matrix_data')):
        return d.rsplit('.', 1)[0]
    return None


class CanonState:
    """Flow-sensitive canonical-state tracking over one function.

    States: CANON (no stored zeros for sure), NONCANON (may hold stored
    zeros), INV (as canonical as a table's _data is by the global
    invariant), TOP (unknown).
    """

    def __init__(self, func, is_init=False):
        self.func = func
        self.is_init = is_init
        self.stores = []        # (stmt, target, state)
        self.final = {}
        self.events = []        # (node, name, state) eliminate calls etc.

    def state_of(self, e, env):
        if isinstance(e, ast.Name):
            return env.get(e.id, TOP)
        owner = _is_data_of(e)
        if owner is not None:
            key = owner + '._data'
            if key in env:
                return env[key]
            return INV
        if isinstance(e, ast.Call):
            name = call_name(e) or ''
            if isinstance(e.func, ast.Attribute):
                if e.func.attr in PRESERVING:
                    return self.state_of(e.func.value, env)
                if e.func.attr == '_get_sparse_data':
                    return env.get(dotted(e.func.value) + '._data', INV)
                if e.func.attr in ('_get_row', '_get_col'):
                    return env.get(dotted(e.func.value) + '._data', INV)
            if name.endswith('_to_sparse') or name in (
                    'Table._to_sparse', 'self._conv_to_self_type'):
                # the converters canonicalise, but sparse input is passed
                # through untouched
                return NONCANON
            if name in ('csr_matrix', 'csc_matrix', 'coo_matrix'):
                return NONCANON
            if name == '_filter' and e.args:
                return self.state_of(e.args[0], env)
            if name in ('vstack', 'hstack') and e.args:
                return TOP
        if isinstance(e, ast.Subscript):
            # fancy indexing / slicing of a matrix preserves canonicity
            return self.state_of(e.value, env)
        if isinstance(e, ast.Attribute) and e.attr == 'T':
            return self.state_of(e.value, env)
        return TOP

    def run(self, param_states=None):
        env = dict(param_states or {})
        env = self._block(self.func.body, env)
        self.final = env
        return self

    def _join(self, a, b):
        out = {}
        for k in set(a) | set(b):
            # a table's _data not mentioned on a path keeps its invariant
            dflt = INV if k.endswith('._data') else TOP
            x, y = a.get(k, dflt), b.get(k, dflt)
            if x == y:
                out[k] = x
            elif NONCANON in (x, y):
                out[k] = NONCANON
            elif {x, y} == {CANON, INV}:
                out[k] = INV
            else:
                out[k] = TOP
        return out

    def _block(self, stmts, env):
        for st in stmts:
            env = self._stmt(st, env)
        return env

    def _stmt(self, st, env):
        if isinstance(st, ast.If):
            a = self._block(st.body, dict(env))
            b = self._block(st.orelse, dict(env))
            ta = _terminates(st.body)
            tb = _terminates(st.orelse) if st.orelse else False
            if ta and not tb:
                return b
            if tb and not ta:
                return a
            return self._join(a, b)
        if isinstance(st, (ast.For, ast.While)):
            once = self._block(st.body, dict(env))
            env = self._join(env, once)
            twice = self._block(st.body, dict(env))
            return self._join(env, twice)
        if isinstance(st, (ast.With,)):
            return self._block(st.body, env)
        if isinstance(st, ast.Try):
            a = self._block(st.body, dict(env))
            for h in st.handlers:
                a = self._join(a, self._block(h.body, dict(env)))
            a = self._block(st.orelse, a)
            return self._block(st.finalbody, a)
        if isinstance(st, (ast.FunctionDef, ast.ClassDef)):
            return env
        # calls with effects on matrices
        for c in walk_shallow(st):
            if isinstance(c, ast.Call):
                name = call_name(c) or ''
                if isinstance(c.func, ast.Attribute) and \
                        c.func.attr == 'eliminate_zeros':
                    tgt = c.func.value
                    key = dotted(tgt)
                    if key:
                        env = dict(env)
                        env[key] = CANON
                        self.events.append((c, key, CANON))
                        # aliases: names assigned from this key keep their
                        # own entry; X._data alias handled by same key
                if name in KERNELS_DIRTY and c.args:
                    key = dotted(c.args[0])
                    if key:
                        env = dict(env)
                        env[key] = NONCANON
                # reading the nnz property eliminates in place
                if False:
                    pass
            if isinstance(c, ast.Attribute) and c.attr == 'nnz' and \
                    isinstance(c.ctx, ast.Load):
                owner = dotted(c.value)
                if owner and not owner.endswith('_data') and \
                        not owner.endswith('matrix_data') and \
                        owner in ('self', 'table', 'other', 't', 'result'):
                    env = dict(env)
                    env[owner + '._data'] = CANON
        if isinstance(st, ast.Assign):
            val_state = self.state_of(st.value, env)
            env = dict(env)
            for t in st.targets:
                if isinstance(t, ast.Name):
                    env[t.id] = val_state
                elif isinstance(t, ast.Attribute) and t.attr == '_data':
                    owner = dotted(t.value)
                    env[owner + '._data'] = val_state
                    self.stores.append((st, owner, val_state))
                elif isinstance(t, (ast.Tuple, ast.List)):
                    # arr, ids, metadata = _filter(arr, ...)
                    if isinstance(st.value, ast.Call) and \
                            call_name(st.value) == '_filter':
                        names = target_names(t)
                        if names:
                            env[names[0]] = val_state
                            for nm in names[1:]:
                                env[nm] = TOP
                    else:
                        for nm in target_names(t):
                            env[nm] = TOP
        return env


def _terminates(stmts):
    return bool(stmts) and isinstance(stmts[-1], (ast.Return, ast.Raise,
                                                  ast.Continue, ast.Break))


_G_CACHE = {}


def invariant_g(repo):
    """(holds, details): every value stored into a table's ``_data`` is
    canonical: the constructor ends with a canonical matrix on every path and
    every other store installs a canonical / invariant-preserving value."""
    key = repo.digest()
    if key in _G_CACHE:
        return _G_CACHE[key]
    details = []
    holds = True
    init = repo.func(TABLE, 'Table.__init__')
    cs = CanonState(init, is_init=True).run({'data': NONCANON})
    st = cs.final.get('self._data', TOP)
    details.append(('Table.__init__', 'final-state', init, st))
    if st != CANON:
        holds = False
    n_stores = 0
    for rel, q, f in repo.all_functions():
        if rel.endswith('.pyx') or q == 'Table.__init__':
            continue
        if not any(isinstance(n, ast.Attribute) and n.attr == '_data' and
                   isinstance(n.ctx, ast.Store) for n in ast.walk(f)):
            continue
        cs2 = CanonState(f).run()
        for stn, owner, state in cs2.stores:
            n_stores += 1
            details.append((q, 'store:%s' % owner, stn, state))
            if state not in (CANON, INV):
                holds = False
    res = (holds, details, n_stores)
    _G_CACHE[key] = res
    return res


def rule_invariant_g(repo, col):
    """Global discharge (G) of OR-CANON: the constructor canonicalises its
    own copy of the matrix and every later store into ``_data`` installs a
    canonical or invariant-preserving value."""
    rule = 'OR-CANON'
    holds, details, n = invariant_g(repo)
    for q, role, node, state in details:
        rel = TABLE
        if role == 'final-state':
            col.add(rule, rel, q, 'G:' + role, None,
                    'discharged' if state == CANON else 'info',
                    'constructor leaves _data %s' % state)
        else:
            if state in (CANON, INV):
                col.ok(rule, rel, q, 'G:' + role, node,
                       'installs a %s matrix' % state)
            elif holds is False and state == NONCANON:
                col.info(rule, rel, q, 'G:' + role, node,
                         'installs a possibly non-canonical matrix')
            else:
                col.info(rule, rel, q, 'G:' + role, node,
                         'state %s' % state)
    # the constructor's elimination must act on the table's own copy
    init = repo.func(TABLE, 'Table.__init__')
    elim = None
    copied = None
    order = []
    for n in body_walk(init):
        if isinstance(n, ast.Call) and isinstance(n.func, ast.Attribute):
            if n.func.attr == 'eliminate_zeros' and \
                    dotted(n.func.value) == 'self._data':
                elim = n
                order.append('elim')
            if n.func.attr in ('astype', 'copy') and \
                    dotted(n.func.value) == 'self._data':
                cp = kwarg(n, 'copy')
                if cp is None or (isinstance(cp, ast.Constant) and
                                  cp.value is True):
                    copied = n
                    order.append('copy')
    if elim is not None:
        col.check(copied is not None and order.index('copy') <
                  order.index('elim'), 'EF-FRESH', TABLE, 'Table.__init__',
                  'eliminate-own-copy', elim,
                  'stored zeros are eliminated from the copy made by '
                  'astype, not from the caller\'s matrix',
                  'eliminate_zeros() in the constructor acts on a matrix '
                  'that may still be the caller\'s (no copying astype/copy '
                  'before it): constructing a table mutates its input')
    return holds


# --------------------------------------------------------------------------
# consumers
# --------------------------------------------------------------------------

def _matrix_names(func, extra=None):
    """Local names bound to matrices derived from a table's _data, and
    names bound to sparse *vectors* of a table (iteration elements)."""
    mats = dict(extra or {})
    changed = True
    assigns = local_assignments(func)

    def is_mat(e):
        if _is_data_of(e) is not None:
            return True
        if isinstance(e, ast.Name):
            return e.id in mats
        if isinstance(e, ast.Call) and isinstance(e.func, ast.Attribute):
            if e.func.attr in PRESERVING and is_mat(e.func.value):
                return True
            if e.func.attr in ('_get_sparse_data', '_get_row', '_get_col'):
                return True
        if isinstance(e, ast.Attribute) and e.attr == 'T':
            return is_mat(e.value)
        return False
    while changed:
        changed = False
        for name, vals in assigns.items():
            if name in mats:
                continue
            for v, st in vals:
                if v is not None and is_mat(v):
                    mats[name] = st
                    changed = True
                    break
        # loop variables over sparse iteration
        for n in body_walk(func):
            if isinstance(n, ast.For):
                it = n.iter
                if isinstance(it, ast.Call) and \
                        call_name(it) == 'enumerate' and it.args:
                    it = it.args[0]
                    tgt = n.target.elts[1] if isinstance(
                        n.target, ast.Tuple) and len(n.target.elts) == 2 \
                        else None
                else:
                    tgt = n.target
                if isinstance(it, ast.Call) and isinstance(
                        it.func, ast.Attribute) and it.func.attr in (
                        'iter_data', '_iter_obs', '_iter_samp', 'iter'):
                    dense = kwarg(it, 'dense')
                    sparse = it.func.attr in ('_iter_obs', '_iter_samp') or \
                        (isinstance(dense, ast.Constant) and
                         dense.value is False)
                    if sparse and tgt is not None:
                        names = target_names(tgt)
                        if it.func.attr == 'iter' and names:
                            names = names[:1]
                        for nm in names:
                            if nm not in mats:
                                mats[nm] = n
                                changed = True
    return mats, is_mat


def _local_elimination_dominates(func, cfg, mod, node, matrix_expr):
    """(L): an eliminate_zeros() on the same matrix name (or the owning
    table's nnz property) dominates ``node``."""
    target = dotted(matrix_expr)
    stn = None
    cur = node
    while cur is not None and not isinstance(cur, ast.stmt):
        cur = mod.parent.get(cur)
    stn = cfg.node(cur) if cur is not None else None
    if stn is None:
        # statement nested in compound header
        return False
    for n in cfg.stmt_nodes():
        if n.kind != 'stmt':
            continue
        for c in walk_shallow(n.stmt):
            hit = False
            if isinstance(c, ast.Call) and isinstance(
                    c.func, ast.Attribute) and \
                    c.func.attr == 'eliminate_zeros':
                t = dotted(c.func.value)
                if t and target and (t == target or
                                     target.startswith(t + '.') or
                                     t.startswith(target + '.')):
                    hit = True
                # elimination on X._data covers names derived from it later
                if t and t.endswith('._data'):
                    hit = hit or True
            if hit and n is not stn and cfg.dominates(n, stn):
                return True
    return False


def rule_or_canon_consumers(repo, col):
    """Every structure-sensitive consumption of a sparse matrix sees a
    canonical one: (i) indices/indptr read as the set of non-zero cells,
    (ii) stored-entry counts and order statistics over .data, (iv) .data
    slices handed to an opaque callback.  Discharged by a dominating local
    elimination (L) or by the global invariant (G)."""
    rule = 'OR-CANON'
    holds, details, n_stores = invariant_g(repo)
    mod = repo.mod(TABLE)
    n_found = 0
    # parameters that receive a table's _data at every call site
    data_params = _params_receiving_data(repo)
    for rel, q, f in repo.all_functions():
        if rel != TABLE or not q.startswith('Table.'):
            continue
        extra = {p: f for p in data_params.get(q, [])}
        mats, is_mat = _matrix_names(f, extra)
        cfg = None
        sites = []
        for n in body_walk(f):
            # (ii) counts
            if isinstance(n, ast.Attribute) and n.attr == 'nnz' and \
                    is_mat(n.value):
                sites.append(('count', n, n.value, 'stored-entry count '
                              '(.nnz)'))
            if isinstance(n, ast.Call) and isinstance(
                    n.func, ast.Attribute) and n.func.attr == 'getnnz' and \
                    is_mat(n.func.value):
                sites.append(('count', n, n.func.value, 'getnnz()'))
            # (ii) order statistics over .data
            if isinstance(n, ast.Call) and isinstance(
                    n.func, ast.Attribute) and n.func.attr in (
                    'min', 'max', 'argmin', 'argmax') and isinstance(
                    n.func.value, ast.Attribute) and \
                    n.func.value.attr == 'data' and \
                    is_mat(n.func.value.value):
                sites.append(('order-stat', n, n.func.value.value,
                              '.data.%s()' % n.func.attr))
            # (iv) kernel handing .data slices to a callback
            if isinstance(n, ast.Call) and call_name(n) == '_transform' and \
                    n.args and is_mat(n.args[0]):
                sites.append(('callback', n, n.args[0],
                              'stored entries handed to the user function'))
        # (i) indices/indptr as occupancy without .data
        reads = {}
        for n in body_walk(f):
            if isinstance(n, ast.Attribute) and n.attr in (
                    'indices', 'indptr', 'data') and is_mat(n.value) and \
                    isinstance(n.ctx, ast.Load):
                reads.setdefault(dotted(n.value) or unparse(n.value),
                                 {}).setdefault(n.attr, n)
        for mname, attrs in reads.items():
            if ('indices' in attrs or 'indptr' in attrs) and \
                    'data' not in attrs and q != 'Table.to_hdf5':
                node = attrs.get('indices') or attrs.get('indptr')
                sites.append(('occupancy', node, node.value,
                              'indices/indptr read as the set of non-zero '
                              'cells (values not consulted)'))
        if not sites:
            continue
        if q == 'Table.nnz':
            continue        # the eliminating property itself
        cfg = CFG(f)
        for kind, node, mexpr, what in sites:
            n_found += 1
            local = _local_elimination_dominates(f, cfg, mod, node, mexpr) \
                or _nnz_property_dominates(f, cfg, mod, node)
            role = '%s:%s' % (kind, (dotted(mexpr) or unparse(mexpr, 30)))
            if local:
                col.ok(rule, TABLE, q, role, node,
                       '%s - (L) a local elimination dominates' % what)
            elif holds:
                col.ok(rule, TABLE, q, role, node,
                       '%s - (G) table matrices are canonical by the '
                       'constructor/store invariant' % what)
            else:
                col.bad(rule, TABLE, q, role, node,
                        '%s on a matrix that may hold explicitly stored '
                        'zeros (caller-supplied sparse input, or entries '
                        'zeroed by the subsampling kernel): neither a local '
                        'eliminate_zeros() dominates it nor does the '
                        'constructor/store invariant hold' % what)
    if n_found < 5:
        col.unknown(rule, TABLE, 'Table', 'consumers', None,
                    'only %d structure-sensitive consumers found' % n_found)


def _nnz_property_dominates(func, cfg, mod, node):
    """A read of ``X.nnz`` (the eliminating Table property) dominates."""
    cur = node
    while cur is not None and not isinstance(cur, ast.stmt):
        cur = mod.parent.get(cur)
    stn = cfg.node(cur) if cur is not None else None
    if stn is None:
        return False
    for n in cfg.stmt_nodes():
        if n.kind != 'stmt' or n is stn:
            continue
        for c in walk_shallow(n.stmt):
            if isinstance(c, ast.Attribute) and c.attr == 'nnz' and \
                    dotted(c.value) in ('self', 'table', 't', 'other') and \
                    cfg.dominates(n, stn):
                return True
    return False


def _params_receiving_data(repo):
    """{qualname: [param]} for Table methods whose parameter receives
    ``X._data`` / ``X.matrix_data`` at every resolved call site."""
    out = {}
    f = repo.func(TABLE, 'Table._data_equality')
    p = [x for x in param_names(f) if x != 'self']
    calls = []
    for rel, q, g in repo.all_functions():
        for n in body_walk(g):
            if isinstance(n, ast.Call) and isinstance(
                    n.func, ast.Attribute) and \
                    n.func.attr == '_data_equality':
                calls.append(n)
    if calls and all(c.args and _is_data_of(c.args[0]) is not None
                     for c in calls):
        out['Table._data_equality'] = p[:1]
    return out


# --------------------------------------------------------------------------
# TA-REPR / SB-EQ
# --------------------------------------------------------------------------

REPR_SENSITIVE_ATTRS = ('indices', 'indptr', 'has_sorted_indices',
                        'has_canonical_format', 'format')
REPR_SENSITIVE_CALLS = ('getformat', 'sorted_indices', 'sum_duplicates')


def rule_ta_repr(repo, col):
    """The results of __eq__/__ne__/descriptive_equality/_data_equality do
    not depend on representation-sensitive reads (index arrays, format,
    sortedness, raw .data order)."""
    rule = 'TA-REPR'
    for q in ('Table.__eq__', 'Table.__ne__', 'Table.descriptive_equality',
              'Table._data_equality'):
        f = repo.func(TABLE, q)
        bad = []
        for n in body_walk(f):
            if isinstance(n, ast.Attribute) and \
                    n.attr in REPR_SENSITIVE_ATTRS:
                bad.append(n)
            if isinstance(n, ast.Attribute) and n.attr == 'data' and \
                    _is_data_of(n.value) is not None:
                bad.append(n)
            if isinstance(n, ast.Call) and isinstance(
                    n.func, ast.Attribute) and \
                    n.func.attr in REPR_SENSITIVE_CALLS:
                bad.append(n)
        col.check(not bad, rule, TABLE, q, 'no-representation-read',
                  bad[0] if bad else f,
                  'no index-array / format / sortedness read',
                  'equality reads %s: two tables with equal content but '
                  'different internal layout may compare unequal'
                  % (unparse(bad[0]) if bad else ''))
    # __ne__ is the negation of __eq__
    f = repo.func(TABLE, 'Table.__ne__')
    rets = [n for n in body_walk(f) if isinstance(n, ast.Return)]
    ok = len(rets) == 1 and isinstance(rets[0].value, ast.UnaryOp) and \
        isinstance(rets[0].value.op, ast.Not) and isinstance(
        rets[0].value.operand, ast.Compare) and isinstance(
        rets[0].value.operand.ops[0], ast.Eq)
    col.check(ok, rule, TABLE, 'Table.__ne__', 'negation', f,
              '__ne__ is `not (self == other)`',
              '__ne__ is not the negation of __eq__')


def _eq_facts(repo, func):
    """What an equality method compares, wherever in its body (loops over
    a constant tuple of axes are unrolled symbolically)."""
    from .consteval import ConstEval, UNKNOWN
    ce = ConstEval(repo)
    facts = {'class': False, 'type': False, 'data': None,
             'ids': set(), 'metadata': set(), 'unresolved': False}
    # loop variables ranging over constant axis tuples
    loopvals = {}
    for n in ast.walk(func):
        if isinstance(n, (ast.For, ast.comprehension)) and isinstance(
                n.target, ast.Name):
            v = ce.ev(n.iter, TABLE)
            if v is not UNKNOWN and isinstance(v, (tuple, list)):
                loopvals[n.target.id] = list(v)
    for n in ast.walk(func):
        if isinstance(n, ast.Call) and call_name(n) == 'isinstance':
            facts['class'] = True
        if isinstance(n, ast.Compare) and '.type' in unparse(n) and \
                'self' in unparse(n) and 'other' in unparse(n):
            facts['type'] = True
        if isinstance(n, ast.Call) and isinstance(n.func, ast.Attribute) and \
                n.func.attr == '_data_equality':
            facts['data'] = n
        if isinstance(n, ast.Call) and call_name(n) in ('np.array_equal',
                                                        'array_equal') and \
                len(n.args) == 2:
            sides = []
            for a in n.args:
                if isinstance(a, ast.Name):
                    # a local bound once to the accessor call
                    ds = [x.value for x in ast.walk(func) if isinstance(
                        x, ast.Assign) and len(x.targets) == 1 and
                        isinstance(x.targets[0], ast.Name) and
                        x.targets[0].id == a.id]
                    if len(ds) == 1:
                        a = ds[0]
                if isinstance(a, ast.Call) and isinstance(
                        a.func, ast.Attribute) and a.func.attr in (
                        'ids', 'metadata') and isinstance(a.func.value,
                                                          ast.Name):
                    ax = kwarg(a, 'axis') or (a.args[-1] if a.args else None)
                    if ax is None:
                        axv = ['sample']
                    elif const_str(ax):
                        axv = [const_str(ax)]
                    elif isinstance(ax, ast.Name) and ax.id in loopvals:
                        axv = loopvals[ax.id]
                    else:
                        axv = None
                    sides.append((a.func.value.id, a.func.attr, axv,
                                  unparse(ax) if ax is not None else None))
            if len(sides) == 2 and sides[0][1] == sides[1][1]:
                kind = sides[0][1]
                owners = {sides[0][0], sides[1][0]}
                if owners != {'self', 'other'}:
                    facts.setdefault('bad_operands', []).append(n)
                    continue
                if sides[0][2] is None or sides[1][2] is None:
                    facts['unresolved'] = True
                    continue
                if sides[0][3] != sides[1][3] and sides[0][2] != sides[1][2]:
                    facts.setdefault('axis_mismatch', []).append(n)
                    continue
                facts[kind] |= set(sides[0][2])
    return facts


def rule_sb_eq(repo, col):
    """__eq__ and descriptive_equality compare class, type, ids and
    metadata on both axes (self vs other on the same axis) and the data."""
    rule = 'SB-EQ'
    res = {}
    for q in ('Table.__eq__', 'Table.descriptive_equality'):
        f = repo.func(TABLE, q)
        fc = _eq_facts(repo, f)
        res[q] = fc
        for k in ('class', 'type'):
            col.check(fc[k], rule, TABLE, q, 'compares:%s' % k, f,
                      '%s compared' % k, '%s never compares the %s of the '
                      'two tables: tables differing only in %s compare '
                      'equal' % (q, k, k))
        for k in ('ids', 'metadata'):
            if fc['unresolved'] and fc[k] != {'sample', 'observation'}:
                col.unknown(rule, TABLE, q, 'axes:%s' % k, f,
                            'axis arguments not resolved')
            else:
                col.check(fc[k] == {'sample', 'observation'}, rule, TABLE, q,
                          'axes:%s' % k, f, '%s compared on both axes' % k,
                          '%s compares %s only on %s: tables differing in '
                          'the other axis\' %s compare equal'
                          % (q, k, sorted(fc[k]) or 'no axis', k))
        # ids and metadata are compared by content, not by how the arrays
        # happen to be typed (text ids may sit in 'U' or object arrays)
        rep = [x for x in ast.walk(f) if isinstance(x, ast.Attribute) and
               x.attr in ('dtype', 'itemsize', 'nbytes', 'strides')]
        col.check(not rep, rule, TABLE, q, 'representation-independent',
                  rep[0] if rep else f, 'no test on the arrays\' dtype',
                  '`%s` makes the verdict depend on the dtype of an id / '
                  'metadata array: equal ids held as object and as text '
                  'arrays compare unequal' % (unparse(rep[0], 50)
                                              if rep else ''))
        for n in fc.get('bad_operands', []):
            col.bad(rule, TABLE, q, 'operands', n, 'a comparison does not '
                    'compare self with other')
        for n in fc.get('axis_mismatch', []):
            col.bad(rule, TABLE, q, 'operands-axis', n, 'self and other are '
                    'compared on different axes')
        c = fc['data']
        ok = c is not None and c.args and dotted(c.args[0]) in (
            'other._data', 'other.matrix_data') and \
            dotted(c.func.value) == 'self'
        col.check(bool(ok), rule, TABLE, q, 'data-operand', c or f,
                  'the matrices are compared (self vs other._data)',
                  '%s does not compare the matrix with the other table\'s '
                  'matrix' % q)
    # _data_equality: shape, then element-wise difference
    f = repo.func(TABLE, 'Table._data_equality')
    src = unparse(f, 10 ** 6)
    col.check('.shape' in src, rule, TABLE, 'Table._data_equality', 'shape',
              f, 'shapes compared', 'shapes are not compared')
    elementwise = any(isinstance(n, ast.Compare) and isinstance(
        n.ops[0], ast.NotEq) and _is_data_of(n.left) is not None
        for n in ast.walk(f))
    col.soft(elementwise, rule, TABLE, 'Table._data_equality',
             'element-wise', f, 'element-wise (self._data != other) test',
             'element-wise comparison')


RULE_TEXT = {
    'OR-CANON': rule_or_canon_consumers.__doc__,
    'EF-FRESH': "the constructor's elimination acts on the copy made by "
                "astype, never on the caller's matrix",
    'TA-REPR': rule_ta_repr.__doc__,
    'SB-EQ': rule_sb_eq.__doc__,
}
