"""Seeded breaks and refactor twins used by the checker self-validation.

Each variant: id, props (the properties whose check must react), file, old
(text that occurs exactly once in the current file), new, kind ('break' must
be reported by ``rule``; 'twin' must stay silent).  Multi-site variants use
``edits``.
"""
T = 'biom/table.py'
E = 'biom/err.py'
P = 'biom/parse.py'
V = 'biom/cli/table_validator.py'

VARIANTS = []


def brk(id_, props, file, old, new, rule):
    VARIANTS.append({'id': id_, 'props': props, 'file': file, 'old': old,
                     'new': new, 'kind': 'break', 'rule': rule})


def twin(id_, props, file, old, new):
    VARIANTS.append({'id': id_, 'props': props, 'file': file, 'old': old,
                     'new': new, 'kind': 'twin'})


def multi(id_, props, edits, kind, rule=None):
    VARIANTS.append({'id': id_, 'props': props, 'edits': edits,
                     'kind': kind, 'rule': rule})


# ---- C20 -----------------------------------------------------------------
brk('c20-no-finally', ['C20'], E,
    "    try:\n        yield\n    finally:\n        seterr(**old_state)\n",
    "    yield\n    seterr(**old_state)\n", 'OR-FINALLY')
brk('c20-commit-in-loop', ['C20'], E,
    "                raise KeyError(\"Unknown error type: %s\" % errtype)\n\n"
    "        for errtype, new_state in to_update:\n"
    "            self._state[errtype] = new_state\n",
    "                raise KeyError(\"Unknown error type: %s\" % errtype)\n"
    "            self._state[errtype] = new_state\n", 'OR-ATOMIC')
brk('c20-drop-print', ['C20'], E,
    "            'print': lambda x: stdout.write(msg + '\\n')}",
    "            }", 'AG-ERRSTATES')
brk('c20-state-alias', ['C20'], E,
    "    return __errprof.state.copy()\n", "    return __errprof.state\n",
    'EF-STATE')
brk('c20-swap-warn-print', ['C20'], E,
    "            'warn': lambda x: warn(msg),",
    "            'warn': lambda x: stdout.write(msg + '\\n'),",
    'AG-REACTIONS')
brk('c20-default-ignore', ['C20', 'C17'], E,
    "__errprof.register('obsdup', OBSDUP, 'raise', _test_obsdup,",
    "__errprof.register('obsdup', OBSDUP, 'ignore', _test_obsdup,",
    'AG-ERRKINDS')
brk('c20-test-axis', ['C20', 'C05', 'C17'], E,
    "    return t.shape[1] != len(t.ids(axis='sample'))",
    "    return t.shape[0] != len(t.ids(axis='sample'))", 'AX-SHAPE')
brk('c20-errcheck-drop-raise', ['C20'], E,
    "    if isinstance(ret, Exception):\n        raise ret\n    else:\n"
    "        return ret\n", "    return ret\n", 'OR-PROPAGATE')
twin('c20-try-except-reraise', ['C20'], E,
     "    try:\n        yield\n    finally:\n        seterr(**old_state)\n",
     "    try:\n        yield\n    except BaseException:\n"
     "        seterr(**old_state)\n        raise\n    else:\n"
     "        seterr(**old_state)\n")
twin('c20-dict-copy', ['C20'], E,
     "    return __errprof.state.copy()\n",
     "    return dict(__errprof.state)\n")

# ---- C15 -----------------------------------------------------------------
brk('c15-drop-clear', ['C15'], V,
    "                if error is not None:\n                    "
    "valid_table = False\n                    report_lines.append(error)\n"
    "\n        return {'valid_table'",
    "                if error is not None:\n                    "
    "report_lines.append(error)\n\n        return {'valid_table'",
    'OR-REPORT')
brk('c15-drop-dataset', ['C15'], V,
    "                             'sample/matrix/indptr']",
    "                             ]", 'AG-VALID')
brk('c15-off-by-one', ['C15'], V,
    "            if x < 0 or x > n_rows:", "            if x < 0 or x >= "
    "n_rows:", 'AX-BOUNDS')
brk('c15-shape-swap', ['C15'], V,
    "                    len(table_json['rows']) != table_json['shape'][0]):",
    "                    len(table_json['rows']) != table_json['shape'][1]):",
    'AX-SHAPE')
brk('c15-no-dup-json', ['C15'], V,
    "        ids = [str(row['id']) for row in table_json['rows']]\n"
    "        if len(ids) != len(set(ids)):\n"
    "            return \"Duplicate 'id' values in rows\"\n", "",
    'OR-AGGR')
brk('c15-metadata-any', ['C15'], V,
    "        return \"metadata is neither null or an object\"",
    "        return ''", 'SB-RECORDS')
twin('c15-seen-set', ['C15'], V,
     "        ids = [str(row['id']) for row in table_json['rows']]\n"
     "        if len(ids) != len(set(ids)):\n"
     "            return \"Duplicate 'id' values in rows\"\n",
     "        seen = set()\n        for row in table_json['rows']:\n"
     "            if str(row['id']) in seen:\n"
     "                return \"Duplicate 'id' values in rows\"\n"
     "            seen.add(str(row['id']))\n")



multi('c15-bounds-refactor', ['C15'],
      [{'file': V, 'old': "        n_rows -= 1  # adjust for 0-based index\n",
        'new': ""},
       {'file': V, 'old': "            if x < 0 or x > n_rows:",
        'new': "            if x < 0 or x >= n_rows:"}], 'twin')

# ---- C02 / C03 -------------------------------------------------------------
brk('c02-raw-id', ['C02'], T,
    "            id_ = '\"id\": %s,' % dumps(str(self.table_id))",
    "            id_ = '\"id\": \"%s\",' % str(self.table_id)", 'TA-ESCAPE')
brk('c02-percent-g', ['C02'], T,
    "\"[%d,%d,%r]\" % (obs_index, col_index, float(val))",
    "\"[%d,%d,%.6g]\" % (obs_index, col_index, float(val))", 'TA-LOSSY')
brk('c02-drop-date-stream', ['C02'], T,
    "            direct_io.write('\"date\": \"%s\",' % creation_date)\n", "",
    'SB-JSONPATHS')
brk('c02-positive-only', ['C02'], T,
    "                if float(val) != 0.0:", "                if float(val) > "
    "0.0:", 'TA-LOSSY')
twin('c02-fstring', ['C02'], T,
     "            id_ = '\"id\": %s,' % dumps(str(self.table_id))",
     "            id_ = f'\"id\": {dumps(str(self.table_id))},'")
twin('c02-repr-call', ['C02'], T,
     "\"[%d,%d,%r]\" % (obs_index, col_index, float(val))",
     "\"[%d,%d,%s]\" % (obs_index, col_index, repr(float(val)))")
brk('c03-fixed-precision', ['C03'], T,
    "            str_obs_vals = delim.join(map(str, self._to_dense("
    "obs_values)))",
    "            str_obs_vals = delim.join(['%.6f' % v for v in "
    "self._to_dense(obs_values)])", 'TA-LOSSY')
brk('c03-pipe-formatter', ['C03'], 'biom/cli/table_converter.py',
    "    'sc_separated': lambda x: '; '.join(x),",
    "    'sc_separated': lambda x: '| '.join(x),", 'AG-TSVSEP')
brk('c03-drop-header-fwd', ['C03'], T,
    "        return self.delimited_self('\\t', header_key, header_value,",
    "        return self.delimited_self('\\t', None, header_value,",
    'AX-FWD')

# ---- C14 -----------------------------------------------------------------
brk('c14-unstrip', ['C14'], P,
    "        r, c, v = list(map(strip_f, rcv.split(',')))\n"
    "        if c in remap_lookup:",
    "        r, c, v = rcv.split(',')\n        if c in remap_lookup:",
    'TA-STRIP')
brk('c14-in1d', ['C14'], T, "np.isin(source_ids, desired_ids)",
    "np.in1d(source_ids, desired_ids)", 'TA-API')
brk('c14-no-refuse', ['C14'], T,
    "                    if ids.shape != desired_ids.shape:\n"
    "                        raise ValueError(\"The following ids could not "
    "be \"\n                                         \"found in the biom "
    "table: %s\" %\n                                         "
    "(set(desired_ids) - set(ids)))\n", "", 'OR-REFUSE')
brk('c14-filter-same-axis', ['C14'], P,
    "        axis = 'observation' if axis == 'sample' else 'sample'\n"
    "        t.filter(gt_zero, axis=axis)",
    "        t.filter(gt_zero, axis=axis)", 'AX-IDAPI')
brk('c14-raw-compare', ['C14', 'C01'], T,
    "            axis_ids = np.asarray(_decode(h5grp['%s/ids' % axis][:]))",
    "            axis_ids = h5grp['%s/ids' % axis][:]", 'TA-CODEC')
brk('c14-passthrough-swap', ['C14'], 'biom/cli/table_subsetter.py',
    "            if axis == \"observation\":\n                yield "
    "direct_parse_key(json_table_str, \"columns\")",
    "            if axis == \"sample\":\n                yield "
    "direct_parse_key(json_table_str, \"columns\")", 'AX-JSONKEY')
twin('c14-comprehension-strip', ['C14'], P,
     "        r, c, v = list(map(strip_f, rcv.split(',')))\n"
     "        if c in remap_lookup:",
     "        r, c, v = [strip_f(x) for x in rcv.split(',')]\n"
     "        if c in remap_lookup:")

# ---- C01 / C04 -------------------------------------------------------------
brk('c01-rename-attr', ['C01'], T,
    "            h5grp.attrs['creation-date'] = creation_date.isoformat()",
    "            h5grp.attrs['creation_date'] = creation_date.isoformat()",
    'AG-H5KEYS')
brk('c01-ascii', ['C01'], T,
    "    if isinstance(x, bytes):\n        x = x.decode('utf8')\n    return x",
    "    if isinstance(x, bytes):\n        x = x.decode('ascii')\n    "
    "return x", 'TA-CODEC')
brk('c01-parser-key', ['C01'], T,
    "            parser['collapsed_ids'] = vlen_list_of_str_parser\n", "",
    'AG-REG')
brk('c01-swap-csc', ['C01'], T,
    "        if axis == 'sample':\n            matrix = csc_matrix(cs, "
    "shape=shape)\n        else:\n            matrix = csr_matrix(cs, "
    "shape=shape)",
    "        if axis == 'sample':\n            matrix = csr_matrix(cs, "
    "shape=shape)\n        else:\n            matrix = csc_matrix(cs, "
    "shape=shape)", 'AX-MATOP')
brk('c01-ids-implicit', ['C01', 'C14'], T,
    "                ids = np.asarray([v.decode('utf8') if isinstance(v, "
    "bytes)\n                                  else v for v in ids])",
    "                ids = np.asarray(ids, dtype='U%d' % max(len(v) for v "
    "in ids))", 'TA-CODEC')
brk('c04-raw-nnz', ['C04'], T,
    "        h5grp.attrs['nnz'] = nnz", "        h5grp.attrs['nnz'] = "
    "self._data.nnz", 'OR-CANON')
brk('c04-zip-swap', ['C04'], T,
    "zip(['observation', 'sample'], ['csr', 'csc'])",
    "zip(['observation', 'sample'], ['csc', 'csr'])", 'AX-MATOP')
brk('c04-int64', ['C04'], T,
    "            grp.create_dataset('matrix/indptr', shape=(len_indptr,),\n"
    "                               dtype=np.int32,",
    "            grp.create_dataset('matrix/indptr', shape=(len_indptr,),\n"
    "                               dtype=np.int64,", 'AG-SPEC')
brk('c04-drop-group', ['C04', 'C01'], T,
    "            grp.create_group('group-metadata')\n", "",
    ('AG-SPEC', 'AG-H5KEYS'))

# ---- C16 / canon -------------------------------------------------------------
brk('c16-no-ctor-elim', ['C16', 'C05', 'C13', 'C19', 'C17'], T,
    "        self._data.eliminate_zeros()\n\n        self._sample_ids",
    "        self._sample_ids", 'OR-CANON')
brk('c16-no-subsample-elim', ['C16'], T,
    "            data.eliminate_zeros()\n            table._data = data",
    "            table._data = data", 'OR-CANON')
brk('c16-getformat', ['C16'], T,
    "        if self._data.dtype != other.dtype:\n            return False\n",
    "        if self._data.dtype != other.dtype:\n            return False\n"
    "\n        if self._data.getformat() != other.getformat():\n"
    "            return False\n", 'TA-REPR')
brk('c16-eq-skip-type', ['C16'], T,
    "        if self.type != other.type:\n            return False\n", "",
    'SB-EQ')
multi('c16-local-eliminations', ['C16', 'C05', 'C13', 'C19'],
      [{'file': T,
        'old': "        self._data.eliminate_zeros()\n\n        "
               "self._sample_ids",
        'new': "        self._sample_ids"},
       {'file': T, 'old': "        csr = self._data.tocsr()\n        "
                          "samp_ids = self.ids()",
        'new': "        self._data.eliminate_zeros()\n        csr = "
               "self._data.tocsr()\n        samp_ids = self.ids()"},
       {'file': T,
        'old': "        if self._data.nnz != other.nnz:",
        'new': "        self._data.eliminate_zeros()\n        "
               "other.eliminate_zeros()\n        if self._data.nnz != "
               "other.nnz:"},
       ], 'break', 'OR-CANON')   # min/max/transform still uncovered

# ---- C07 / effects -----------------------------------------------------------
brk('c07-transform-self', ['C07', 'C13'], T,
    "        table = self if inplace else self.copy()\n\n        metadata "
    "= table.metadata(axis=axis)\n        ids = table.ids(axis=axis)\n"
    "        arr = table._get_sparse_data(axis=axis)",
    "        table = self\n\n        metadata = table.metadata(axis=axis)\n"
    "        ids = table.ids(axis=axis)\n        arr = "
    "table._get_sparse_data(axis=axis)", 'EF-BIND')
brk('c07-filter-store-self', ['C07', 'C08'], T,
    "        errcheck(table)\n\n        return table\n\n    def partition",
    "        errcheck(table)\n        self._data = arr\n\n        return "
    "table\n\n    def partition", 'EF-BIND')
brk('c07-subsample-no-copy', ['C07', 'C12'], T,
    "        table = self.copy()\n\n        rng = ", "        table = self\n"
    "\n        rng = ", 'EF-NEW')
multi('c07-copy-alias', ['C07'],
      [{'file': T, 'old': "        return self.__class__(self._data.copy(),",
        'new': "        return self.__class__(self._data,"},
       {'file': T, 'old': "        self._data = self._data.astype(float)\n",
        'new': "        self._data = self._data.astype(float, copy=False)\n"}],
      'break', 'EF-FRESH')
twin('c07-copy-only-ctor', ['C07'], T,
     "        return self.__class__(self._data.copy(),",
     "        return self.__class__(self._data,")
brk('c07-shuffle-alias', ['C07', 'C12'], T,
    "            ids = table.ids(axis=axis).copy()\n            "
    "rng.shuffle(ids)", "            ids = table.ids(axis=axis)\n"
    "            rng.shuffle(ids)", 'EF-NOMUT')
twin('c07-if-else-bind', ['C07', 'C13'], T,
     "        table = self if inplace else self.copy()\n\n        metadata "
     "= table.metadata(axis=axis)\n        ids = table.ids(axis=axis)\n"
     "        arr = table._get_sparse_data(axis=axis)",
     "        if inplace:\n            table = self\n        else:\n"
     "            table = self.copy()\n\n        metadata = "
     "table.metadata(axis=axis)\n        ids = table.ids(axis=axis)\n"
     "        arr = table._get_sparse_data(axis=axis)")

# ---- axis ---------------------------------------------------------------------
brk('c05-drop-reindex', ['C05', 'C06'], T,
    "        result._index_ids(None, None)\n", "", 'OR-REINDEX')
brk('c05-wrong-index', ['C05', 'C08'], T,
    "            table._index_ids(self._obs_index.copy(), None)",
    "            table._index_ids(self._sample_index.copy(), None)",
    'OR-REINDEX')
brk('c05-store-wrong-axis', ['C05', 'C08'], T,
    "        if axis == 1:\n            table._sample_ids = ids",
    "        if axis == 0:\n            table._sample_ids = ids", 'AX-STORE')
brk('c06-wrong-subscript', ['C06'], T,
    "            mat = self.matrix_data[:, fancy]",
    "            mat = self.matrix_data[fancy, :]", 'AX-MATOP')
brk('c06-unpermuted-md', ['C06'], T,
    "                                  self.metadata(axis='observation'), "
    "metadata,\n                                  self.table_id, self.type)",
    "                                  self.metadata(axis='observation'),\n"
    "                                  self.metadata(),\n"
    "                                  self.table_id, self.type)",
    'OR-COPERM')
brk('c06-transpose-ids', ['C06'], T,
    "                              self.ids()[:], self.ids(axis="
    "'observation')[:],\n                              sample_md_copy, "
    "obs_md_copy, self.table_id)",
    "                              self.ids(axis='observation')[:], "
    "self.ids()[:],\n                              sample_md_copy, "
    "obs_md_copy, self.table_id)", 'AX-CTOR')
brk('c08-head-swap', ['C08', 'C19'], T,
    "        row_ids = self.ids(axis='observation')[:n]\n        col_ids = "
    "self.ids(axis='sample')[:m]",
    "        row_ids = self.ids(axis='observation')[:m]\n        col_ids = "
    "self.ids(axis='sample')[:n]", 'AX-FWD')
brk('c08-drop-sort', ['C08'], T,
    "            arr.sort_indices()\n", "            pass\n", 'OR-SORTED')
brk('c08-sum-empty', ['C08'], T,
    "            magnitude = abs(table._data).sum(axis=1 - "
    "table._axis_to_num(ax))",
    "            magnitude = table._data.sum(axis=1 - "
    "table._axis_to_num(ax))", 'SB-EMPTY')
brk('c09-exists-default-axis', ['C09'], T,
    "            if other.exists(obs_id, axis=\"observation\"):",
    "            if other.exists(obs_id):", 'AX-IDAPI')
brk('c09-foreign-index', ['C09'], T,
    "                        self_vec_value = self_vec[self_samp_idx["
    "samp_id]]",
    "                        self_vec_value = self_vec[other_samp_idx["
    "samp_id]]", 'AX-OWNER')
brk('c09-swap-helpers', ['C09'], T,
    "        if sample == 'union':\n            new_samp_order = "
    "self._union_id_order(self.ids(), other.ids())\n        elif sample == "
    "'intersection':\n            new_samp_order = "
    "self._intersect_id_order(self.ids(), other.ids())",
    "        if sample == 'union':\n            new_samp_order = "
    "self._intersect_id_order(self.ids(), other.ids())\n        elif "
    "sample == 'intersection':\n            new_samp_order = "
    "self._union_id_order(self.ids(), other.ids())", 'AG-MERGEKIND')
brk('c10-swap-stack', ['C10'], T,
    "            stack = hstack\n            invstack = vstack\n        "
    "else:", "            stack = vstack\n            invstack = hstack\n"
    "        else:", 'AX-MATOP')
brk('c10-shape-swap', ['C10'], T,
    "                if axis == 'sample':\n                    shape = "
    "(n_invaxis, n_axis)",
    "                if axis == 'sample':\n                    shape = "
    "(n_axis, n_invaxis)", 'AX-MATOP')
brk('c10-no-raise', ['C10'], T,
    "            if not axis_ids.isdisjoint(table_axis_ids):\n"
    "                raise DisjointIDError(\"IDs are not disjoint\")\n", "",
    'OR-DISJOINT')
brk('c10-sort-wrong-axis', ['C10'], T,
    "                padded_tables.append(tmp_table.sort_order("
    "invaxis_order,\n                                                     "
    "     axis=invaxis))",
    "                padded_tables.append(tmp_table.sort_order("
    "invaxis_order,\n                                                     "
    "     axis=axis))", 'AX-IDAPI')
brk('c11-transpose-flag', ['C11'], T,
    "        if axis == 'sample':\n            transpose = True",
    "        if axis == 'sample':\n            transpose = False",
    'AX-MATOP')
brk('c11-swap-md', ['C11'], T,
    "            tab = Table(data, obs_ids, samp_ids, obs_md, samp_md,",
    "            tab = Table(data, obs_ids, samp_ids, samp_md, obs_md,",
    'AX-CTOR')
brk('c11-no-T', ['C11'], T,
    "                new_data = csr_matrix(new_data.T)",
    "                new_data = csr_matrix(new_data)", 'AX-CTOR')
brk('c12-default-view', ['C12'], T,
    "            data = table._get_sparse_data(axis)",
    "            data = table._get_sparse_data()", 'AX-KERNEL')
brk('c12-global-rng', ['C12'], T,
    "            rng.shuffle(ids)", "            np.random.shuffle(ids)",
    'TA-RNG')
brk('c13-inverted-num', ['C13'], T,
    "        axis = table._axis_to_num(axis)\n\n        _transform(",
    "        axis = table._axis_to_num(self._invert_axis(axis))\n\n"
    "        _transform(", 'AX-KERNEL')
brk('c13-norm-no-axis', ['C13'], T,
    "            return val / float(val.sum())\n\n        return "
    "self.transform(f, axis=axis, inplace=inplace)",
    "            return val / float(val.sum())\n\n        return "
    "self.transform(f, inplace=inplace)", 'AX-FWD')
brk('c17-uc-key-swap', ['C17'], P,
    "            data[(observation_idx, sample_idx)] += 1",
    "            data[(sample_idx, observation_idx)] += 1", 'AX-COORD')
brk('c17-validate-off', ['C17', 'C05'], T,
    "                 validate=True, observation_index=None, "
    "sample_index=None,",
    "                 validate=False, observation_index=None, "
    "sample_index=None,", 'OR-ERRCHECK')
brk('c17-ctor-swap-ids', ['C17', 'C05'], T,
    "        self._sample_ids = np.asarray(sample_ids)",
    "        self._sample_ids = np.asarray(observation_ids)", 'AX-STORE')
brk('c18-store-wrong-field', ['C18'], T,
    "            if axis == 'sample':\n                self._sample_metadata"
    " = tuple(\n                    md[id_] if id_ in md else None for id_ "
    "in ids)",
    "            if axis == 'observation':\n                "
    "self._sample_metadata = tuple(\n                    md[id_] if id_ in "
    "md else None for id_ in ids)", 'AX-STORE')
brk('c18-no-cast', ['C18', 'C05'], T,
    "            else:\n                raise UnknownAxisError(axis)\n"
    "        self._cast_metadata()\n",
    "            else:\n                raise UnknownAxisError(axis)\n",
    'OR-CAST')
brk('c18-header-swap', ['C18'], 'biom/cli/metadata_adder.py',
    "            header=observation_header)", "            header="
    "sample_header)", 'AX-FWD')
brk('c19-sum-axis', ['C19', 'C05'], T,
    "        elif axis == 'sample':\n            axis = 0\n        elif "
    "axis == 'observation':\n            axis = 1",
    "        elif axis == 'sample':\n            axis = 1\n        elif "
    "axis == 'observation':\n            axis = 0", 'AX-RET')
brk('c19-min-iter-default', ['C19'], T,
    "            for idx, data in enumerate(self.iter_data(dense=False, "
    "axis=axis)):\n                min_val[idx] = data.data.min()",
    "            for idx, data in enumerate(self.iter_data(dense=False)):\n"
    "                min_val[idx] = data.data.min()", 'AX-SHAPE')
brk('c19-dataframe-index', ['C19'], T,
    "        index = self.ids(axis='observation')\n        columns = "
    "self.ids()", "        index = self.ids()\n        columns = "
    "self.ids(axis='observation')", 'AX-CTOR')

VARIANTS[:] = [v for v in VARIANTS if v is not None]
