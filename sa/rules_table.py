"""Ordering / pairing / sibling rules over biom/table.py and the kernels."""
import ast
import re

from .astutil import (body_walk, call_name, const_str, dotted, kwarg,
                      local_assignments, param_default, param_names,
                      target_names, unparse, walk_shallow)
from .cfg import CFG
from .source import AnalysisError

TABLE = 'biom/table.py'
FILTER = 'biom/_filter.pyx'
TRANSFORM = 'biom/_transform.pyx'
SUBSAMPLE = 'biom/_subsample.pyx'

IDS_FIELDS = {'_sample_ids': 1, '_observation_ids': 0}   # -> arg position
# _index_ids(observation_index, sample_index)


def _ancestors(mod, node):
    cur = mod.parent.get(node)
    while cur is not None:
        yield cur
        cur = mod.parent.get(cur)


def _stmt_of(mod, node):
    cur = node
    while cur is not None and not isinstance(cur, ast.stmt):
        cur = mod.parent.get(cur)
    return cur


# --------------------------------------------------------------------------
# OR-REINDEX
# --------------------------------------------------------------------------

def rule_or_reindex(repo, col):
    """After a store to ``X._sample_ids`` / ``X._observation_ids`` (outside
    the constructor) every path to a normal exit calls
    ``X._index_ids(obs_index, samp_index)`` with ``None`` (= rebuild) in that
    axis' position."""
    rule = 'OR-REINDEX'
    n_stores = 0
    for rel, q, f in repo.all_functions():
        if rel.endswith('.pyx') or q in ('Table.__init__',):
            continue
        stores = []
        for n in body_walk(f):
            if isinstance(n, ast.Assign):
                for t in n.targets:
                    if isinstance(t, ast.Attribute) and \
                            t.attr in IDS_FIELDS and dotted(t.value):
                        stores.append((n, dotted(t.value), t.attr))
        if not stores:
            continue
        cfg = CFG(f)
        # the slot order is read from _index_ids' signature
        sig = [p for p in param_names(repo.func(TABLE, 'Table._index_ids'))
               if p != 'self']
        pos = {'_observation_ids': sig.index('observation_index'),
               '_sample_ids': sig.index('sample_index')}
        for st, owner, field in stores:
            n_stores += 1
            good = set()
            for n in cfg.stmt_nodes():
                if n.kind != 'stmt':
                    continue
                for c in walk_shallow(n.stmt):
                    if isinstance(c, ast.Call) and \
                            dotted(c.func) == '%s._index_ids' % owner:
                        i = pos[field]
                        a = c.args[i] if len(c.args) > i else kwarg(
                            c, sig[i])
                        if a is not None and isinstance(a, ast.Constant) \
                                and a.value is None:
                            good.add(n)
            sn = cfg.node(st)
            leak = cfg.path_avoiding(sn, cfg.exit, good) if sn else True
            if leak:
                # the rebuild may pass None through a variable: the axis
                # interpreter evaluates the argument per specialisation
                from .rules_axis import run_all
                verdicts = [m for m in run_all(repo)[0]
                            if m['q'] == q and m['kind'] == 'REINDEX' and
                            m['role'] == 'reindex-after:%s' % field]
                if verdicts and not any(m['bad'] for m in verdicts) and \
                        any(m['ok'] for m in verdicts):
                    leak = False
                elif not verdicts:
                    col.unknown(rule, rel, q, 'reindex-after:%s' % field,
                                st, 'rebuild call not resolved')
                    continue
            col.check(not leak, rule, rel, q, 'reindex-after:%s' % field, st,
                      'every path from the store rebuilds the %s lookup'
                      % field.strip('_').replace('_ids', ''),
                      'ids of %s are replaced but a path reaches the exit '
                      'without %s._index_ids(...) rebuilding that lookup '
                      '(None in its position): index()/exists() answer for '
                      'the old ids' % (field, owner))
    if n_stores < 4:
        col.unknown(rule, TABLE, 'Table', 'stores', None,
                    'only %d id stores found' % n_stores)
    # the constructor indexes after storing the ids
    init = repo.func(TABLE, 'Table.__init__')
    cfg = CFG(init)
    idx = [n for n in cfg.stmt_nodes() if n.kind == 'stmt' and any(
        isinstance(c, ast.Call) and dotted(c.func) == 'self._index_ids'
        for c in walk_shallow(n.stmt))]
    col.check(len(idx) >= 1 and not cfg.path_avoiding(cfg.entry, cfg.exit,
                                                     set(idx)), rule, TABLE,
              'Table.__init__', 'ctor-indexes', idx[0].stmt if idx else init,
              'every constructor path builds the lookups',
              'a constructor path does not build the id lookups')
    # _index_ids: None -> index_list(own ids)
    f = repo.func(TABLE, 'Table._index_ids')
    for field, src in (('_sample_index', 'self._sample_ids'),
                       ('_obs_index', 'self._observation_ids')):
        ok = False
        for n in body_walk(f):
            if isinstance(n, ast.Assign) and \
                    dotted(n.targets[0]) == 'self.%s' % field:
                vals = [n.value.body, n.value.orelse] if isinstance(
                    n.value, ast.IfExp) else [n.value]
                if any(isinstance(v, ast.Call) and
                       call_name(v) == 'index_list' and v.args and
                       dotted(v.args[0]) == src for v in vals):
                    ok = True
        col.check(ok, rule, TABLE, 'Table._index_ids', 'rebuild:%s' % field,
                  f, '%s rebuilt from %s' % (field, src),
                  '%s is not rebuilt from %s' % (field, src))
    f = repo.func('biom/util.py', 'index_list')
    r = [n for n in body_walk(f) if isinstance(n, ast.Return)]
    ok = len(r) == 1 and isinstance(r[0].value, ast.DictComp) and \
        isinstance(r[0].value.generators[0].iter, ast.Call) and \
        call_name(r[0].value.generators[0].iter) == 'enumerate'
    if ok:
        dc = r[0].value
        idxn, idn = target_names(dc.generators[0].target)
        ok = dotted(dc.key) == idn and dotted(dc.value) == idxn
    col.check(bool(ok), rule, 'biom/util.py', 'index_list', 'id->position',
              f, 'maps each id to its position',
              'index_list does not map id -> position')


# --------------------------------------------------------------------------
# OR-ERRCHECK
# --------------------------------------------------------------------------

def rule_or_errcheck(repo, col):
    """errcheck(X) follows the last ids/data/metadata store on every path in
    update_ids and filter; the constructor reaches errcheck(self) on every
    path when ``validate`` is true (its default); collapse checks 'empty';
    constructor sites passing validate=False are an enumerated table."""
    rule = 'OR-ERRCHECK'
    for q in ('Table.update_ids', 'Table.filter'):
        f = repo.func(TABLE, q)
        cfg = CFG(f)
        checks = {n for n in cfg.stmt_nodes() if n.kind == 'stmt' and any(
            isinstance(c, ast.Call) and call_name(c) == 'errcheck'
            for c in walk_shallow(n.stmt))}
        stores = [n for n in cfg.stmt_nodes() if n.kind == 'stmt' and
                  isinstance(n.stmt, ast.Assign) and any(
                      isinstance(t, ast.Attribute) and t.attr in (
                          '_sample_ids', '_observation_ids', '_data',
                          '_sample_metadata', '_observation_metadata')
                      for t in n.stmt.targets)]
        if not stores:
            col.unknown(rule, TABLE, q, 'stores', f, 'no stores found')
            continue
        leaks = [s for s in stores
                 if cfg.path_avoiding(s, cfg.exit, checks)]
        col.check(not leaks, rule, TABLE, q, 'check-after-stores',
                  leaks[0].stmt if leaks else list(checks)[0].stmt
                  if checks else f,
                  'errcheck follows every store on every path',
                  'a path from a store to the exit skips errcheck: an '
                  'operation can leave duplicate ids / size mismatches '
                  'unreported')
        # the checked object is the one written
        owners = {dotted(t.value) for s in stores for t in s.stmt.targets
                  if isinstance(t, ast.Attribute)}
        args = {dotted(c.args[0]) for n in checks
                for c in walk_shallow(n.stmt) if isinstance(c, ast.Call) and
                call_name(c) == 'errcheck' and c.args}
        col.check(owners == args, rule, TABLE, q, 'check-target', f,
                  'errcheck is applied to the table written (%s)'
                  % sorted(owners), 'errcheck checks %s, writes go to %s'
                  % (sorted(args), sorted(owners)))
    init = repo.func(TABLE, 'Table.__init__')
    d = param_default(init, 'validate')
    col.check(isinstance(d, ast.Constant) and d.value is True, rule, TABLE,
              'Table.__init__', 'validate-default', init,
              'validate defaults to True', 'validate does not default to '
              'True: malformed input is accepted silently')
    guarded = None
    for n in body_walk(init):
        if isinstance(n, ast.If) and dotted(n.test) == 'validate':
            if any(isinstance(c, ast.Call) and call_name(c) == 'errcheck'
                   and c.args and dotted(c.args[0]) == 'self'
                   for b in n.body for c in ast.walk(b)):
                guarded = n
    unguarded = any(isinstance(n, ast.Expr) and isinstance(n.value, ast.Call)
                    and call_name(n.value) == 'errcheck'
                    for n in init.body)
    col.check(guarded is not None or unguarded, rule, TABLE,
              'Table.__init__', 'errcheck', guarded or init,
              'errcheck(self) runs whenever validate is true',
              'the constructor does not run errcheck(self)')
    if guarded is not None:
        cfg = CFG(init)
        gn = cfg.node(guarded)
        col.check(not cfg.path_avoiding(cfg.entry, cfg.exit, {gn}), rule,
                  TABLE, 'Table.__init__', 'errcheck-every-path', guarded,
                  'every constructor path passes the validation point',
                  'a constructor path bypasses the validation point')
        # ids, data and metadata are stored before the check
        before = {'_data', '_sample_ids', '_observation_ids',
                  '_sample_metadata', '_observation_metadata'}
        stored = set()
        for n in cfg.stmt_nodes():
            if n.kind == 'stmt' and isinstance(n.stmt, ast.Assign) and \
                    cfg.dominates(n, gn) is False:
                pass
        for st in init.body:
            if st is guarded:
                break
            for x in ast.walk(st):
                if isinstance(x, ast.Attribute) and isinstance(
                        x.ctx, ast.Store) and x.attr in before:
                    stored.add(x.attr)
        col.check(stored == before, rule, TABLE, 'Table.__init__',
                  'check-after-fields', guarded,
                  'matrix, ids and metadata are installed before they are '
                  'checked', 'errcheck runs before %s are installed'
                  % sorted(before - stored))
    f = repo.func(TABLE, 'Table.collapse')
    ok = any(isinstance(c, ast.Call) and call_name(c) == 'errcheck' and
             len(c.args) == 2 and const_str(c.args[1]) == 'empty'
             for c in body_walk(f))
    col.check(ok, rule, TABLE, 'Table.collapse', 'empty', f,
              "collapse checks the 'empty' kind", "collapse no longer "
              "checks 'empty'")
    # validate=False sites
    allowed = {'Table.partition': 'parts of a validated table: ids are '
               'subsets of unique ids, matrix rows are the selected vectors'}
    for rel, q, f in repo.all_functions():
        if rel.endswith('.pyx'):
            continue
        for c in body_walk(f):
            if isinstance(c, ast.Call) and (call_name(c) in ('Table', 'cls')
                                            or (call_name(c) or '').endswith(
                                                '.__class__')):
                v = kwarg(c, 'validate')
                if v is not None and not (isinstance(v, ast.Constant) and
                                          v.value is True):
                    col.check(q in allowed, rule, rel, q, 'validate-off', c,
                              'enumerated exception: %s' % allowed.get(q),
                              'a table is constructed with validation '
                              'switched off outside the enumerated sites')


def rule_or_cast(repo, col):
    """Every store of *raw* metadata (not None, not derived from an existing
    cast tuple) is followed by ``_cast_metadata()`` on every path."""
    rule = 'OR-CAST'
    sites = [(TABLE, 'Table.add_metadata', 'self'),
             (TABLE, 'Table.__init__', 'self'),
             ('biom/cli/table_converter.py', '_convert', 'result')]
    for rel, q, owner in sites:
        f = repo.func(rel, q)
        cfg = CFG(f)
        casts = {n for n in cfg.stmt_nodes() if n.kind == 'stmt' and any(
            isinstance(c, ast.Call) and
            dotted(c.func) == '%s._cast_metadata' % owner
            for c in walk_shallow(n.stmt))}
        stores = [n for n in cfg.stmt_nodes() if n.kind == 'stmt' and
                  isinstance(n.stmt, ast.Assign) and any(
                      isinstance(t, ast.Attribute) and t.attr in (
                          '_sample_metadata', '_observation_metadata') and
                      dotted(t.value) == owner for t in n.stmt.targets) and
                  not (isinstance(n.stmt.value, ast.Constant) and
                       n.stmt.value.value is None)]
        if not stores:
            col.unknown(rule, rel, q, 'stores', f, 'no raw metadata store')
            continue
        m = repo.mod(rel)
        leaks = []
        for s in stores:
            good = set(casts)
            # correlated guards: a store under `if N:` is covered by a cast
            # under `if N or ...:` (that branch is taken whenever N holds)
            guard = None
            for a in _ancestors(m, s.stmt):
                if isinstance(a, ast.If) and isinstance(a.test, ast.Name) \
                        and any(x is s.stmt for b in a.body
                                for x in ast.walk(b)):
                    guard = a.test.id
                    break
            if guard:
                for n in cfg.stmt_nodes():
                    if n.kind == 'head' and isinstance(n.stmt, ast.If):
                        t = n.stmt.test
                        names = [t.id] if isinstance(t, ast.Name) else (
                            [v.id for v in t.values
                             if isinstance(v, ast.Name)]
                            if isinstance(t, ast.BoolOp) and
                            isinstance(t.op, ast.Or) else [])
                        if guard in names and any(
                                cfg.node(b) in casts for b in n.stmt.body):
                            good.add(n)
            if cfg.path_avoiding(s, cfg.exit, good):
                leaks.append(s)
        col.check(not leaks, rule, rel, q, 'cast-after-store',
                  leaks[0].stmt if leaks else stores[0].stmt,
                  'every raw metadata store is followed by '
                  '_cast_metadata()', 'raw metadata is installed on a path '
                  'that never casts it: entries stay plain dicts / None '
                  'instead of default-None mappings')


RULE_TEXT = {
    'OR-REINDEX': rule_or_reindex.__doc__,
    'OR-ERRCHECK': rule_or_errcheck.__doc__,
    'OR-CAST': rule_or_cast.__doc__,
}


# --------------------------------------------------------------------------
# the filter kernel
# --------------------------------------------------------------------------

def rule_filter_kernel(repo, col):
    """_filter: both selection paths XOR with ``invert``; one boolean mask
    selects rows, ids and metadata; every fallible lookup (index[id], the
    predicate calls) precedes the first in-place compaction; the predicate is
    called exactly once per id, in order, with that id and its metadata."""
    f = repo.func(FILTER, '_filter')
    cfg = CFG(f)
    mod = repo.mod(FILTER)
    # SB-FILTERPATHS
    rule = 'SB-FILTERPATHS'
    branches = []
    for n in body_walk(f):
        if isinstance(n, ast.If) and isinstance(n.test, ast.Call) and \
                call_name(n.test) == 'isinstance' and \
                dotted(n.test.args[0]) == 'ids_to_keep':
            cur = n
            while isinstance(cur, ast.If):
                kind = dotted(cur.test.args[1]) if isinstance(
                    cur.test, ast.Call) else None
                branches.append((kind, cur))
                cur = cur.orelse[0] if len(cur.orelse) == 1 and isinstance(
                    cur.orelse[0], ast.If) else None
    kinds = {k for k, _ in branches}
    col.check({'Iterable', 'FunctionType'} <= kinds, rule, FILTER, '_filter',
              'dispatch', f, 'iterable and function selectors are both '
              'handled', 'selector dispatch changed: %s' % sorted(
                  k or '?' for k in kinds))
    for kind, br in branches:
        if kind == 'Iterable':
            src = ' '.join(unparse(b, 400) for b in br.body)
            col.check('bitwise_xor' in src and 'invert' in src or
                      '^ invert' in src, rule, FILTER, '_filter',
                      'invert:iterable', br, 'the id-collection mask is '
                      'XORed with invert', 'the id-collection path ignores '
                      'invert')
            # fallible lookup
            look = [n for b in br.body for n in ast.walk(b)
                    if isinstance(n, ast.Subscript) and
                    dotted(n.value) == 'index']
            col.check(bool(look), 'OR-VALIDATE-FIRST', FILTER, '_filter',
                      'lookup', look[0] if look else br,
                      'ids are mapped through the index (unknown ids raise '
                      'KeyError)', 'ids are not looked up in the index')
        if kind == 'FunctionType':
            c = [n for b in br.body for n in ast.walk(b)
                 if isinstance(n, ast.Call) and
                 call_name(n) == '_make_filter_array_general']
            ok = len(c) == 1 and [dotted(a) for a in c[0].args] == [
                'arr', 'ids', 'metadata', 'ids_to_keep', 'axis', 'invert']
            col.check(ok, rule, FILTER, '_filter', 'invert:function',
                      c[0] if c else br, 'matrix, ids, metadata, predicate, '
                      'axis and invert are handed to the predicate kernel',
                      'the predicate kernel is not given (arr, ids, '
                      'metadata, f, axis, invert)')
    g = repo.func(FILTER, '_make_filter_array_general')
    xor = [n for n in body_walk(g) if isinstance(n, ast.BinOp) and
           isinstance(n.op, ast.BitXor) and dotted(n.right) == 'invert']
    col.check(bool(xor), rule, FILTER, '_make_filter_array_general',
              'invert:predicate', xor[0] if xor else g,
              'the predicate result is XORed with invert',
              'the predicate path ignores invert')
    # predicate once per id, in order
    rule = 'SB-PREDICATE'
    loops = [n for n in g.body if isinstance(n, ast.For)]
    ok = False
    node = g
    if loops:
        lp = loops[0]
        it = lp.iter
        ivar = dotted(lp.target)
        ok_iter = isinstance(it, ast.Call) and call_name(it) == 'range' and \
            len(it.args) == 1 and unparse(it.args[0]) == 'len(ids)'
        calls = [n for n in ast.walk(lp) if isinstance(n, ast.Call) and
                 dotted(n.func) == 'func']
        inner = [n for n in lp.body if isinstance(n, ast.For)]
        in_inner = any(c is x for l2 in inner for x in ast.walk(l2)
                       for c in calls)
        early = any(isinstance(n, (ast.Break, ast.Return))
                    for n in ast.walk(lp))
        args_ok = len(calls) == 1 and len(calls[0].args) == 3 and \
            unparse(calls[0].args[1]) == 'ids[%s]' % ivar and \
            unparse(calls[0].args[2]) == 'metadata[%s]' % ivar
        ok = ok_iter and len(calls) == 1 and not in_inner and not early \
            and args_ok
        node = calls[0] if calls else lp
        # result stored at the same position
        st = [n for n in ast.walk(lp) if isinstance(n, ast.Assign) and
              isinstance(n.targets[0], ast.Subscript) and
              dotted(n.targets[0].value) == 'bools']
        ok = ok and len(st) == 1 and dotted(st[0].targets[0].slice) == ivar
    col.check(ok, rule, FILTER, '_make_filter_array_general',
              'once-per-id', node, 'the predicate is called exactly once per '
              'id, in order, with (vector, ids[i], metadata[i]) and its '
              'verdict stored at position i', 'the predicate is not called '
              'exactly once per id in order with its own id and metadata')
    # SB-MASK
    rule = 'SB-MASK'
    users = {'rows': [], 'ids': [], 'metadata': []}
    for n in body_walk(f):
        if isinstance(n, ast.Call) and call_name(n) == '_remove_rows_csr' \
                and len(n.args) == 2:
            users['rows'].append(dotted(n.args[1]))
        if isinstance(n, ast.Call) and call_name(n) == 'compress' and \
                len(n.args) == 2:
            users[dotted(n.args[0])] = users.get(dotted(n.args[0]), []) + [
                dotted(n.args[1])]
    masks = set(users['rows']) | set(users.get('ids', [])) | \
        set(users.get('metadata', []))
    col.check(len(masks) == 1 and users['rows'] and users.get('ids') and
              users.get('metadata'), rule, FILTER, '_filter', 'one-mask', f,
              'rows, ids and metadata are selected by the same mask %s'
              % sorted(masks), 'rows, ids and metadata are not selected by '
              'one mask: rows %s, ids %s, metadata %s'
              % (users['rows'], users.get('ids'), users.get('metadata')))
    # OR-VALIDATE-FIRST: every compaction is dominated by mask construction
    rule = 'OR-VALIDATE-FIRST'
    comp = [n for n in cfg.stmt_nodes() if n.kind == 'stmt' and any(
        isinstance(c, ast.Call) and call_name(c) == '_remove_rows_csr'
        for c in walk_shallow(n.stmt))]
    fallible = [n for n in cfg.stmt_nodes() if n.kind == 'stmt' and any(
        (isinstance(c, ast.Subscript) and dotted(c.value) == 'index') or
        (isinstance(c, ast.Call) and
         call_name(c) == '_make_filter_array_general')
        for c in ast.walk(n.stmt))]
    bad = []
    for c in comp:
        reach = cfg.reachable_from(c)
        bad += [x for x in fallible if x in reach and x is not c]
    col.check(bool(comp) and bool(fallible) and not bad, rule, FILTER,
              '_filter', 'lookups-before-compaction',
              comp[0].stmt if comp else f,
              'all fallible lookups and predicate calls precede the first '
              'in-place compaction (an unknown id leaves the table '
              'untouched)', 'a lookup / predicate call can run after the '
              'matrix has been compacted in place')


def rule_or_sorted(repo, col):
    """A kernel that consumes ``indices`` by a monotone merge scan obliges
    Table.filter to have sorted the indices before the kernel runs."""
    rule = 'OR-SORTED'
    g = repo.func(FILTER, '_make_filter_array_general')
    # scan detection: a comparison of the inner counter with
    # indices[start] together with `start += 1`
    scans = False
    for n in ast.walk(g):
        if isinstance(n, ast.Compare) and any(
                isinstance(x, ast.Subscript) and
                dotted(x.value) == 'indices' for x in ast.walk(n)) and \
                isinstance(n.ops[0], (ast.Lt, ast.Eq, ast.Gt)):
            scans = True
    bump = any(isinstance(n, ast.AugAssign) and isinstance(n.op, ast.Add)
               and dotted(n.target) == 'start' for n in ast.walk(g))
    uses_put = any(isinstance(n, ast.Call) and isinstance(
        n.func, ast.Attribute) and n.func.attr == 'put'
        for n in ast.walk(g))
    if not (scans and bump) or uses_put:
        col.ok(rule, FILTER, '_make_filter_array_general', 'scan', g,
               'the kernel does not rely on index order')
        return
    col.info(rule, FILTER, '_make_filter_array_general', 'scan', g,
             'vectors are rebuilt by one ascending scan over indices: the '
             'indices of every row/column must be sorted')
    f = repo.func(TABLE, 'Table.filter')
    cfg = CFG(f)
    calls = [n for n in cfg.stmt_nodes() if n.kind == 'stmt' and any(
        isinstance(c, ast.Call) and call_name(c) == '_filter'
        for c in walk_shallow(n.stmt))]
    if len(calls) != 1:
        col.unknown(rule, TABLE, 'Table.filter', 'kernel-call', f,
                    '%d kernel calls' % len(calls))
        return
    kc = calls[0]
    arr = None
    for c in walk_shallow(kc.stmt):
        if isinstance(c, ast.Call) and call_name(c) == '_filter' and c.args:
            arr = dotted(c.args[0])
    sorters = set()
    for n in cfg.stmt_nodes():
        if n.kind != 'stmt':
            continue
        for c in walk_shallow(n.stmt):
            if isinstance(c, ast.Call) and isinstance(
                    c.func, ast.Attribute) and c.func.attr in (
                    'sort_indices', 'sorted_indices', 'sum_duplicates') and \
                    dotted(c.func.value) in (arr, 'table._data',
                                             'self._data'):
                sorters.add(n)
    # guarded by a format test: the sort must happen for every format whose
    # conversion in the kernel is the identity (csr / csc)
    ok = False
    why = 'no sort_indices()/sorted_indices() on the matrix precedes the ' \
          'kernel'
    for sn in sorters:
        if cfg.dominates(sn, kc):
            ok = True
        else:
            # inside `if arr.getformat() in ('csr', 'csc')` -- covers the
            # layouts that reach the kernel unconverted
            mod = repo.mod(TABLE)
            for a in _ancestors(mod, sn.stmt):
                if isinstance(a, ast.If) and 'getformat' in unparse(a.test):
                    fmts = {const_str(x) for x in ast.walk(a.test)
                            if const_str(x)}
                    hn = cfg.node(a)
                    if {'csr', 'csc'} <= fmts and hn is not None and \
                            cfg.dominates(hn, kc):
                        ok = True
                    else:
                        why = 'indices are sorted only for formats %s; csr ' \
                              'and csc reach the kernel unconverted' \
                              % sorted(fmts)
    col.check(ok, rule, TABLE, 'Table.filter', 'sorted-before-kernel',
              kc.stmt, 'indices are sorted on every path that reaches the '
              'kernel with a csr/csc matrix (other formats are converted, '
              'which sorts)', why + ': after a reorder (unsorted indices) '
              'the predicate is shown wrong vectors')


def rule_sb_slice(repo, col):
    """_transform writes back exactly the slice it read, with the id and
    metadata of that vector, walking indptr of the given axis."""
    rule = 'SB-SLICE'
    f = repo.func(TRANSFORM, '_transform')
    st = [n for n in ast.walk(f) if isinstance(n, ast.Assign) and
          isinstance(n.targets[0], ast.Subscript) and
          dotted(n.targets[0].value) == 'data' and
          isinstance(n.value, ast.Call) and
          dotted(n.value.func) == 'function']
    if len(st) != 1:
        col.unknown(rule, TRANSFORM, '_transform', 'write-back', f,
                    'write-back statement not recognised')
        return
    s = st[0]
    tgt = unparse(s.targets[0])
    arg0 = unparse(s.value.args[0]) if s.value.args else None
    col.check(tgt == arg0, rule, TRANSFORM, '_transform', 'same-slice', s,
              'the values returned are written to the slice that was read '
              '(%s)' % tgt, 'reads %s but writes %s: cells other than the '
              'ones transformed are overwritten or some are left stale'
              % (arg0, tgt))
    loop = [n for n in f.body if isinstance(n, ast.For)]
    ok = False
    if loop:
        lp = loop[0]
        v = dotted(lp.target)
        src = unparse(lp, 2000)
        ok = ('indptr[%s]' % v in src and 'indptr[%s + 1]' % v in src and
              'ids[%s]' % v in src and 'metadata[%s]' % v in src and
              unparse(lp.iter) == 'range(n)')
    col.soft(ok, rule, TRANSFORM, '_transform', 'walk', loop[0] if loop
              else f, 'vector k uses indptr[k]:indptr[k+1], ids[k], '
              'metadata[k]', 'the indptr walk does not pair vector k with '
              'ids[k] / metadata[k]')
    n_as = [n for n in body_walk(f) if isinstance(n, ast.Assign) and
            dotted(n.targets[0]) == 'n']
    ok = len(n_as) == 1 and unparse(n_as[0].value) == 'arr.shape[axis]'
    col.soft(ok, rule, TRANSFORM, '_transform', 'count', n_as[0] if n_as
              else f, 'number of vectors is arr.shape[axis]',
              'the vector count is not arr.shape[axis]')
    # Table.transform: eliminate zeros after the kernel, then reinstall
    t = repo.func(TABLE, 'Table.transform')
    cfg = CFG(t)
    k = [n for n in cfg.stmt_nodes() if n.kind == 'stmt' and any(
        isinstance(c, ast.Call) and call_name(c) == '_transform'
        for c in walk_shallow(n.stmt))]
    e = [n for n in cfg.stmt_nodes() if n.kind == 'stmt' and any(
        isinstance(c, ast.Call) and isinstance(c.func, ast.Attribute) and
        c.func.attr == 'eliminate_zeros' for c in walk_shallow(n.stmt))]
    s2 = [n for n in cfg.stmt_nodes() if n.kind == 'stmt' and isinstance(
        n.stmt, ast.Assign) and any(isinstance(x, ast.Attribute) and
                                    x.attr == '_data' for x in
                                    n.stmt.targets)]
    ok = len(k) == 1 and e and s2 and cfg.dominates(k[0], e[0]) and \
        cfg.dominates(e[0], s2[0])
    col.check(bool(ok), 'OR-CANON', TABLE, 'Table.transform',
              'eliminate-after-kernel', e[0].stmt if e else t,
              'entries zeroed by the function are eliminated before the '
              'matrix is reinstalled', 'zeros produced by the transform are '
              'not eliminated before the matrix is reinstalled')


def rule_subsample_kernels(repo, col):
    """Both subsampling kernels guard the degenerate vector before drawing;
    all randomness flows from the generator built from ``seed``; the kernel
    dispatch follows with_replacement."""
    f_wo = repo.func(SUBSAMPLE, '_subsample_without_replacement')
    f_w = repo.func(SUBSAMPLE, '_subsample_with_replacement')
    rule = 'SB-KGUARD'
    for q, f, draw in (('_subsample_without_replacement', f_wo, 'choice'),
                       ('_subsample_with_replacement', f_w, 'multinomial')):
        loops = [n for n in f.body if isinstance(n, ast.For)]
        if not loops:
            col.unknown(rule, SUBSAMPLE, q, 'loop', f, 'vector loop missing')
            continue
        lp = loops[0]
        guard = None
        for n in lp.body:
            if isinstance(n, ast.If) and any(
                    isinstance(x, ast.Name) and x.id == 'counts_sum'
                    for x in ast.walk(n.test)) and any(
                    isinstance(b, ast.Continue) for b in n.body):
                guard = n
        draws = [n for n in ast.walk(lp) if isinstance(n, ast.Call) and
                 isinstance(n.func, ast.Attribute) and n.func.attr == draw]
        before = guard is not None and draws and \
            guard.lineno < draws[0].lineno
        col.check(bool(before), rule, SUBSAMPLE, q, 'degenerate-guard',
                  guard or (draws[0] if draws else lp),
                  'a vector whose total cannot be sampled is zeroed and '
                  'skipped before rng.%s' % draw,
                  'no guard on the vector total precedes rng.%s: an '
                  'all-zero vector divides 0/0 and the draw raises'
                  % draw)
    # TA-RNG
    rule = 'TA-RNG'
    _positive = ast.parse('import numpy as np\nx = np.random.shuffle(a)')
    if not _global_random_calls(_positive):
        raise AnalysisError('TA-RNG positive control did not fire')
    t = repo.func(TABLE, 'Table.subsample')
    mod = repo.mod(SUBSAMPLE)
    bad = _global_random_calls(t) + _global_random_calls(mod.tree)
    col.check(not bad, rule, TABLE, 'Table.subsample', 'no-global-rng',
              bad[0] if bad else t, 'no np.random.<fn> / random.<fn> global '
              'calls in the subsample call tree',
              'a global random call (%s) bypasses the seeded generator'
              % (unparse(bad[0]) if bad else ''))
    rng = [n for n in body_walk(t) if isinstance(n, ast.Assign) and
           isinstance(n.value, ast.Call) and
           call_name(n.value) == 'np.random.default_rng']
    ok = len(rng) == 1 and rng[0].value.args and \
        dotted(rng[0].value.args[0]) == 'seed'
    col.check(ok, rule, TABLE, 'Table.subsample', 'seeded', rng[0] if rng
              else t, 'the generator is built from the seed argument',
              'the generator is not built from `seed`')
    if ok:
        name = dotted(rng[0].targets[0])
        kc = [n for n in body_walk(t) if isinstance(n, ast.Call) and
              call_name(n) == 'subsample']
        col.check(len(kc) == 1 and dotted(kc[0].args[-1]) == name, rule,
                  TABLE, 'Table.subsample', 'rng-to-kernel',
                  kc[0] if kc else t, 'the seeded generator is handed to '
                  'the kernel', 'the kernel is not given the seeded '
                  'generator')
        sh = [n for n in body_walk(t) if isinstance(n, ast.Call) and
              (call_name(n) or '').endswith('.shuffle')]
        col.check(all(dotted(n.func.value) == name for n in sh), rule, TABLE,
                  'Table.subsample', 'rng-shuffle', sh[0] if sh else t,
                  'id shuffling uses the seeded generator',
                  'ids are shuffled with another generator')
    for q, f in (('_subsample_without_replacement', f_wo),
                 ('_subsample_with_replacement', f_w)):
        draws = [n for n in ast.walk(f) if isinstance(n, ast.Call) and
                 isinstance(n.func, ast.Attribute) and
                 n.func.attr in ('choice', 'multinomial', 'shuffle',
                                 'permutation', 'integers', 'random')]
        col.check(bool(draws) and all(dotted(d.func.value) == 'rng'
                                      for d in draws), rule, SUBSAMPLE, q,
                  'draws-from-rng', draws[0] if draws else f,
                  'all draws come from the rng parameter',
                  'a draw does not come from the rng parameter')
    # dispatch
    d = repo.func(SUBSAMPLE, 'subsample')
    ifs = [n for n in d.body if isinstance(n, ast.If)]
    ok = False
    if ifs:
        i = ifs[0]
        a = [call_name(c) for b in i.body for c in ast.walk(b)
             if isinstance(c, ast.Call)]
        b = [call_name(c) for b2 in i.orelse for c in ast.walk(b2)
             if isinstance(c, ast.Call)]
        ok = dotted(i.test) == 'with_replacement' and \
            a == ['_subsample_with_replacement'] and \
            b == ['_subsample_without_replacement']
    col.check(ok, 'SB-KDISPATCH', SUBSAMPLE, 'subsample', 'dispatch',
              ifs[0] if ifs else d, 'with_replacement selects the '
              'multinomial kernel, otherwise the without-replacement kernel',
              'kernel dispatch does not follow with_replacement')
    # the post-kernel filters run on the axis and then on its inverse
    fl = [n for n in body_walk(t) if isinstance(n, ast.Call) and isinstance(
        n.func, ast.Attribute) and n.func.attr == 'filter' and
        dotted(n.func.value) == 'table' and n.args and isinstance(
            n.args[0], ast.Lambda) and 'sum' in unparse(n.args[0])]
    axs = [dotted(kwarg(n, 'axis') or ast.Constant(None)) for n in fl]
    tas = local_assignments(t)
    invs = {nm for nm, vals in tas.items() for v, st in vals
            if isinstance(v, ast.Call) and (call_name(v) or '').endswith(
                '_invert_axis') and dotted(
                    (v.args[0] if v.args else kwarg(v, 'axis')) or
                    ast.Constant(None)) == 'axis'}
    if len(fl) == 2 and all(axs):
        ok = axs[0] == 'axis' and axs[1] in invs
        col.check(ok, 'AX-IDAPI', TABLE, 'Table.subsample',
                  'post-filters', fl[1], 'empty vectors are dropped along '
                  'the axis and then along its inverse',
                  'the post-kernel filters run on %s; expected the axis and '
                  'then its inverse' % axs)
    else:
        col.unknown('AX-IDAPI', TABLE, 'Table.subsample', 'post-filters', t,
                    'post-kernel filters not recognised')
    kc = [n for n in body_walk(t) if isinstance(n, ast.Call) and
          call_name(n) == 'subsample']
    if kc:
        c = kc[0]
        ok = len(c.args) == 4 and dotted(c.args[1]) == 'n' and \
            dotted(c.args[2]) == 'with_replacement'
        col.check(ok, 'SB-KDISPATCH', TABLE, 'Table.subsample',
                  'kernel-args', c, 'n and with_replacement are passed to '
                  'the kernel', 'n / with_replacement are not passed through')


def _global_random_calls(tree):
    out = []
    for n in ast.walk(tree):
        if isinstance(n, ast.Call):
            nm = call_name(n) or ''
            if (nm.startswith('np.random.') or nm.startswith('numpy.random.')
                    or nm.startswith('random.')) and \
                    nm.split('.')[-1] not in ('default_rng', 'Generator',
                                              'RandomState', 'SeedSequence',
                                              'PCG64'):
                out.append(n)
    return out


RULE_TEXT.update({
    'SB-FILTERPATHS': 'both selection paths of _filter XOR with invert',
    'SB-PREDICATE': 'the predicate is called exactly once per id, in order, '
                    'with its id and metadata',
    'SB-MASK': 'one mask selects rows, ids and metadata',
    'OR-VALIDATE-FIRST': 'all fallible lookups precede the first in-place '
                         'compaction',
    'OR-SORTED': rule_or_sorted.__doc__,
    'SB-SLICE': rule_sb_slice.__doc__,
    'SB-KGUARD': 'both subsampling kernels guard the degenerate vector '
                 'before drawing',
    'TA-RNG': 'all randomness in the subsample call tree flows from the '
              'generator built from seed',
    'SB-KDISPATCH': 'with_replacement selects the kernel; n is passed '
                    'through',
})


# --------------------------------------------------------------------------
# SB-EMPTY
# --------------------------------------------------------------------------

def classify_emptiness(expr):
    """'insensitive' | 'sensitive' | None for a boolean "vector is not
    empty" expression."""
    s = unparse(expr, 400)
    if re.search(r'\babs\(|np\.abs\(|np\.absolute\(|!= 0|getnnz|'
                 r'nonzero_counts|count_nonzero|np\.any\(|\.any\(\)|'
                 r'\.nonzero\(', s):
        return 'insensitive'
    if re.search(r'\.sum\([^)]*\)\s*(>|!=|>=)\s*0|sum\([^)]*\)\s*>\s*0', s):
        return 'sensitive'
    return None


def rule_sb_empty(repo, col, which=None):
    """Emptiness predicates are sign-insensitive (a vector is empty iff all
    entries are zero) unless the operand is a non-negative count by
    construction (enumerated, with reasons)."""
    rule = 'SB-EMPTY'
    sel = which or {'remove_empty', 'subsample', 'pa', 'stats'}
    if 'remove_empty' in sel:
        f = repo.func(TABLE, 'Table.remove_empty')
        assigns = local_assignments(f)
        filt = [n for n in body_walk(f) if isinstance(n, ast.Call) and
                isinstance(n.func, ast.Attribute) and
                n.func.attr == 'filter' and n.args]
        if len(filt) != 1:
            col.unknown(rule, TABLE, 'Table.remove_empty', 'predicate', f,
                        'filter call not recognised')
        else:
            sel_expr = filt[0].args[0]
            # expand local names used in the selector
            parts = [sel_expr]
            seen = set()
            work = [sel_expr]
            while work:
                e = work.pop()
                for x in ast.walk(e):
                    if isinstance(x, ast.Name) and x.id in assigns and \
                            x.id not in seen:
                        seen.add(x.id)
                        for v, st in assigns[x.id]:
                            if v is not None:
                                parts.append(v)
                                work.append(v)
            kinds = {classify_emptiness(p) for p in parts} - {None}
            if not kinds:
                texts = [unparse(p, 400) for p in parts]
                if any('.sum(' in t for t in texts) and any(
                        re.search(r'(>|!=)\s*0', t) for t in texts):
                    kinds = {'sensitive'}
            if not kinds:
                col.unknown(rule, TABLE, 'Table.remove_empty', 'predicate',
                            filt[0], 'emptiness test not recognised')
            else:
                col.check(kinds == {'insensitive'}, rule, TABLE,
                          'Table.remove_empty', 'predicate', filt[0],
                          'a vector is kept iff some entry is non-zero',
                          'emptiness is decided by the sign of the sum: '
                          'vectors whose entries cancel ([1,-1]) or are '
                          'negative are removed although not empty')
            # the ids filtered and the axis agree (same loop variable)
            ax = kwarg(filt[0], 'axis')
            col.check(ax is not None and isinstance(ax, ast.Name) and
                      ('axis=%s' % ax.id) in unparse(sel_expr) or
                      any(('axis=%s' % ax.id) in unparse(p) or
                          ('(%s)' % ax.id) in unparse(p) for p in parts),
                      'AX-IDAPI', TABLE, 'Table.remove_empty', 'axis',
                      filt[0], 'ids, measure and filter use the same axis '
                      'variable', 'the ids filtered are not those of the '
                      'filtered axis')
    if 'subsample' in sel:
        f = repo.func(TABLE, 'Table.subsample')
        lam = [n for n in body_walk(f) if isinstance(n, ast.Lambda) and
               'sum' in unparse(n.body)]
        for i, l in enumerate(lam):
            k = classify_emptiness(l.body)
            col.check(k in ('sensitive', 'insensitive'), rule, TABLE,
                      'Table.subsample', 'post-filter#%d' % (i + 1), l,
                      'sum() > 0 on subsampled counts: enumerated exception, '
                      'counts are non-negative integers by construction '
                      '(kernel writes multinomial / hypergeometric draws)',
                      'post-kernel emptiness filter not recognised')
    if 'pa' in sel:
        f = repo.func(TABLE, 'Table.pa')
        w = [n for n in ast.walk(f) if isinstance(n, ast.Call) and
             call_name(n) in ('np.where', 'where')]
        ok = len(w) == 1 and classify_emptiness(w[0].args[0]) == \
            'insensitive' and len(w[0].args) == 3 and \
            unparse(w[0].args[1]) in ('1.0', '1', '1.') and \
            unparse(w[0].args[2]) in ('0.0', '0', '0.')
        col.soft(ok, rule, TABLE, 'Table.pa', 'presence', w[0] if w else f,
                  '1 exactly where the value is non-zero',
                  'presence/absence is not `1 where value != 0 else 0`')
    if 'stats' in sel:
        f = repo.func('biom/util.py', 'compute_counts_per_sample_stats')
        ifs = [n for n in ast.walk(f) if isinstance(n, ast.If) and
               dotted(n.test) == 'binary_counts']
        ok = False
        if ifs:
            b = unparse(ifs[0].body[0], 300)
            o = unparse(ifs[0].orelse[0], 300) if ifs[0].orelse else ''
            ok = classify_emptiness(ifs[0].body[0]) == 'insensitive' and \
                '.sum()' in o and '!= 0' not in o
        col.soft(ok, rule, 'biom/util.py',
                  'compute_counts_per_sample_stats', 'binary', ifs[0]
                  if ifs else f, 'qualitative counts count non-zero '
                  'entries; quantitative counts sum the vector',
                  'binary / quantitative per-sample counts changed')


# --------------------------------------------------------------------------
# OR-COPERM (sort_order)
# --------------------------------------------------------------------------

def rule_or_coperm(repo, col):
    """sort_order: the matrix, the ids and the metadata placed in the slots
    of the reordered axis all derive from ``order`` (matrix and metadata
    through the same position array); the other axis is passed through."""
    rule = 'OR-COPERM'
    from .flow import taint
    f = repo.func(TABLE, 'Table.sort_order')
    dep = taint(f, lambda n: False, initial={'order'})
    assigns = local_assignments(f)
    fancy = [n for n, vals in assigns.items() for v, st in vals
             if v is not None and 'self.index' in unparse(v, 300) and
             'order' in unparse(v, 300)]
    col.soft(len(fancy) == 1, rule, TABLE, 'Table.sort_order', 'positions',
              f, 'positions are looked up per id of `order`',
              'no position array is derived from order via self.index')
    ctors = [n for n in body_walk(f) if isinstance(n, ast.Call) and
             (call_name(n) or '').endswith('__class__')]
    if len(ctors) != 2:
        col.unknown(rule, TABLE, 'Table.sort_order', 'ctors', f,
                    '%d constructor calls' % len(ctors))
        return
    mod = repo.mod(TABLE)
    for c in ctors:
        # which branch
        from .flow import reached_under
        live = [v for v in ('sample', 'observation')
                if reached_under(f, c, {'axis': v}) is not False]
        ax = live[0] if len(live) == 1 else None
        if ax not in ('sample', 'observation'):
            col.unknown(rule, TABLE, 'Table.sort_order', 'branch', c,
                        'axis branch not recognised')
            continue
        SLOTS = ['data', 'observation_ids', 'sample_ids',
                 'observation_metadata', 'sample_metadata']
        slot = {}
        for i, nm in enumerate(SLOTS):
            v = kwarg(c, nm)
            if v is None and len(c.args) > i:
                v = c.args[i]
            slot[nm] = v
        if any(v is None for v in slot.values()):
            col.unknown(rule, TABLE, 'Table.sort_order', 'slots', c,
                        'constructor slots not all bound')
            continue

        class _A(list):
            pass
        cargs = _A([slot[nm] for nm in SLOTS])
        c = ast.Call(func=c.func, args=list(cargs) + list(c.args[5:]),
                     keywords=[k for k in c.keywords if k.arg not in SLOTS])
        ast.copy_location(c, cargs[0])
        ids_pos, md_pos = (2, 4) if ax == 'sample' else (1, 3)
        oid_pos, omd_pos = (1, 3) if ax == 'sample' else (2, 4)

        def deps(e):
            return any(isinstance(x, ast.Name) and x.id in dep
                       for x in ast.walk(e))
        col.check(deps(c.args[0]), rule, TABLE, 'Table.sort_order',
                  '%s:matrix' % ax, c, 'matrix permuted by order',
                  'the matrix passed does not depend on order: values stay '
                  'in place while ids move')
        col.check(deps(c.args[ids_pos]), rule, TABLE, 'Table.sort_order',
                  '%s:ids' % ax, c, 'ids are the requested order',
                  'the %s ids passed do not derive from order' % ax)
        col.check(deps(c.args[md_pos]), rule, TABLE, 'Table.sort_order',
                  '%s:metadata' % ax, c, 'metadata permuted by order',
                  'the %s metadata passed is not permuted: each id gets '
                  'another id\'s metadata' % ax)
        col.check(not deps(c.args[oid_pos]) and not deps(c.args[omd_pos]),
                  rule, TABLE, 'Table.sort_order', '%s:other-axis' % ax, c,
                  'the other axis is passed through unchanged',
                  'the other axis\' ids/metadata depend on order')
        # matrix and metadata use the same position array
        m_src = assigns.get(dotted(c.args[0]), [(None, None)])[-1][0]
        md_src = assigns.get(dotted(c.args[md_pos]), [(None, None)])
        md_exprs = [v for v, st in md_src if v is not None]
        same = fancy and m_src is not None and fancy[0] in unparse(m_src) \
            and any(fancy[0] in unparse(v) for v in md_exprs)
        col.soft(bool(same), rule, TABLE, 'Table.sort_order',
                  '%s:same-positions' % ax, c, 'matrix and metadata are '
                  'indexed by the same position array',
                  'matrix and metadata are not indexed by the same position '
                  'array')
        # table id and type carried over
        col.check(any(dotted(a) == 'self.type' for a in c.args) or
                  dotted(kwarg(c, 'type') or ast.Constant(None)) ==
                  'self.type', rule, TABLE, 'Table.sort_order',
                  '%s:type' % ax, c, 'type carried over',
                  'the reordered table loses its type')
    # update_ids: unmapped ids keep their own id
    u = repo.func(TABLE, 'Table.update_ids')
    g = [n for n in ast.walk(u) if isinstance(n, ast.Call) and isinstance(
        n.func, ast.Attribute) and n.func.attr == 'get' and
        dotted(n.func.value) == 'id_map' and len(n.args) == 2]
    ok = len(g) == 1 and dotted(g[0].args[0]) == dotted(g[0].args[1])
    col.soft(ok, rule, TABLE, 'Table.update_ids', 'partial-rename',
              g[0] if g else u, 'ids without a mapping keep their id',
              'unmapped ids are not kept')
    st = [n for n in ast.walk(u) if isinstance(n, ast.Assign) and isinstance(
        n.targets[0], ast.Subscript) and
        dotted(n.targets[0].value) == 'updated_ids']
    ok = len(st) == 1 and isinstance(st[0].targets[0].slice, ast.Name)
    if ok:
        idxv = st[0].targets[0].slice.id
        loop = [l for l in ast.walk(u) if isinstance(l, ast.For) and
                st[0] in list(ast.walk(l))]
        ok = bool(loop) and isinstance(loop[0].iter, ast.Call) and \
            call_name(loop[0].iter) == 'enumerate' and \
            target_names(loop[0].target)[0] == idxv
    col.soft(ok, rule, TABLE, 'Table.update_ids', 'position-preserved',
              st[0] if st else u, 'the new id is written at the position of '
              'the old one', 'renamed ids are not written at the position '
              'of the id they replace')
    # width of the fixed-width array covers every new (and kept) id
    w = [n for n in body_walk(u) if isinstance(n, ast.Assign) and
         dotted(n.targets[0]) == 'max_str_len']
    srcs = ' '.join(unparse(n.value, 300) for n in w)
    ok = 'id_map.values()' in srcs and ('for i in ids' in srcs or
                                        'self.ids' in srcs)
    if ok:
        col.ok(rule, TABLE, 'Table.update_ids', 'width', w[0],
               'the id array is as wide as the longest new or kept id')
    else:
        col.unknown(rule, TABLE, 'Table.update_ids', 'width',
                    w[0] if w else u, 'width computation not recognised')


# --------------------------------------------------------------------------
# merge
# --------------------------------------------------------------------------

def _merge_receiver_disjunct(col, f, assigns, disjuncts, node):
    import itertools
    rule = 'OR-GUARD'

    class Unknown(Exception):
        pass

    def md_axis(e):
        """'S' / 'O' when e reads self's metadata of one axis."""
        if isinstance(e, ast.Call) and dotted(e.func) == 'self.metadata':
            a = kwarg(e, 'axis') or (e.args[1] if len(e.args) > 1 else None)
            if a is None:
                return 'S'
            if const_str(a) in ('sample', 'observation'):
                return 'S' if const_str(a) == 'sample' else 'O'
        if isinstance(e, ast.Attribute) and dotted(e.value) == 'self':
            if e.attr == '_sample_metadata':
                return 'S'
            if e.attr == '_observation_metadata':
                return 'O'
        return None

    def resolve(e, depth=0):
        if isinstance(e, ast.Name) and e.id in assigns and depth < 5:
            vals = [v for v, _ in assigns[e.id] if v is not None]
            if len(vals) == 1 and len(assigns[e.id]) == 1:
                return resolve(vals[0], depth + 1)
        return e

    def ev(e, st):
        e = resolve(e)
        ax = md_axis(e)
        if ax:
            return st[ax]          # 'none' | 'empty' | 'full'
        if isinstance(e, ast.BoolOp):
            vals = [truth(v, st) for v in e.values]
            return all(vals) if isinstance(e.op, ast.And) else any(vals)
        if isinstance(e, ast.UnaryOp) and isinstance(e.op, ast.Not):
            return not truth(e.operand, st)
        if isinstance(e, ast.Compare) and len(e.ops) == 1 and \
                isinstance(e.ops[0], (ast.Is, ast.IsNot)) and \
                isinstance(e.comparators[0], ast.Constant) and \
                e.comparators[0].value is None:
            v = ev(e.left, st)
            if v not in ('none', 'empty', 'full'):
                raise Unknown()
            return (v == 'none') == isinstance(e.ops[0], ast.Is)
        raise Unknown()

    def truth(e, st):
        v = ev(e, st)
        if v in ('none', 'empty'):
            return False
        if v == 'full':
            return True
        return bool(v)

    def mentions_self_md(e, depth=0):
        e = resolve(e)
        for x in ast.walk(e):
            if md_axis(x):
                return True
            if isinstance(x, ast.Name) and x is not e and depth < 4 and \
                    x.id in assigns and mentions_self_md(x, depth + 1):
                return True
        return False

    for d in disjuncts:
        if not mentions_self_md(d):
            continue
        if any(isinstance(x, ast.Call) and dotted(x.func) and
               dotted(x.func).startswith('other')
               for x in ast.walk(resolve(d))):
            continue
        try:
            leaks = []
            for s_, o_ in itertools.product(('none', 'empty', 'full'),
                                            repeat=2):
                if truth(d, {'S': s_, 'O': o_}) and 'full' in (s_, o_):
                    leaks.append((s_, o_))
        except Unknown:
            col.unknown(rule, TABLE, 'Table.merge',
                        'fast-path-guard:receiver-axes', node,
                        'receiver-metadata disjunct not evaluable')
            continue
        col.check(not leaks, rule, TABLE, 'Table.merge',
                  'fast-path-guard:receiver-axes', node,
                  'the receiver-metadata disjunct holds only when the '
                  'receiver has metadata on neither axis',
                  'the fast path (which builds the result without metadata) '
                  'is taken when `%s` holds, which is the case for a '
                  'receiver with sample metadata %s and observation '
                  'metadata %s: that metadata is dropped'
                  % (unparse(resolve(d)),
                     leaks[0][0] if leaks else '', leaks[0][1] if leaks
                     else ''))


def rule_merge(repo, col):
    """merge: the metadata-dropping fast path is reached only under a guard
    that depends on the metadata of every operand (or on both merge
    functions being None); 'union'/'intersection' select the matching id
    helper and anything else raises; _fast_merge reads the eliminating nnz
    before converting to COO and maps observation ids to rows, sample ids to
    columns."""
    f = repo.func(TABLE, 'Table.merge')
    assigns = local_assignments(f)
    mod = repo.mod(TABLE)
    rule = 'OR-GUARD'
    calls = [n for n in body_walk(f) if isinstance(n, ast.Call) and
             dotted(n.func) == 'self._fast_merge']
    if not calls:
        col.unknown(rule, TABLE, 'Table.merge', 'fast-path', f,
                    '_fast_merge is not called')
    else:
        guards = []
        for a in _ancestors(mod, calls[0]):
            if isinstance(a, ast.If):
                guards.append(a.test)
            if a is f:
                break

        def expand(e, depth=0):
            """metadata reads / f-is-None facts mentioned by an expression"""
            facts = set()
            for x in ast.walk(e):
                if isinstance(x, ast.Call) and isinstance(
                        x.func, ast.Attribute) and \
                        x.func.attr == 'metadata':
                    facts.add('md:%s' % dotted(x.func.value))
                if isinstance(x, ast.Attribute) and x.attr in (
                        '_sample_metadata', '_observation_metadata'):
                    facts.add('md:%s' % dotted(x.value))
                if isinstance(x, ast.Compare) and isinstance(
                        x.ops[0], ast.Is) and dotted(x.left) in (
                        'sample_metadata_f', 'observation_metadata_f'):
                    facts.add('f:%s' % dotted(x.left))
                if isinstance(x, ast.Name) and x.id in assigns and depth < 4:
                    for v, st in assigns[x.id]:
                        if v is not None:
                            facts |= expand(v, depth + 1)
            return facts
        md_guard = None
        for g in guards:
            disj = g.values if isinstance(g, ast.BoolOp) and isinstance(
                g.op, ast.Or) else [g]
            if any(expand(d) for d in disj):
                md_guard = disj
        if md_guard is None:
            col.bad(rule, TABLE, 'Table.merge', 'fast-path-guard', calls[0],
                    'the metadata-dropping fast path is not guarded by any '
                    'metadata condition')
        else:
            badd = []
            for d in md_guard:
                facts = expand(d)
                both_f = {'f:sample_metadata_f',
                          'f:observation_metadata_f'} <= facts
                mds = {x for x in facts if x.startswith('md:')}
                all_ops = {'md:self', 'md:other'} <= mds
                if not (both_f or all_ops):
                    badd.append((d, facts))
            col.check(not badd, rule, TABLE, 'Table.merge',
                      'fast-path-guard', calls[0],
                      'every disjunct of the guard looks at the metadata of '
                      'all operands or at both merge functions',
                      'the fast path (which builds the result without '
                      'metadata) is taken when %s holds, a condition that '
                      'does not look at the other operand\'s metadata: a '
                      'receiver without metadata merged with a table that '
                      'has some loses it' % (unparse(badd[0][0])
                                             if badd else ''))
        # the fast path aggregates over the union of ids: it is only taken
        # for union/union
        for k, c_ in enumerate(calls, 1):
            uu = False
            for a in _ancestors(mod, c_):
                if isinstance(a, ast.If) and any(
                        x is c_ for b_ in a.body for x in ast.walk(b_)):
                    eqs = {dotted(x.left) for x in ast.walk(a.test)
                           if isinstance(x, ast.Compare) and isinstance(
                               x.ops[0], ast.Eq) and const_str(
                               x.comparators[0]) == 'union'}
                    if {'sample', 'observation'} <= eqs:
                        uu = True
                if a is f:
                    break
            col.check(uu, 'AG-MERGEKIND', TABLE, 'Table.merge',
                      'fast-path-union-only#%d' % k, c_,
                      'reached only for union/union',
                      'the aggregation over all ids (`%s`) is reached for '
                      'a merge that is not union/union: an intersection '
                      'computed this way drops the metadata handling and '
                      'the merge functions' % unparse(c_, 50))
        # every further call of the fast path sits under a metadata guard
        # as well (in the guarded branch, not in its else)
        for k, c_ in enumerate(calls[1:], 2):
            under = False
            for a in _ancestors(mod, c_):
                if isinstance(a, ast.If) and any(
                        x is c_ for b_ in a.body for x in ast.walk(b_)):
                    disj_ = a.test.values if isinstance(
                        a.test, ast.BoolOp) and isinstance(
                        a.test.op, ast.Or) else [a.test]
                    if any(expand(d_) for d_ in disj_):
                        under = True
                if a is f:
                    break
            col.check(under, rule, TABLE, 'Table.merge',
                      'fast-path-guard#%d' % k, c_,
                      'guarded by a metadata condition',
                      'a further call of the metadata-dropping fast path '
                      '(`%s`) is reached without any condition on the '
                      'operands\' metadata' % unparse(c_, 50))
        # the receiver-only disjunct must at least mean "the receiver has
        # no metadata on either axis" (three-valued truth table over
        # None / empty / non-empty for each axis read)
        if md_guard is not None:
            _merge_receiver_disjunct(col, f, assigns, md_guard, calls[0])
    # literal <-> helper
    rule = 'AG-MERGEKIND'
    for param in ('sample', 'observation'):
        pairs = {}
        has_raise = False
        for n in body_walk(f):
            if isinstance(n, ast.If) and isinstance(n.test, ast.Compare) and \
                    dotted(n.test.left) == param and isinstance(
                        n.test.ops[0], ast.Eq):
                cur = n
                while isinstance(cur, ast.If):
                    lit = const_str(cur.test.comparators[0])
                    helper = [call_name(c) for b in cur.body
                              for c in ast.walk(b) if isinstance(c, ast.Call)
                              and (call_name(c) or '').endswith('_id_order')]
                    if helper:
                        pairs[lit] = helper[0].split('.')[-1]
                    nxt = cur.orelse
                    if len(nxt) == 1 and isinstance(nxt[0], ast.If):
                        cur = nxt[0]
                    else:
                        has_raise = any(isinstance(x, ast.Raise)
                                        for x in nxt)
                        cur = None
        if not pairs:
            continue
        col.check(pairs == {'union': '_union_id_order',
                            'intersection': '_intersect_id_order'}, rule,
                  TABLE, 'Table.merge', 'kind:%s' % param, f,
                  "'union' -> _union_id_order, 'intersection' -> "
                  '_intersect_id_order', 'merge kinds are mapped to %s'
                  % pairs)
        col.check(has_raise, rule, TABLE, 'Table.merge',
                  'unknown-kind:%s' % param, f, 'any other value raises',
                  'an unknown %s merge kind is not refused' % param)
    # helper semantics
    u = repo.func(TABLE, 'Table._union_id_order')
    src = unparse(u, 3000)
    col.soft('not in new_order' in src and 'extend' in src, rule, TABLE,
              'Table._union_id_order', 'union', u, 'ids of a then new ids '
              'of b, first occurrence order', 'union helper changed shape')
    i = repo.func(TABLE, 'Table._intersect_id_order')
    src = unparse(i, 3000)
    col.soft(re.search(r'if id_ in all_b', src) is not None and
              'for id_ in a' in src, rule, TABLE,
              'Table._intersect_id_order', 'intersection', i,
              'ids of a that are also in b, in a\'s order',
              'intersection helper changed shape')
    # _fast_merge
    g = repo.func(TABLE, 'Table._fast_merge')
    cfg = CFG(g)
    nn = [n for n in cfg.stmt_nodes() if n.kind == 'stmt' and isinstance(
        n.stmt, ast.Assign) and isinstance(n.stmt.value, ast.Attribute) and
        n.stmt.value.attr == 'nnz' and
        dotted(n.stmt.value.value) == 'table']
    coo = [n for n in cfg.stmt_nodes() if n.kind == 'stmt' and any(
        isinstance(c, ast.Call) and isinstance(c.func, ast.Attribute) and
        c.func.attr == 'tocoo' for c in walk_shallow(n.stmt))]
    from .rules_canon import invariant_g
    ok = bool(nn) and bool(coo) and cfg.dominates(nn[0], coo[0])
    col.check(ok or invariant_g(repo)[0], 'OR-CANON', TABLE,
              'Table._fast_merge', 'nnz-before-coo',
              coo[0].stmt if coo else g, 'the eliminating nnz property is '
              'read before the COO arrays (whose length must equal it) are '
              'taken', 'the COO arrays are taken before stored zeros are '
              'eliminated: their length can exceed the slot sized by nnz')
    # row_map from observation ids -> coo.row ; col_map from sample ids
    src = unparse(g, 6000)
    okr = re.search(r"row_map = np\.array\(\[feature_map\[i\] for i in "
                    r"table\.ids\(axis='observation'\)\]", src) and \
        'coo.row = row_map[coo.row]' in src
    okc = re.search(r"col_map = np\.array\(\[sample_map\[i\] for i in "
                    r"table\.ids\(\)\]", src) and \
        'coo.col = col_map[coo.col]' in src
    if okr and okc:
        col.ok('AX-MATOP', TABLE, 'Table._fast_merge', 'remap', g,
               'rows are remapped through observation ids, columns through '
               'sample ids')
    else:
        col.unknown('AX-MATOP', TABLE, 'Table._fast_merge', 'remap', g,
                    'remapping shape not recognised')
    # prefer_self
    p = repo.func('biom/util.py', 'prefer_self')
    params = param_names(p)

    def outcome(stmts, x_is_none):
        """Which parameter prefer_self returns when x is / is not None."""
        def truth(t):
            if isinstance(t, ast.Compare) and len(t.ops) == 1 and \
                    dotted(t.left) == params[0] and isinstance(
                        t.comparators[0], ast.Constant) and \
                    t.comparators[0].value is None:
                if isinstance(t.ops[0], ast.Is):
                    return x_is_none
                if isinstance(t.ops[0], ast.IsNot):
                    return not x_is_none
            if isinstance(t, ast.UnaryOp) and isinstance(t.op, ast.Not):
                v = truth(t.operand)
                return None if v is None else not v
            return None

        def ev(e):
            if isinstance(e, ast.IfExp):
                v = truth(e.test)
                if v is None:
                    return None
                return ev(e.body if v else e.orelse)
            return dotted(e)
        for st in stmts:
            if isinstance(st, ast.Expr) and isinstance(st.value,
                                                       ast.Constant):
                continue
            if isinstance(st, ast.Return):
                return ev(st.value)
            if isinstance(st, ast.If):
                v = truth(st.test)
                if v is None:
                    return None
                r_ = outcome(st.body if v else st.orelse, x_is_none)
                if r_ is not None:
                    return r_
                continue
            return None
        return None
    ok = len(params) == 2 and outcome(p.body, True) == params[1] and \
        outcome(p.body, False) == params[0]
    col.check(ok, 'AG-MERGEKIND', 'biom/util.py', 'prefer_self', 'policy', p,
              'the receiver\'s metadata if it has any, otherwise the '
              'other\'s', 'default metadata policy changed')
    # the metadata functions are applied to (self_md, other_md) in order
    for fn, role in (('sample_metadata_f', 'sample'),
                     ('observation_metadata_f', 'observation')):
        c = [n for n in body_walk(f) if isinstance(n, ast.Call) and
             dotted(n.func) == fn]
        ok = len(c) == 1 and [dotted(a) for a in c[0].args] == [
            'self_md', 'other_md']
        col.soft(ok, 'AG-MERGEKIND', TABLE, 'Table.merge',
                  'md-function:%s' % role, c[0] if c else f,
                  '%s(self_md, other_md)' % fn,
                  '%s is not applied to (receiver md, other md)' % fn)
    # pointwise sum in the general path
    adds = [n for n in body_walk(f) if isinstance(n, ast.Assign) and
            isinstance(n.value, ast.BinOp) and isinstance(n.value.op,
                                                          ast.Add) and
            {dotted(n.value.left), dotted(n.value.right)} ==
            {'self_vec_value', 'other_vec_value'}]
    col.soft(len(adds) == 1, 'AG-MERGEKIND', TABLE, 'Table.merge',
              'pointwise-sum', adds[0] if adds else f,
              'shared cells hold self value + other value',
              'shared cells are not the sum of both operands\' values')


# --------------------------------------------------------------------------
# concat
# --------------------------------------------------------------------------

def rule_concat(repo, col):
    """concat: a DisjointIDError guarded by a test that depends on every
    operand's axis ids dominates the stacking; every table entering the stack
    is either guarded equal to the common other-axis order or the result of
    sort_order(that order, axis=inverse axis); biom.concat normalises a
    single table like Table.concat does."""
    f = repo.func(TABLE, 'Table.concat')
    cfg = CFG(f)
    mod = repo.mod(TABLE)
    rule = 'OR-DISJOINT'
    raises = [n for n in cfg.stmt_nodes() if n.kind == 'stmt' and
              isinstance(n.stmt, ast.Raise) and
              'DisjointIDError' in unparse(n.stmt)]
    # the stacking functions: hstack / vstack or a local bound to one
    stack_fns = {'hstack', 'vstack'}
    for a_ in ast.walk(f):
        if isinstance(a_, ast.Assign) and isinstance(a_.value, ast.Name) \
                and a_.value.id in ('hstack', 'vstack'):
            stack_fns |= {t.id for t in a_.targets
                          if isinstance(t, ast.Name)}
        elif isinstance(a_, ast.Assign) and isinstance(
                a_.value, ast.Tuple) and isinstance(
                a_.targets[0], ast.Tuple) and len(a_.value.elts) == len(
                a_.targets[0].elts):
            for t, v in zip(a_.targets[0].elts, a_.value.elts):
                if isinstance(v, ast.Name) and v.id in ('hstack', 'vstack') \
                        and isinstance(t, ast.Name):
                    stack_fns.add(t.id)
    # local functions that stack are stacking where they are *called*
    for d_ in ast.walk(f):
        if isinstance(d_, ast.FunctionDef) and d_ is not f and any(
                isinstance(c, ast.Call) and dotted(c.func) in stack_fns
                for c in ast.walk(d_)):
            stack_fns.add(d_.name)
    stacks = [n for n in cfg.stmt_nodes() if n.kind == 'stmt' and
              not isinstance(n.stmt, (ast.FunctionDef, ast.ClassDef)) and
              any(isinstance(c, ast.Call) and dotted(c.func) in stack_fns
                  for c in walk_shallow(n.stmt))]
    if not raises:
        col.bad(rule, TABLE, 'Table.concat', 'refusal', f,
                'no DisjointIDError is raised: overlapping ids on the '
                'concatenated axis are accepted')
    else:
        r = raises[0]
        guard = None
        for a in _ancestors(mod, r.stmt):
            if isinstance(a, ast.If):
                guard = a
                break
        t = unparse(guard.test) if guard else ''
        dep = guard is not None and 'isdisjoint' in t and \
            'table_axis_ids' in t and 'axis_ids' in t
        # accumulated over all operands, on the concatenated axis
        src = unparse(f, 20000)
        acc = 'axis_ids.update(table_axis_ids)' in src and \
            'table_axis_ids = table.ids(axis=axis)' in src
        in_loop = guard is not None and any(
            isinstance(a, ast.For) and dotted(a.iter) == 'all_tables'
            for a in _ancestors(mod, guard))
        if dep and acc and in_loop:
            col.ok(rule, TABLE, 'Table.concat', 'refusal', guard,
                   'each operand\'s axis ids are tested against all earlier '
                   'operands\' ids')
        else:
            col.unknown(rule, TABLE, 'Table.concat', 'refusal', guard or f,
                        'disjointness test shape not recognised')
        # all operands include self
        col.soft('all_tables.insert(0, self)' in src or
                  '[self]' in src, rule, TABLE, 'Table.concat',
                  'includes-self', f, 'the receiver takes part in the test',
                  'the receiver is not among the tables tested')
        # the loop with the raise completes before stacking
        loops = [n for n in cfg.stmt_nodes() if n.kind == 'head' and
                 isinstance(n.stmt, ast.For) and any(
                     x is r.stmt for x in ast.walk(n.stmt))]
        ok = bool(loops) and bool(stacks) and \
            cfg.dominates(loops[0], stacks[0])
        col.check(ok, rule, TABLE, 'Table.concat', 'before-stack',
                  stacks[0].stmt if stacks else f,
                  'the disjointness loop precedes the stacking',
                  'matrices are stacked before disjointness is established')
    # OR-ALIGN
    rule = 'OR-ALIGN'
    appends = [n for n in body_walk(f) if isinstance(n, ast.Call) and
               dotted(n.func) == 'padded_tables.append']
    n_ok = 0
    for a in appends:
        arg = a.args[0]
        if isinstance(arg, ast.Call) and isinstance(arg.func, ast.Attribute) \
                and arg.func.attr == 'sort_order':
            ok = dotted(arg.args[0]) == 'invaxis_order' and \
                dotted(kwarg(arg, 'axis') or ast.Constant(None)) == 'invaxis'
            n_ok += 1
            col.soft(ok, rule, TABLE, 'Table.concat', 'reordered', a,
                      'reordered to the common other-axis order along the '
                      'other axis', 'the table is not sorted to '
                      'invaxis_order along invaxis')
        else:
            g = None
            for anc in _ancestors(mod, a):
                if isinstance(anc, ast.If):
                    g = anc
                    break
            t = unparse(g.test) if g else ''
            ok = g is not None and 'invaxis_order' in t and \
                'ids(axis=invaxis)' in t and '.all()' in t and \
                any(x is a for b in g.body for x in ast.walk(b))
            n_ok += 1
            col.soft(ok, rule, TABLE, 'Table.concat', 'already-aligned', a,
                      'appended unchanged only when its other-axis ids '
                      'equal the common order',
                      'a table enters the stack without being aligned to '
                      'the common other-axis order')
    if n_ok < 2:
        col.unknown(rule, TABLE, 'Table.concat', 'appends', f,
                    'only %d stack entries recognised' % n_ok)
    src = unparse(f, 20000)
    col.soft('invaxis_order = sorted(invaxis_ids)' in src, rule, TABLE,
              'Table.concat', 'common-order', f,
              'the common order covers the union of other-axis ids',
              'the common other-axis order is not the union of ids')
    # SB-WRAP
    rule = 'SB-WRAP'
    w = repo.func('biom/__init__.py', 'concat')
    p = param_names(w)[0]
    norm = any(isinstance(n, ast.If) and isinstance(n.test, ast.Call) and
               call_name(n.test) == 'isinstance' and
               dotted(n.test.args[0]) == p for n in body_walk(w))
    subs = any(isinstance(n, ast.Subscript) and dotted(n.value) == p
               for n in body_walk(w))
    col.check(norm or not subs, rule, 'biom/__init__.py', 'concat',
              'single-table', w, 'a single table is wrapped in a list '
              'before it is subscripted', 'biom.concat subscripts its '
              'argument without the single-instance normalisation '
              'Table.concat applies: biom.concat(table) raises IndexError '
              'although documented')
    c = [n for n in body_walk(w) if isinstance(n, ast.Call) and isinstance(
        n.func, ast.Attribute) and n.func.attr == 'concat']
    # locals bound once to an expression over the parameter
    binds = {}
    for n in body_walk(w):
        if isinstance(n, ast.Assign) and len(n.targets) == 1 and isinstance(
                n.targets[0], ast.Name) and n.targets[0].id != p:
            binds.setdefault(n.targets[0].id, []).append(n.value)

    def res(e):
        if isinstance(e, ast.Name) and len(binds.get(e.id, [])) == 1:
            return res(binds[e.id][0])
        if isinstance(e, ast.Call) and call_name(e) in ('list', 'tuple') \
                and len(e.args) == 1:
            return res(e.args[0])
        return unparse(e)
    verdicts = []
    for call in c:
        recv = res(call.func.value)
        arg0 = res(call.args[0]) if call.args and not isinstance(
            call.args[0], ast.Starred) else None
        fwd = any(isinstance(a, ast.Starred) for a in call.args) and \
            any(kw.arg is None for kw in call.keywords)
        if not fwd:
            verdicts.append((False, call, 'extra arguments not forwarded'))
        elif recv == '%s[0]' % p and arg0 == '%s[1:]' % p:
            verdicts.append((True, call, ''))
        elif recv == p and arg0 in ('[]', '()'):
            verdicts.append((True, call, ''))     # the lone-table form
        elif recv == '%s[0]' % p and arg0 is not None and \
                arg0.startswith('%s[' % p):
            verdicts.append((False, call, 'rest is `%s`' % arg0))
        elif recv.startswith('%s[' % p) and recv != '%s[0]' % p:
            verdicts.append((False, call, 'the receiver is `%s`, not the '
                             'first table: the result does not start with '
                             'the first operand\'s ids' % recv))
        else:
            verdicts.append((None, call, 'form not recognised'))
    if not c:
        col.bad(rule, 'biom/__init__.py', 'concat', 'delegates', w,
                'biom.concat does not call Table.concat')
    for okv, call, why in verdicts:
        if okv is None:
            col.unknown(rule, 'biom/__init__.py', 'concat', 'delegates',
                        call, why)
        else:
            col.check(okv, rule, 'biom/__init__.py', 'concat', 'delegates',
                      call, 'first table concatenates the rest; extra '
                      'arguments forwarded', 'biom.concat does not delegate '
                      'tables[0].concat(tables[1:], *args, **kwargs): %s'
                      % why)


RULE_TEXT.update({
    'SB-EMPTY': rule_sb_empty.__doc__,
    'OR-COPERM': rule_or_coperm.__doc__,
    'OR-GUARD': 'the metadata-dropping fast merge path is reached only under '
                'a guard that depends on the metadata of every operand, or '
                'on both merge functions being None',
    'AG-MERGEKIND': "merge kinds: 'union'/'intersection' select the matching "
                    'helper, other values raise; default metadata policy; '
                    'pointwise sum',
    'OR-DISJOINT': rule_concat.__doc__,
    'OR-ALIGN': 'every table entering the stack is aligned to the common '
                'other-axis order',
    'SB-WRAP': 'biom.concat applies the single-instance normalisation '
               'Table.concat applies',
    'OR-CANON': 'structure-sensitive reads follow the elimination of stored '
                'zeros',
    'AX-MATOP': 'matrix operations act on the dimension of the axis '
                'concerned',
    'AX-IDAPI': 'ids are used with the axis they belong to',
})


# --------------------------------------------------------------------------
# construction inputs (C17)
# --------------------------------------------------------------------------

CONVERTERS = ('nparray_to_sparse', 'list_nparray_to_sparse',
              'list_dict_to_sparse', 'list_sparse_to_sparse',
              'dict_to_sparse', 'list_list_to_sparse',
              'coo_arrays_to_sparse')


def rule_to_sparse(repo, col):
    """Table._to_sparse: every documented input form has a branch calling a
    defined converter with the dtype (and shape where accepted); unknown
    input raises the table error; every converter ends in a CSR matrix with
    stored zeros eliminated."""
    rule = 'AG-INPUTS'
    f = repo.func(TABLE, 'Table._to_sparse')
    forms = {
        'ndarray': 'nparray_to_sparse',
        'list-of-ndarray': 'list_nparray_to_sparse',
        'list-of-dict': 'list_dict_to_sparse',
        'list-of-sparse': 'list_sparse_to_sparse',
        'dict': 'dict_to_sparse',
        'list-of-list': 'list_list_to_sparse',
    }
    called = {}
    # a converter may be selected first and called through a local
    via = {}
    for n in body_walk(f):
        if isinstance(n, ast.Assign) and isinstance(n.value, ast.Name) and \
                n.value.id in CONVERTERS:
            for t in n.targets:
                if isinstance(t, ast.Name):
                    via.setdefault(t.id, set()).add(n.value.id)
    for n in body_walk(f):
        if isinstance(n, ast.Call) and call_name(n) in CONVERTERS:
            called.setdefault(call_name(n), []).append(n)
        elif isinstance(n, ast.Call) and isinstance(n.func, ast.Name) and \
                n.func.id in via:
            for conv_ in via[n.func.id]:
                called.setdefault(conv_, []).append(n)
    for form, conv in forms.items():
        ok = conv in called and repo.has_func(TABLE, conv)
        col.check(ok, rule, TABLE, 'Table._to_sparse', 'form:%s' % form,
                  called.get(conv, [f])[0], 'dispatches to %s' % conv,
                  'input form %s no longer reaches %s' % (form, conv))
        for c in called.get(conv, []):
            has_dtype = any(dotted(a) == 'dtype' for a in c.args) or \
                dotted(kwarg(c, 'dtype') or ast.Constant(None)) == 'dtype'
            col.check(has_dtype, rule, TABLE, 'Table._to_sparse',
                      'dtype:%s' % conv, c, 'dtype forwarded',
                      'dtype is not forwarded to %s' % conv)
    for conv in ('dict_to_sparse', 'list_list_to_sparse',
                 'coo_arrays_to_sparse'):
        for c in called.get(conv, []):
            shp = dotted(kwarg(c, 'shape') or (c.args[2] if len(c.args) > 2
                                               else ast.Constant(None)))
            # a dense nested list carries its own shape (data taken from a
            # `coo_matrix(values)` of the input): there the id-derived shape
            # must NOT replace it, or the size checks can never fire
            a0 = c.args[0] if c.args else None
            dense_src = None
            if isinstance(a0, ast.Tuple) and a0.elts and isinstance(
                    a0.elts[0], ast.Attribute) and isinstance(
                    a0.elts[0].value, ast.Name):
                nm = a0.elts[0].value.id
                for v, _ in local_assignments(f).get(nm, []):
                    if isinstance(v, ast.Call) and call_name(v) in (
                            'coo_matrix', 'csr_matrix', 'np.asarray',
                            'np.array', 'asarray') and v.args and \
                            dotted(v.args[0]) == 'values':
                        dense_src = nm
            if dense_src is not None:
                col.check(shp == '%s.shape' % dense_src, rule, TABLE,
                          'Table._to_sparse', 'dense-own-shape:%s' % conv,
                          c, 'the dense input keeps its own shape',
                          'a dense nested list is sized by `%s` instead of '
                          'by the data: too many ids are accepted (the '
                          'table is padded with zero vectors) and too few '
                          'raise a scipy error instead of the table error'
                          % shp)
                continue
            col.check(shp == 'shape', rule, TABLE, 'Table._to_sparse',
                      'shape:%s' % conv, c, 'shape forwarded',
                      'the declared shape is not forwarded to %s: the '
                      'matrix is sized by its largest coordinate' % conv)
    # branches that build a matrix themselves must size it by `shape`
    for n in body_walk(f):
        if isinstance(n, ast.Return) and isinstance(n.value, ast.Call) and \
                call_name(n.value) in ('coo_matrix', 'csr_matrix',
                                       'csc_matrix') and n.value.args:
            a0 = n.value.args[0]
            literal = isinstance(a0, ast.Tuple) and all(
                isinstance(x, ast.Constant) for x in a0.elts)
            uses_shape = any(isinstance(x, ast.Name) and x.id == 'shape'
                             for x in ast.walk(n.value))
            col.check(uses_shape or not literal, rule, TABLE,
                      'Table._to_sparse', 'empty-input-shape', n,
                      'an input without entries yields an all-zero matrix of '
                      'the declared shape', 'an input without entries is '
                      'turned into a matrix of the literal shape %s, '
                      'ignoring the declared shape: an all-zero table '
                      'written as JSON ("data": []) cannot be read back '
                      '(ids no longer match the 0x0 matrix)' % unparse(a0))
    last = f.body[-1]
    raises = [n for n in ast.walk(last) if isinstance(n, ast.Raise) and
              'TableException' in unparse(n)]
    col.check(bool(raises), rule, TABLE, 'Table._to_sparse', 'unknown-input',
              last, 'unknown input raises TableException',
              'unknown input types are not refused')
    # sparse input passes through (canonicalised by the constructor)
    # converters end canonical
    for conv in CONVERTERS:
        g = repo.func(TABLE, conv)
        rets = [n for n in body_walk(g) if isinstance(n, ast.Return)]
        delegates = any(isinstance(r.value, ast.Call) and
                        call_name(r.value) in CONVERTERS + ('csr_matrix',)
                        for r in rets)
        elim = any(isinstance(n, ast.Call) and isinstance(
            n.func, ast.Attribute) and n.func.attr == 'eliminate_zeros'
            for n in body_walk(g))
        tocsr = any(isinstance(n, ast.Call) and isinstance(
            n.func, ast.Attribute) and n.func.attr == 'tocsr'
            for n in body_walk(g))
        from .rules_canon import invariant_g
        if (elim and tocsr) or delegates:
            col.ok('SB-CONVERT', TABLE, conv, 'canonical', g,
                   'ends in tocsr() + eliminate_zeros()')
        elif invariant_g(repo)[0]:
            col.ok('SB-CONVERT', TABLE, conv, 'canonical', g,
                   'does not eliminate zeros itself; the constructor '
                   'canonicalises (invariant G)')
        else:
            col.bad('SB-CONVERT', TABLE, conv, 'canonical', g,
                    'neither the converter nor the constructor eliminates '
                    'explicitly stored zeros (triples containing zeros '
                    'produce a table unequal to the same matrix given '
                    'densely)')
    # constructor: non-sparse input goes through _to_sparse with the shape
    # of the id lists; sparse input is converted to csr; both cast to float
    init = repo.func(TABLE, 'Table.__init__')
    c = [n for n in body_walk(init) if isinstance(n, ast.Call) and
         call_name(n) == 'Table._to_sparse']
    ias = local_assignments(init)

    def res(e, depth=0):
        if isinstance(e, ast.Name) and e.id in ias and depth < 4:
            vals = ias[e.id]
            if len(vals) == 1:
                v, st = vals[0]
                if v is not None:
                    return res(v, depth + 1)
                # n_obs, n_samp = len(a), len(b)
                if isinstance(st, ast.Assign) and isinstance(
                        st.targets[0], ast.Tuple) and isinstance(
                        st.value, ast.Tuple):
                    for t, x in zip(st.targets[0].elts, st.value.elts):
                        if isinstance(t, ast.Name) and t.id == e.id:
                            return res(x, depth + 1)
        return e
    dims = None
    if len(c) == 1 and kwarg(c[0], 'shape') is not None:
        sv = res(kwarg(c[0], 'shape'))
        if isinstance(sv, ast.Tuple) and len(sv.elts) == 2:
            dims = [unparse(res(x)) for x in sv.elts]
    want = ['len(observation_ids)', 'len(sample_ids)']
    if dims is None or set(dims) != set(want):
        col.soft(False, 'AX-SHAPE', TABLE, 'Table.__init__', 'shape',
                 c[0] if c else init, '', 'the shape handed to _to_sparse '
                 'is not resolved to the two id-list lengths')
    else:
        col.check(dims == want, 'AX-SHAPE', TABLE, 'Table.__init__', 'shape',
                  c[0], 'shape = (len(observation_ids), len(sample_ids)) is '
                  'what sizes converted input',
                  'converted input is sized by %s: rows must be '
                  'observations, columns samples' % dims)
    fl = [n for n in body_walk(init) if isinstance(n, ast.Call) and
          isinstance(n.func, ast.Attribute) and n.func.attr == 'astype' and
          n.args and dotted(n.args[0]) in ('float', 'np.float64')]
    col.check(bool(fl), rule, TABLE, 'Table.__init__', 'float', fl[0]
              if fl else init, 'values are cast to float',
              'the matrix is not cast to float')


def rule_or_bypass(repo, col):
    """The value size/type-checked by errcheck/_cast_metadata is the
    supplied metadata on every path."""
    rule = 'OR-BYPASS'
    init = repo.func(TABLE, 'Table.__init__')
    for param, field in (('sample_metadata', '_sample_metadata'),
                         ('observation_metadata', '_observation_metadata')):
        # a store of None into the field on a path where the parameter is
        # not None
        hit = None
        for n in body_walk(init):
            if isinstance(n, ast.If) and isinstance(n.test, ast.Compare) and \
                    dotted(n.test.left) == param and isinstance(
                        n.test.ops[0], ast.IsNot):
                for x in n.body:
                    for y in ast.walk(x):
                        if isinstance(y, ast.Assign) and \
                                dotted(y.targets[0]) == 'self.%s' % field \
                                and isinstance(y.value, ast.Constant) and \
                                y.value.value is None:
                            hit = y
        # the guard of that store, evaluated for an *empty* sequence: no
        # entries is not "every entry is blank"
        if hit is not None:
            from .consteval import ConstEval, UNKNOWN as _UNK
            guard = None
            negated = False
            for n in ast.walk(init):
                if isinstance(n, ast.If) and not (
                        isinstance(n.test, ast.Compare) and
                        dotted(n.test.left) == param):
                    if any(x is hit for b_ in n.body for x in ast.walk(b_)):
                        guard, negated = n, False
                    elif any(x is hit for b_ in n.orelse
                             for x in ast.walk(b_)):
                        guard, negated = n, True
            if guard is not None:
                v = ConstEval(repo).ev(guard.test, TABLE, {param: []})
                if v is not _UNK and negated:
                    v = not v
                if v is _UNK:
                    col.unknown(rule, TABLE, 'Table.__init__',
                                'empty-sequence:%s' % param, guard.test,
                                'guard not evaluable for an empty sequence')
                else:
                    col.check(not v, rule, TABLE, 'Table.__init__',
                              'empty-sequence:%s' % param, guard.test,
                              'an empty sequence is not treated as blank',
                              '`%s` holds for an empty sequence: metadata '
                              'with no entries at all (wrong length for a '
                              'non-empty axis) is silently turned into None '
                              'instead of being refused'
                              % (('not (%s)' if negated else '%s')
                                 % unparse(guard.test, 60)))
        col.check(hit is None, rule, TABLE, 'Table.__init__',
                  'all-falsy:%s' % param, hit or init,
                  'supplied metadata is always what is checked',
                  'when every supplied entry is falsy the field is set to '
                  'None before errcheck/_cast_metadata run: metadata of the '
                  'wrong length ([{},{},{}] for 2 ids) or of non-mapping '
                  'entries ([0, 0]) is accepted')


def rule_importers(repo, col):
    """from_adjacency / parse_uc: the row coordinate is the position in the
    list passed as observation ids and the column coordinate the position in
    the list passed as sample ids; counts accumulate per (observation,
    sample) pair."""
    rule = 'AX-COORD'
    f = repo.func(TABLE, 'Table.from_adjacency')
    assigns = local_assignments(f)
    ctor = [n for n in body_walk(f) if isinstance(n, ast.Call) and
            call_name(n) == 'Table']
    coo = [n for n in body_walk(f) if isinstance(n, ast.Call) and
           call_name(n) == 'coo_matrix']
    ok = None

    def ctor_arg(call, pos, name):
        # positional or keyword argument of the Table constructor
        if len(call.args) > pos and not any(
                isinstance(a_, ast.Starred) for a_ in call.args[:pos + 1]):
            return call.args[pos]
        return kwarg(call, name)
    if len(ctor) == 1 and len(coo) == 1 and \
            ctor_arg(ctor[0], 1, 'observation_ids') is not None and \
            ctor_arg(ctor[0], 2, 'sample_ids') is not None:
        obs_list, samp_list = dotted(
            ctor_arg(ctor[0], 1, 'observation_ids')), dotted(
            ctor_arg(ctor[0], 2, 'sample_ids'))
        arg = coo[0].args[0]
        if isinstance(arg, ast.Tuple) and len(arg.elts) == 2 and \
                isinstance(arg.elts[1], ast.Tuple):
            rowv, colv = [dotted(x) for x in arg.elts[1].elts]

            def index_source(v):
                """v = [idx[x] for x in ...]; idx = {o: i for i, o in
                enumerate(LIST)} -> LIST"""
                src = assigns.get(v, [(None, None)])[0][0]
                if src is None:
                    return None
                names = {x.id for x in ast.walk(src)
                         if isinstance(x, ast.Name)}
                for nm in names:
                    for v2, st in assigns.get(nm, []):
                        if isinstance(v2, ast.DictComp) and isinstance(
                                v2.generators[0].iter, ast.Call) and \
                                call_name(v2.generators[0].iter) == \
                                'enumerate':
                            return dotted(v2.generators[0].iter.args[0])
                return None
            rs, cs = index_source(rowv), index_source(colv)
            if rs and cs:
                ok = (rs == obs_list and cs == samp_list)
                col.check(ok, rule, TABLE, 'Table.from_adjacency',
                          'coordinates', coo[0], 'rows index the '
                          'observation order, columns the sample order',
                          'row positions come from %s and column positions '
                          'from %s, but the table is labelled with '
                          'observations %s and samples %s'
                          % (rs, cs, obs_list, samp_list))
    if ok is None:
        col.unknown(rule, TABLE, 'Table.from_adjacency', 'coordinates', f,
                    'coordinate provenance not recognised')
    # which column of a record is which: parts[0] observation, parts[1]
    # sample -- fixed by the header literal ['#OTU ID', 'SampleID', 'value']
    hdr = [n for n in ast.walk(f) if isinstance(n, ast.List) and
           [const_str(e) for e in n.elts] == ['#OTU ID', 'SampleID',
                                              'value']]
    apps = {}
    for n in body_walk(f):
        if isinstance(n, ast.Call) and isinstance(n.func, ast.Attribute) \
                and n.func.attr == 'append' and n.args and isinstance(
                    n.args[0], ast.Subscript) and isinstance(
                    n.args[0].value, ast.Name) and any(
                    isinstance(v, ast.Call) and isinstance(
                        v.func, ast.Attribute) and v.func.attr == 'split'
                    for v, _ in assigns.get(n.args[0].value.id, [])):
            apps[unparse(n.args[0].slice)] = dotted(n.func.value)
    if hdr and len(ctor) == 1:
        def feeds(listname, target, depth=0):
            if target == listname:
                return True
            if depth > 5 or target is None:
                return False
            for src, _ in assigns.get(target, []):
                if src is None:
                    continue
                for x in ast.walk(src):
                    if isinstance(x, ast.Name) and feeds(listname, x.id,
                                                         depth + 1):
                        return True
            return False
        ok = feeds(apps.get('0', '?'), dotted(
            ctor_arg(ctor[0], 1, 'observation_ids'))) and \
            feeds(apps.get('1', '?'), dotted(
                ctor_arg(ctor[0], 2, 'sample_ids')))
        col.check(ok, rule, TABLE, 'Table.from_adjacency', 'record-fields',
                  hdr[0], 'field 0 names the observation, field 1 the '
                  'sample (as in the header)', 'record fields are not '
                  'mapped observation, sample as the header states')
    # parse_uc
    g = repo.func('biom/parse.py', 'parse_uc')
    ctor = [n for n in body_walk(g) if isinstance(n, ast.Call) and
            call_name(n) == 'Table']
    key = None
    for n in body_walk(g):
        if isinstance(n, ast.AugAssign) and isinstance(
                n.target, ast.Subscript) and isinstance(
                n.target.slice, ast.Tuple) and len(n.target.slice.elts) == 2:
            key = n
    if len(ctor) != 1 or key is None:
        col.unknown(rule, 'biom/parse.py', 'parse_uc', 'coordinates', g,
                    'count accumulation not recognised')
        return
    obs_list = dotted(kwarg(ctor[0], 'observation_ids') or
                      (ctor[0].args[1] if len(ctor[0].args) > 1 else None))
    samp_list = dotted(kwarg(ctor[0], 'sample_ids') or
                       (ctor[0].args[2] if len(ctor[0].args) > 2 else None))
    gass = local_assignments(g)

    def pos_of(v):
        """list whose length gives the position variable v"""
        for val, st in gass.get(v, []):
            if isinstance(val, ast.Call) and call_name(val) == 'len' and \
                    val.args:
                return dotted(val.args[0])
        return None
    r, c = [dotted(x) for x in key.target.slice.elts]
    rs, cs = pos_of(r), pos_of(c)
    if rs and cs:
        col.check(rs == obs_list and cs == samp_list, rule, 'biom/parse.py',
                  'parse_uc', 'coordinates', key, 'counts are keyed '
                  '(observation position, sample position)',
                  'counts are keyed by positions in (%s, %s) but the table '
                  'is built with observations %s and samples %s'
                  % (rs, cs, obs_list, samp_list))
    else:
        col.unknown(rule, 'biom/parse.py', 'parse_uc', 'coordinates', key,
                    'position provenance not recognised')
    col.check(isinstance(key.op, ast.Add) and isinstance(
        key.value, ast.Constant) and key.value.value == 1, rule,
        'biom/parse.py', 'parse_uc', 'count', key,
        'each record adds 1 to its pair', 'records do not add 1 per pair')


# --------------------------------------------------------------------------
# metadata updates (C18)
# --------------------------------------------------------------------------

def rule_metadata_updates(repo, col):
    """add_metadata touches only ids that exist on the axis (exists/index on
    the same axis, update of that id's mapping; new tuple built from the
    axis ids in order); del_metadata deletes only ``del md[k]`` for k in the
    requested keys."""
    rule = 'OR-METAUPD'
    f = repo.func(TABLE, 'Table.add_metadata')
    upd = [n for n in body_walk(f) if isinstance(n, ast.Call) and isinstance(
        n.func, ast.Attribute) and n.func.attr == 'update']
    ok = False
    if len(upd) == 1:
        tgt = upd[0].func.value
        mod = repo.mod(TABLE)
        guarded = any(isinstance(a, ast.If) and isinstance(a.test, ast.Call)
                      and dotted(a.test.func) == 'self.exists'
                      for a in _ancestors(mod, upd[0]))
        ok = isinstance(tgt, ast.Subscript) and guarded
    col.soft(ok, rule, TABLE, 'Table.add_metadata', 'update-existing',
             upd[0] if upd else f, 'only ids that exist are updated, '
             'through their own mapping', 'update statement')
    built = [n for n in body_walk(f) if isinstance(n, ast.Assign) and
             isinstance(n.value, ast.Call) and call_name(n.value) == 'tuple'
             and n.value.args and isinstance(n.value.args[0],
                                             ast.GeneratorExp)]
    for b in built:
        ge = b.value.args[0]
        it = dotted(ge.generators[0].iter)
        src = local_assignments(f).get(it, [(None, None)])[0][0]
        ok = src is not None and isinstance(src, ast.Call) and \
            dotted(src.func) == 'self.ids' and \
            dotted(kwarg(src, 'axis') or ast.Constant(None)) == 'axis'
        col.soft(ok, rule, TABLE, 'Table.add_metadata',
                 'new-tuple:%s' % dotted(b.targets[0]), b,
                 'one entry per id of the axis, in order; ids without an '
                 'entry get None', 'tuple construction')
    d = repo.func(TABLE, 'Table.del_metadata')
    dels = [n for n in ast.walk(d) if isinstance(n, ast.Delete)]
    ok = len(dels) == 1 and isinstance(dels[0].targets[0], ast.Subscript)
    if ok:
        kvar = dotted(dels[0].targets[0].slice)
        mod = repo.mod(TABLE)
        ok = any(isinstance(a, ast.For) and dotted(a.target) == kvar and
                 dotted(a.iter) == 'keys' for a in _ancestors(mod, dels[0]))
    col.check(ok, rule, TABLE, 'Table.del_metadata', 'deletes-named-keys',
              dels[0] if dels else d, 'the only deletion is `del md[k]` for '
              'k in keys', 'del_metadata deletes something other than the '
              'named keys')
    # iterates the requested axes
    loops = [n for n in d.body if isinstance(n, ast.For) and
             dotted(n.iter) == 'axes']
    ok = False
    if loops:
        av = dotted(loops[0].target)
        calls = [c for c in ast.walk(loops[0]) if isinstance(c, ast.Call) and
                 dotted(c.func) in ('self.metadata', 'self.ids')]
        ok = bool(calls) and all(dotted(kwarg(c, 'axis') or
                                        ast.Constant(None)) == av
                                 for c in calls)
    col.soft(ok, rule, TABLE, 'Table.del_metadata', 'axes', loops[0]
             if loops else d, 'only the requested axes are visited',
             'axis loop')


def rule_density(repo, col):
    """get_table_density divides the eliminating nnz by the product of both
    axis lengths, each taken once."""
    rule = 'AX-SHAPE'
    f = repo.func(TABLE, 'Table.get_table_density')
    lens = []
    for n in ast.walk(f):
        if isinstance(n, ast.Call) and call_name(n) == 'len' and n.args and \
                isinstance(n.args[0], ast.Call) and \
                dotted(n.args[0].func) == 'self.ids':
            a = kwarg(n.args[0], 'axis')
            lens.append(const_str(a) if a is not None else 'sample')
        if isinstance(n, ast.Subscript) and \
                dotted(n.value) == 'self.shape' and isinstance(
                    n.slice, ast.Constant):
            lens.append({0: 'observation', 1: 'sample'}.get(n.slice.value))
    col.check(sorted(lens) == ['observation', 'sample'], rule, TABLE,
              'Table.get_table_density', 'denominator', f,
              'both axis lengths, once each', 'the denominator uses axis '
              'lengths %s' % lens)
    uses_nnz = any(isinstance(n, ast.Attribute) and n.attr == 'nnz' and
                   dotted(n.value) == 'self' for n in ast.walk(f))
    col.check(uses_nnz, 'OR-CANON', TABLE, 'Table.get_table_density',
              'numerator', f, 'numerator is the eliminating nnz property',
              'the numerator is not self.nnz')


RULE_TEXT.update({
    'AG-INPUTS': rule_to_sparse.__doc__,
    'SB-CONVERT': 'converters end canonical (or the constructor '
                  'canonicalises)',
    'OR-BYPASS': rule_or_bypass.__doc__,
    'AX-COORD': rule_importers.__doc__,
    'OR-METAUPD': rule_metadata_updates.__doc__,
    'AX-SHAPE': 'shape[0] <-> observation, shape[1] <-> sample',
})
