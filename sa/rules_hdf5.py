"""HDF5 writer / reader / specification agreement (C01, C04)."""
import ast
import re

from .astutil import (body_walk, call_name, const_str, dotted, kwarg,
                      local_assignments, param_names, target_names, unparse,
                      walk_shallow)
from .cfg import CFG
from .consteval import ConstEval, UNKNOWN
from .flow import nested_functions
from .source import AnalysisError

TABLE = 'biom/table.py'
PARSE = 'biom/parse.py'
AXES = ('observation', 'sample')


# --------------------------------------------------------------------------
# writer model
# --------------------------------------------------------------------------

class WriterModel:
    """What Table.to_hdf5 (plus the formatters) creates."""

    def __init__(self, repo):
        self.repo = repo
        self.ce = ConstEval(repo)
        self.attrs = {}       # name -> value expr node
        self.groups = {}      # path -> node
        self.datasets = {}    # path -> call node (per axis binding)
        self.ds_info = {}     # path -> dict(dtype=, data=, shape=, env=)
        self.axis_pairs = []
        self.loop = None
        self._build()

    def _build(self):
        f = self.repo.func(TABLE, 'Table.to_hdf5')
        self.func = f
        root = param_names(f)[1]
        self.root = root
        for n in body_walk(f):
            if isinstance(n, ast.Assign) and isinstance(
                    n.targets[0], ast.Subscript) and \
                    dotted(n.targets[0].value) == '%s.attrs' % root:
                k = const_str(n.targets[0].slice)
                if k:
                    self.attrs.setdefault(k, []).append(n)
        # the axis loops (the work may be split over several of them)
        self.loops = []
        self.loop_of = {}
        for n in f.body:
            if isinstance(n, ast.For):
                vals = self.ce.ev(n.iter, TABLE) if not (
                    isinstance(n.iter, ast.Call) and
                    call_name(n.iter) == 'zip') else None
                if isinstance(n.iter, ast.Call) and \
                        call_name(n.iter) == 'zip':
                    cols = [self.ce.ev(a, TABLE) for a in n.iter.args]
                    # a column that is not a literal (e.g. values collected
                    # beforehand) does not matter for the paths
                    known = [c for c in cols if c is not UNKNOWN]
                    if known and all(isinstance(c, (list, tuple))
                                     for c in known):
                        width = min(len(c) for c in known)
                        cols = [c if c is not UNKNOWN else [UNKNOWN] * width
                                for c in cols]
                        vals = list(zip(*cols))
                if vals is not UNKNOWN and vals and isinstance(
                        vals, (list, tuple)) and all(
                        v in AXES or (isinstance(v, tuple) and
                                      v[0] in AXES) for v in vals):
                    names = target_names(n.target)
                    envs = []
                    for v in vals:
                        env = dict(zip(names, v if isinstance(v, tuple)
                                       else (v,)))
                        env = {k: x for k, x in env.items()
                               if x is not UNKNOWN}
                        envs.append(env)
                    self.loops.append((n, envs))
        if not self.loops:
            raise AnalysisError('to_hdf5: axis loop over %s not found'
                                % (AXES,))

        def makes_axis_group(lp):
            return any(isinstance(x, ast.Call) and isinstance(
                x.func, ast.Attribute) and x.func.attr == 'create_group'
                and dotted(x.func.value) == root for x in ast.walk(lp))
        main = [le for le in self.loops if makes_axis_group(le[0])] or \
            self.loops[:1]
        self.loop, self.axis_pairs = main[0]
        carried = {}
        for loop, envs in self.loops:
          for k_env, env in enumerate(envs):
            # a handle bound in an earlier loop and not re-bound here still
            # denotes the group of that loop's last iteration
            grpvars = dict(carried)
            for n in ast.walk(loop):
                if isinstance(n, ast.Assign) and isinstance(
                        n.value, ast.Call) and isinstance(
                        n.value.func, ast.Attribute) and \
                        n.value.func.attr in ('create_group',
                                              'require_group') and \
                        dotted(n.value.func.value) == root:
                    p = self.ce.ev(n.value.args[0], TABLE, env)
                    if p is not UNKNOWN:
                        grpvars[dotted(n.targets[0])] = p
                        if n.value.func.attr == 'create_group':
                            self.groups[p] = n
                elif isinstance(n, ast.Assign) and isinstance(
                        n.value, ast.Subscript) and \
                        dotted(n.value.value) == root:
                    # grp = h5grp[axis]: a handle on a group made earlier
                    p = self.ce.ev(n.value.slice, TABLE, env)
                    if p is not UNKNOWN and isinstance(p, str):
                        grpvars[dotted(n.targets[0])] = p
            for n in ast.walk(loop):
                if isinstance(n, ast.Call) and isinstance(
                        n.func, ast.Attribute) and \
                        n.func.attr in ('create_group', 'create_dataset') \
                        and dotted(n.func.value) in grpvars and n.args:
                    p = self.ce.ev(n.args[0], TABLE, env)
                    if p is UNKNOWN:
                        # pattern such as 'group-metadata/%s' % key
                        a = n.args[0]
                        if isinstance(a, ast.BinOp) and const_str(a.left):
                            p = const_str(a.left).replace('%s', '*')
                        else:
                            continue
                    full = '%s/%s' % (grpvars[dotted(n.func.value)], p)
                    self.loop_of[id(n)] = loop
                    if n.func.attr == 'create_group':
                        self.groups[full] = n
                    else:
                        self.datasets.setdefault(full, []).append(n)
                        self.ds_info.setdefault(full, []).append(
                            {'call': n, 'env': env, 'k': k_env,
                             'loop': loop,
                             'dtype': kwarg(n, 'dtype'),
                             'data': kwarg(n, 'data'),
                             'shape': kwarg(n, 'shape')})
            if k_env == len(envs) - 1:
                carried = dict(grpvars)
        # formatters create metadata/<category>
        self.formatter_paths = {}
        for q in ('general_formatter', 'vlen_list_of_str_formatter'):
            g = self.repo.func(TABLE, q)
            assigns = local_assignments(g)
            for n in ast.walk(g):
                if isinstance(n, ast.Call) and isinstance(
                        n.func, ast.Attribute) and \
                        n.func.attr == 'create_dataset' and n.args:
                    a = n.args[0]
                    if isinstance(a, ast.Name) and a.id in assigns:
                        a = assigns[a.id][0][0]
                    if isinstance(a, ast.BinOp) and const_str(a.left):
                        self.formatter_paths.setdefault(q, []).append(
                            (const_str(a.left), a.right, n))
                    elif isinstance(a, ast.JoinedStr):
                        # f'metadata/{name}' read as 'metadata/%s' % name
                        fv = [v for v in a.values
                              if isinstance(v, ast.FormattedValue)]
                        if len(fv) == 1 and fv[0].format_spec is None:
                            tmpl = ''.join(
                                '%s' if isinstance(v, ast.FormattedValue)
                                else str(v.value) for v in a.values)
                            self.formatter_paths.setdefault(q, []).append(
                                (tmpl, fv[0].value, n))


class ReaderModel:
    """What Table.from_hdf5 reads: attrs and paths, by abstract evaluation of
    group handles."""

    def __init__(self, repo):
        self.repo = repo
        self.ce = ConstEval(repo)
        self.attrs = {}
        self.paths = {}       # path -> node
        self._build()

    def _build(self):
        f = self.repo.func(TABLE, 'Table.from_hdf5')
        self.func = f
        root = param_names(f)[1]
        nested = nested_functions(f)
        for n in ast.walk(f):
            if isinstance(n, ast.Subscript) and \
                    dotted(n.value) == '%s.attrs' % root and \
                    const_str(n.slice):
                self.attrs.setdefault(const_str(n.slice), n)
        # handles: name -> set of paths
        handles = {root: {''}}
        axis_vals = list(AXES)

        def keyvals(k, scope_env):
            out = set()
            for ax in axis_vals:
                v = self.ce.ev(k, TABLE, dict(scope_env, axis=ax))
                if v is not UNKNOWN and isinstance(v, str):
                    out.add(v)
            return out

        def paths_of(e, hs):
            if isinstance(e, ast.Name):
                return hs.get(e.id, set())
            if isinstance(e, ast.Subscript):
                base = paths_of(e.value, hs)
                if not base:
                    return set()
                keys = keyvals(e.slice, {})
                if not keys:
                    return set()
                return {(b + '/' + k).lstrip('/') for b in base
                        for k in keys}
            if isinstance(e, ast.Call) and isinstance(
                    e.func, ast.Attribute) and e.func.attr == 'get' and \
                    e.args:
                base = paths_of(e.func.value, hs)
                keys = keyvals(e.args[0], {})
                return {(b + '/' + k).lstrip('/') for b in base
                        for k in keys}
            return set()

        changed = True
        while changed:
            changed = False
            for n in ast.walk(f):
                if isinstance(n, ast.Assign) and isinstance(
                        n.targets[0], ast.Name):
                    p = paths_of(n.value, handles)
                    if p - handles.get(n.targets[0].id, set()):
                        handles.setdefault(n.targets[0].id, set()).update(p)
                        changed = True
                if isinstance(n, ast.Call) and call_name(n) in nested:
                    g = nested[call_name(n)]
                    for pn, a in zip(param_names(g), n.args):
                        p = paths_of(a, handles)
                        if p - handles.get(pn, set()):
                            handles.setdefault(pn, set()).update(p)
                            changed = True
        for n in ast.walk(f):
            if isinstance(n, ast.Subscript):
                for p in paths_of(n, handles):
                    if p:
                        self.paths.setdefault(p, n)
        self.handles = handles


# --------------------------------------------------------------------------
# rules
# --------------------------------------------------------------------------

def rule_ag_h5keys(repo, col):
    """Every attribute and path read by from_hdf5 is written by to_hdf5 (or
    a formatter)."""
    rule = 'AG-H5KEYS'
    w = WriterModel(repo)
    r = ReaderModel(repo)
    wcfg = CFG(w.func)
    for a, node in sorted(r.attrs.items()):
        col.check(a in w.attrs, rule, TABLE, 'Table.from_hdf5',
                  'attr:%s' % a, node, 'written by to_hdf5',
                  "from_hdf5 reads attribute '%s' which to_hdf5 never "
                  'writes (KeyError on load)' % a)
        if a in w.attrs:
            avoid = {wcfg.node(n) for n in w.attrs[a]}
            leak = wcfg.path_avoiding(wcfg.entry, wcfg.exit, avoid)
            col.check(not leak, rule, TABLE, 'Table.to_hdf5',
                      'attr-every-path:%s' % a, w.attrs[a][0],
                      'written on every path',
                      "a path through to_hdf5 does not write attribute "
                      "'%s', which from_hdf5 reads unconditionally" % a)
    written = set(w.groups) | set(w.datasets)
    for p, node in sorted(r.paths.items()):
        ok = p in written
        col.check(ok, rule, TABLE, 'Table.from_hdf5', 'path:%s' % p, node,
                  'created by to_hdf5',
                  "from_hdf5 reads '%s' which to_hdf5 never creates" % p)
    if len(r.paths) < 10:
        col.unknown(rule, TABLE, 'Table.from_hdf5', 'paths', None,
                    'only %d paths recognised' % len(r.paths))


DTYPE_WANT = {'matrix/data': ('np.float64', '<float64>'),
              'matrix/indices': ('np.int32', '<int32>'),
              'matrix/indptr': ('np.int32', '<int32>')}


def rule_ag_spec(repo, col):
    """Everything the BIOM 2.1 specification requires is created by to_hdf5
    on every path, with the specified element types."""
    rule = 'AG-SPEC'
    spec = repo.spec()
    w = WriterModel(repo)
    f = w.func
    cfg = CFG(f)
    for a in spec['attrs']:
        nodes = w.attrs.get(a, [])
        if not nodes:
            col.bad(rule, TABLE, 'Table.to_hdf5', 'attr:%s' % a, None,
                    "required attribute '%s' is never written" % a)
            continue
        # written on every path: no path ENTRY->EXIT avoiding all stores
        avoid = {cfg.node(n) for n in nodes}
        leak = cfg.path_avoiding(cfg.entry, cfg.exit, avoid)
        col.check(not leak, rule, TABLE, 'Table.to_hdf5', 'attr:%s' % a,
                  nodes[0], 'written on every path',
                  "a path through to_hdf5 does not write attribute '%s'" % a)
    for g in spec['groups']:
        col.check(g in w.groups, rule, TABLE, 'Table.to_hdf5',
                  'group:%s' % g, w.groups.get(g), 'created',
                  "required group '%s' is never created" % g)
        if g in w.groups:
            _unconditional(col, rule, w, cfg, w.groups[g], 'group:%s' % g)
    for d, typ in spec['datasets'].items():
        calls = w.datasets.get(d, [])
        col.check(bool(calls), rule, TABLE, 'Table.to_hdf5',
                  'dataset:%s' % d, calls[0] if calls else None, 'created',
                  "required dataset '%s' is never created" % d)
        if not calls:
            continue
        # on every path of the loop body: the set of create calls covers
        # every path (e.g. the two ids branches)
        loopcfg_nodes = set()
        for c in calls:
            st = _stmt_of(repo.mod(TABLE), c)
            if cfg.node(st) is not None:
                loopcfg_nodes.add(cfg.node(st))
        head = cfg.node(w.loop_of.get(id(calls[0]), w.loop))
        # a path from loop head back to the loop head (one iteration) or to
        # the exit that avoids all creates
        leak = _iteration_avoids(cfg, head, loopcfg_nodes)
        col.check(not leak, rule, TABLE, 'Table.to_hdf5',
                  'dataset-every-path:%s' % d, calls[0],
                  'created on every path of the axis loop body',
                  "an iteration of the axis loop can complete without "
                  "creating '%s'" % d)
        suffix = d.split('/', 1)[1]
        for info in [i for i in w.ds_info.get(d, [])]:
            dt = info['dtype']
            if suffix in DTYPE_WANT:
                want, spect = DTYPE_WANT[suffix]
                col.check(spect in typ, rule, TABLE, '<spec>',
                          'spec-type:%s' % d, None,
                          'the specification asks %s' % spect,
                          'specification type text changed: %s' % typ)
                col.check(dt is not None and dotted(dt) == want, rule, TABLE,
                          'Table.to_hdf5', 'dtype:%s' % d, info['call'],
                          'element type %s' % want,
                          "'%s' is written with dtype %s, the specification "
                          'requires %s' % (d, unparse(dt) if dt is not None
                                           else 'default', spect))
            elif suffix == 'ids':
                if dt is not None:
                    col.check(dotted(dt) == 'H5PY_VLEN_STR', rule, TABLE,
                              'Table.to_hdf5', 'dtype:%s' % d, info['call'],
                              'variable-length string',
                              "'%s' is written with dtype %s"
                              % (d, unparse(dt)))
                else:
                    shp = info['shape']
                    empty = shp is not None and isinstance(
                        shp, ast.Tuple) and len(shp.elts) == 1 and \
                        isinstance(shp.elts[0], ast.Constant) and \
                        shp.elts[0].value == 0
                    if empty:
                        col.info(rule, TABLE, 'Table.to_hdf5',
                                 'dtype-empty:%s' % d, info['call'],
                                 'empty-axis branch: zero-length ids dataset '
                                 'with the default element type (h5py cannot '
                                 'create empty vlen-str datasets); holds no '
                                 'element of a wrong type')
                    else:
                        col.bad(rule, TABLE, 'Table.to_hdf5', 'dtype:%s' % d,
                                info['call'], 'non-empty ids dataset without '
                                'a string dtype')
    # H5PY_VLEN_STR is h5py's vlen str dtype
    ce = ConstEval(repo)
    v = ce.module_assign('biom/util.py', 'H5PY_VLEN_STR')
    ok = isinstance(v, ast.Call) and dotted(v.func) in (
        'h5py.special_dtype', 'h5py.string_dtype') and (
        dotted(kwarg(v, 'vlen') or ast.Constant(None)) == 'str' or
        dotted(v.func) == 'h5py.string_dtype')
    col.check(ok, rule, 'biom/util.py', '<module>', 'H5PY_VLEN_STR', v,
              'h5py variable-length str dtype',
              'H5PY_VLEN_STR is not the variable-length str dtype')
    # format-version constant
    fv = w.attrs.get('format-version', [])
    if fv:
        val = fv[0].value
        ok = None
        if dotted(val) == 'self.format_version':
            init = repo.func(TABLE, 'Table.__init__')
            for n in body_walk(init):
                if isinstance(n, ast.Assign) and \
                        dotted(n.targets[0]) == 'self.format_version':
                    ok = ce.ev(n.value, TABLE)
        else:
            ok = ce.ev(val, TABLE)
        col.check(ok == (2, 1), rule, TABLE, 'Table.to_hdf5',
                  'const:format-version', fv[0],
                  'format-version (2, 1)', 'format-version written is %r'
                  % (ok,))
    fu = w.attrs.get('format-url', [])
    if fu:
        val = ce.ev(fu[0].value, TABLE)
        col.check(val == 'http://biom-format.org', rule, TABLE,
                  'Table.to_hdf5', 'const:format-url', fu[0],
                  'format-url constant', 'format-url written is %r' % (val,))


def _stmt_of(mod, node):
    cur = node
    while cur is not None and not isinstance(cur, ast.stmt):
        cur = mod.parent.get(cur)
    return cur


def _iteration_avoids(cfg, head, creates):
    """Can control go from the loop head through the body and back to the
    head (or out via exit) without passing a create node?"""
    if head is None:
        return True
    body_entries = [s for s in cfg.succ[head] if s.kind != 'join']
    seen = set()
    stack = list(body_entries)
    while stack:
        n = stack.pop()
        if n in seen or n in creates:
            continue
        seen.add(n)
        if n is head or n is cfg.exit:
            return True
        if n.kind == 'raise' or n is cfg.raise_:
            continue
        stack.extend(cfg.succ[n])
    return False


def _unconditional(col, rule, w, cfg, node, role):
    mod = w.repo.mod(TABLE)
    st = _stmt_of(mod, node)
    n = cfg.node(st)
    head = cfg.node(w.loop)
    if n is None or head is None:
        return
    leak = _iteration_avoids(cfg, head, {n})
    col.check(not leak, rule, TABLE, 'Table.to_hdf5', role + ':every-path',
              node, 'created on every iteration',
              'an iteration of the axis loop can skip creating it')


def rule_h5_writer_axes(repo, col):
    """In the to_hdf5 axis loop: observation <-> csr, sample <-> csc; ids,
    metadata, group metadata and the formatter calls use the loop's axis; the
    raw arrays written are those of the freshly converted matrix."""
    rule = 'AX-MATOP'
    w = WriterModel(repo)
    want = {'observation': 'csr', 'sample': 'csc'}
    names = target_names(w.loop.target)
    for env in w.axis_pairs:
        ax = env.get(names[0])
        order = env.get(names[1]) if len(names) > 1 else None
        col.check(want.get(ax) == order, rule, TABLE, 'Table.to_hdf5',
                  'layout:%s' % ax, w.loop.iter,
                  '%s view written in %s layout' % (ax, order),
                  'the %s group is written from the %s layout (needs %s): '
                  'indices/indptr then describe the other axis'
                  % (ax, order, want.get(ax)))
    axisvar = names[0]
    ordervar = names[1] if len(names) > 1 else None
    loop = w.loop
    # conversion uses the loop's order variable
    conv = None
    for n in ast.walk(loop):
        if isinstance(n, ast.Assign) and \
                dotted(n.targets[0]) == 'self._data' and isinstance(
                n.value, ast.Call) and isinstance(n.value.func,
                                                  ast.Attribute) and \
                n.value.func.attr in ('asformat',):
            conv = n
    col.check(conv is not None and conv.value.args and
              dotted(conv.value.args[0]) == ordervar, rule, TABLE,
              'Table.to_hdf5', 'convert', conv or loop,
              'matrix converted to the loop\'s layout before the arrays are '
              'read', 'the matrix is not converted to the loop\'s layout')
    # per-axis accessors use the loop axis
    for meth in ('ids', 'metadata', 'group_metadata'):
        calls = [n for n in ast.walk(loop) if isinstance(n, ast.Call) and
                 dotted(n.func) == 'self.%s' % meth]
        if not calls:
            col.unknown('AX-IDAPI', TABLE, 'Table.to_hdf5', meth, loop,
                        'accessor call not found')
        for c in calls:
            a = kwarg(c, 'axis') or (c.args[0] if c.args else None)
            col.check(a is not None and dotted(a) == axisvar, 'AX-IDAPI',
                      TABLE, 'Table.to_hdf5', 'accessor:%s' % meth, c,
                      'reads the loop axis', 'self.%s(...) in the axis loop '
                      'does not use the loop axis' % meth)
    # raw arrays: data=self._data.<x> matches dataset name
    pairs = {'matrix/data': 'self._data.data',
             'matrix/indices': 'self._data.indices',
             'matrix/indptr': 'self._data.indptr'}
    def _matrix_alias(info):
        """data=X.attr with X = self._data taken, in the same loop body,
        after the matrix was converted to the loop's layout: read as
        self._data.attr"""
        d = info['data']
        if not (isinstance(d, ast.Attribute) and isinstance(d.value,
                                                            ast.Name)):
            return None
        lp = info.get('loop') or loop
        defs = [n for n in ast.walk(lp) if isinstance(n, ast.Assign) and
                len(n.targets) == 1 and dotted(n.targets[0]) == d.value.id]
        if len(defs) != 1 or dotted(defs[0].value) != 'self._data':
            return None
        if conv is None or defs[0].lineno <= conv.lineno or \
                defs[0] not in lp.body or conv not in lp.body:
            return None
        return 'self._data.%s' % d.attr
    for path, infos in w.ds_info.items():
        suffix = path.split('/', 1)[1]
        if suffix in pairs:
            for info in infos:
                col.check(info['data'] is not None and (
                          dotted(info['data']) == pairs[suffix] or
                          _matrix_alias(info) == pairs[suffix]), rule, TABLE,
                          'Table.to_hdf5', 'array:%s' % path, info['call'],
                          'writes %s' % pairs[suffix],
                          "'%s' is written from %s" % (
                              path, unparse(info['data'])
                              if info['data'] is not None else None))
    # ids dataset content and length
    assigns = local_assignments(w.func)
    for path, infos in w.ds_info.items():
        if path.endswith('/ids'):
            for info in infos:
                d = info['data']
                if isinstance(d, ast.ListComp):
                    it = d.generators[0].iter
                    src = assigns.get(dotted(it), [(None, None)])[0][0]
                    ok = isinstance(src, ast.Call) and \
                        dotted(src.func) == 'self.ids'
                    col.check(ok, 'AX-IDAPI', TABLE, 'Table.to_hdf5',
                              'ids-content:%s' % path, info['call'],
                              'one entry per id of the loop axis, in order',
                              'ids dataset is not built from the axis ids')


def rule_h5_group_md_axis(repo, col):
    """AX-H5GMD: the values written under `<axis>/group-metadata/` are the
    group metadata of that same axis.  The group is the one the handle
    denotes in that iteration (a handle left over from an earlier loop
    denotes that loop's last group); the values are traced from `data=`
    back to `self.group_metadata(X)`, directly or through a list collected
    by an earlier loop over the axes and zipped in."""
    rule = 'AX-H5GMD'
    w = WriterModel(repo)
    f = w.func
    ce = w.ce

    def defs_of(name):
        out = []
        for n in body_walk(f):
            if isinstance(n, ast.Assign) and any(
                    name in target_names(t) for t in n.targets):
                out.append(n)
        return out

    def gmd_call(e):
        for x in ast.walk(e):
            if isinstance(x, ast.Call) and dotted(x.func) in (
                    'self.group_metadata',):
                return x
        return None

    def collected(name):
        """axes, in order, of the group metadata appended to list `name`
        by an earlier loop over the axes"""
        for loop, envs in w.loops:
            for n in ast.walk(loop):
                if isinstance(n, ast.Call) and isinstance(
                        n.func, ast.Attribute) and n.func.attr == 'append' \
                        and dotted(n.func.value) == name and n.args:
                    src = n.args[0]
                    c = gmd_call(src)
                    if c is None and isinstance(src, ast.Name):
                        for d in ast.walk(loop):
                            if isinstance(d, ast.Assign) and src.id in \
                                    target_names(d.targets[0]):
                                c = c or gmd_call(d.value)
                    if c is None:
                        return None
                    a = kwarg(c, 'axis') or (c.args[0] if c.args else None)
                    out = []
                    for env in envs:
                        v = ce.ev(a, TABLE, env) if a is not None else UNKNOWN
                        out.append(v if v is not UNKNOWN else None)
                    return out
        return None

    def source_axis(info):
        """axis whose group metadata reaches data= in this iteration"""
        loop, env, k = info['loop'], info['env'], info['k']
        d = info['data']
        names = {x.id for x in ast.walk(d) if isinstance(x, ast.Name)} \
            if d is not None else set()
        seen = set()
        for _ in range(6):
            new = set()
            for nm in names - seen:
                seen.add(nm)
                # loop / comprehension targets inside the axis loop
                for n in ast.walk(loop):
                    if isinstance(n, ast.For) and n is not loop and \
                            nm in target_names(n.target):
                        new |= {x.id for x in ast.walk(n.iter)
                                if isinstance(x, ast.Name)}
                    if isinstance(n, ast.Assign) and any(
                            nm in target_names(t) for t in n.targets):
                        c = gmd_call(n.value)
                        if c is not None:
                            a = kwarg(c, 'axis') or (
                                c.args[0] if c.args else None)
                            v = ce.ev(a, TABLE, env) if a is not None \
                                else UNKNOWN
                            return v if v is not UNKNOWN else None
                        new |= {x.id for x in ast.walk(n.value)
                                if isinstance(x, ast.Name)}
                # the axis loop's own target fed from a zipped column
                if nm in target_names(loop.target) and isinstance(
                        loop.iter, ast.Call) and call_name(
                        loop.iter) == 'zip':
                    pos = target_names(loop.target).index(nm)
                    if pos < len(loop.iter.args) and isinstance(
                            loop.iter.args[pos], ast.Name):
                        axes = collected(loop.iter.args[pos].id)
                        if axes and k < len(axes):
                            return axes[k]
                        return None
            names |= new
        return None

    n = 0
    for path, infos in sorted(w.ds_info.items()):
        if '/group-metadata/' not in path:
            continue
        group_axis = path.split('/', 1)[0]
        for info in infos:
            n += 1
            role = 'group-md:%s#%d' % (group_axis, info['k'])
            src = source_axis(info)
            if src is None:
                col.unknown(rule, TABLE, 'Table.to_hdf5', role, info['call'],
                            'origin of the written group metadata not '
                            'resolved')
                continue
            col.check(src == group_axis, rule, TABLE, 'Table.to_hdf5', role,
                      info['call'], 'the %s group metadata goes to the %s '
                      'group' % (src, group_axis),
                      "the %s group metadata is written under '%s': each "
                      "axis' group metadata (e.g. a tree) ends up in the "
                      'wrong group / is lost' % (src, path))
    col.soft(n >= 1, rule, TABLE, 'Table.to_hdf5', 'instances', f,
             '%d group-metadata writes' % n,
             'no group-metadata dataset creation resolved')


def rule_h5_nnz(repo, col):
    """OR-CANON in to_hdf5: the eliminating ``nnz`` property is read before
    the conversions and raw-array reads; attrs['nnz'] and the (nnz,) dataset
    shapes use that same count; shape is the matrix shape."""
    rule = 'OR-CANON'
    w = WriterModel(repo)
    f = w.func
    cfg = CFG(f)
    mod = repo.mod(TABLE)
    # the eliminating read
    elim = [n for n in body_walk(f) if isinstance(n, ast.Assign) and
            dotted(n.value) == 'self.nnz']
    nnzprop = repo.func(TABLE, 'Table.nnz')
    eliminates = any(isinstance(c, ast.Call) and isinstance(
        c.func, ast.Attribute) and c.func.attr == 'eliminate_zeros'
        for c in ast.walk(nnzprop))
    inv_g = False   # the exported file needs the local elimination: the
    #                 public matrix_data handle lets callers store zeros
    col.check(eliminates, rule, TABLE, 'Table.nnz', 'eliminates',
              nnzprop, 'the nnz property eliminates stored zeros (or the '
              'table invariant guarantees none)',
              'nnz no longer eliminates stored zeros and the constructor '
              'does not either: counts and raw arrays may contain stored '
              'zeros')
    if not elim:
        direct = [n for n in ast.walk(f) if isinstance(n, ast.Attribute) and
                  n.attr == 'nnz' and dotted(n.value) in ('self._data',
                                                          'self.matrix_data')]
        if direct and not inv_g:
            col.bad(rule, TABLE, 'Table.to_hdf5', 'nnz-source', direct[0],
                    'the stored-entry count of the raw matrix is written as '
                    'nnz: explicitly stored zeros are counted and exported')
        elif direct:
            col.ok(rule, TABLE, 'Table.to_hdf5', 'nnz-source', direct[0],
                   'raw count of a canonical matrix (invariant G)')
        else:
            col.unknown(rule, TABLE, 'Table.to_hdf5', 'nnz-source', f,
                        'nnz source not recognised')
        return
    e = elim[0]
    en = cfg.node(e)
    var = dotted(e.targets[0])
    other_defs = [n for n in body_walk(f) if isinstance(n, ast.Assign) and
                  dotted(n.targets[0]) == var and n not in elim]
    col.check(not other_defs, rule, TABLE, 'Table.to_hdf5', 'nnz-source',
              other_defs[0] if other_defs else e,
              'count read through the eliminating nnz property',
              'on some path the count written as nnz is %s, a raw '
              'stored-entry count: matrix_data hands out the live matrix, '
              'so stored zeros can exist whatever the constructor does, and '
              'they would be counted and exported'
              % (unparse(other_defs[0].value) if other_defs else ''))
    inv_g = inv_g and not other_defs
    # attrs['nnz'] = var
    st = w.attrs.get('nnz', [None])[0]
    if st is not None:
        col.check(dotted(st.value) == var, rule, TABLE, 'Table.to_hdf5',
                  'attr-nnz', st, 'attrs[nnz] is the eliminated count',
                  'attrs[nnz] is %s, not the eliminated count'
                  % unparse(st.value))
    st = w.attrs.get('shape', [None])[0]
    if st is not None:
        col.check(dotted(st.value) in ('self.shape', 'self._data.shape',
                                       'self.matrix_data.shape'), 'AX-SHAPE',
                  TABLE, 'Table.to_hdf5', 'attr-shape', st,
                  'attrs[shape] is the matrix shape',
                  'attrs[shape] is %s' % unparse(st.value))
    # raw reads dominated by the elimination, with nothing that can store
    # zeros in between (no kernel call, no assignment of foreign data)
    raw_reads = []
    for n in ast.walk(w.loop):
        if isinstance(n, ast.Attribute) and n.attr in ('data', 'indices',
                                                       'indptr') and \
                dotted(n.value) == 'self._data':
            raw_reads.append(n)
    for n in raw_reads:
        stn = cfg.node(_stmt_of(mod, n))
        ok = stn is not None and (cfg.dominates(en, stn) or inv_g)
        col.check(ok, rule, TABLE, 'Table.to_hdf5', 'raw:%s' % n.attr, n,
                  'read after the elimination', 'raw array read is not '
                  'dominated by the elimination of stored zeros')
    # dataset shapes (nnz,) use the same count
    assigns = local_assignments(f)
    for path, infos in w.ds_info.items():
        suffix = path.split('/', 1)[1]
        if suffix in ('matrix/data', 'matrix/indices'):
            for info in infos:
                shp = info['shape']
                name = dotted(shp.elts[0]) if isinstance(shp, ast.Tuple) \
                    and shp.elts else None
                src = name
                while src != var and src in assigns and \
                        assigns[src][0][0] is not None \
                        and dotted(assigns[src][0][0]):
                    src = dotted(assigns[src][0][0])
                col.check(src == var, rule, TABLE, 'Table.to_hdf5',
                          'shape:%s' % path, info['call'],
                          'length is the eliminated count',
                          "length of '%s' is %s, not the eliminated count"
                          % (path, name))


def _invariant_g(repo):
    """Does the constructor canonicalise (eliminate stored zeros) after its
    copying astype?  (global discharge of OR-CANON, see rules_canon)"""
    try:
        from .rules_canon import invariant_g
        return invariant_g(repo)[0]
    except ImportError:
        return False


def rule_ag_reg(repo, col):
    """Formatter registry keys = parser registry keys, each mapped to the
    paired list-of-str functions; inverse sentinels agree."""
    rule = 'AG-REG'

    unresolved = set()

    def registry(func, var):
        """Keys -> function name of a registry built by any of: item
        stores, a dict literal / dict.fromkeys / dict comprehension handed to
        defaultdict or .update()."""
        from .astutil import local_assignments
        assigns = local_assignments(func)
        out = {}
        default = None

        def const_keys(e, depth=0):
            if isinstance(e, ast.Name) and e.id in assigns and depth < 3:
                vals = [v for v, _ in assigns[e.id] if v is not None]
                if len(vals) == 1:
                    return const_keys(vals[0], depth + 1)
            if isinstance(e, (ast.Tuple, ast.List, ast.Set)) and all(
                    const_str(x) for x in e.elts):
                return [const_str(x) for x in e.elts]
            return None

        def per_call_keys(store):
            """`for k in PARAM: reg[k] = f` inside a nested function that
            is called with literal key tuples: (keys given at every call,
            keys given at some call), else None."""
            par_ = {}
            for p_ in ast.walk(func):
                for c_ in ast.iter_child_nodes(p_):
                    par_[id(c_)] = p_
            cur, loop, nested = store, None, None
            while id(cur) in par_:
                cur = par_[id(cur)]
                if isinstance(cur, ast.For) and loop is None:
                    loop = cur
                if isinstance(cur, ast.FunctionDef) and cur is not func:
                    nested = cur
                    break
            if loop is None or nested is None or not isinstance(
                    loop.iter, ast.Name) or not isinstance(
                    loop.target, ast.Name) or \
                    dotted(store.targets[0].slice) != loop.target.id:
                return None
            params = [a_.arg for a_ in nested.args.args]
            if loop.iter.id not in params:
                return None
            i = params.index(loop.iter.id)
            sets = []
            for c_ in ast.walk(func):
                if isinstance(c_, ast.Call) and isinstance(
                        c_.func, ast.Name) and c_.func.id == nested.name:
                    a_ = c_.args[i] if len(c_.args) > i else kwarg(
                        c_, loop.iter.id)
                    ks = const_keys(a_) if a_ is not None else None
                    if ks is None:
                        return None
                    sets.append(set(ks))
            if not sets:
                return None
            return set.intersection(*sets), set.union(*sets)

        def mapping(e):
            """dict of key -> dotted function name, or None."""
            if isinstance(e, ast.Dict) and all(
                    k is not None and const_str(k) for k in e.keys):
                return {const_str(k): dotted(v)
                        for k, v in zip(e.keys, e.values)}
            if isinstance(e, ast.Call) and call_name(e) == 'dict.fromkeys' \
                    and len(e.args) == 2:
                ks = const_keys(e.args[0])
                if ks is not None:
                    return {k: dotted(e.args[1]) for k in ks}
            if isinstance(e, ast.DictComp) and len(e.generators) == 1 and \
                    isinstance(e.key, ast.Name) and isinstance(
                        e.generators[0].target, ast.Name) and \
                    e.key.id == e.generators[0].target.id:
                ks = const_keys(e.generators[0].iter)
                if ks is not None:
                    return {k: dotted(e.value) for k in ks}
            return None
        for n in ast.walk(func):
            if isinstance(n, ast.Assign) and isinstance(
                    n.targets[0], ast.Subscript) and \
                    dotted(n.targets[0].value) == var:
                if const_str(n.targets[0].slice):
                    out[const_str(n.targets[0].slice)] = dotted(n.value)
                else:
                    ks = per_call_keys(n)
                    if ks is None:
                        unresolved.add(var)
                    else:
                        common, some = ks
                        for k_ in common:
                            out[k_] = dotted(n.value)
                        if some - common:
                            per_axis.append((n, sorted(some - common)))
            if isinstance(n, ast.Assign) and dotted(n.targets[0]) == var and \
                    isinstance(n.value, ast.Call) and \
                    call_name(n.value) == 'defaultdict' and n.value.args and \
                    isinstance(n.value.args[0], ast.Lambda):
                default = dotted(n.value.args[0].body)
                for extra in n.value.args[1:]:
                    m = mapping(extra)
                    if m is None:
                        unresolved.add(var)
                    else:
                        out.update(m)
                if n.value.keywords:
                    unresolved.add(var)
            elif isinstance(n, ast.Assign) and dotted(n.targets[0]) == var:
                unresolved.add(var)
            if isinstance(n, ast.Call) and dotted(n.func) == '%s.update' \
                    % var and n.args and dotted(n.args[0]) not in (
                        'parse_fs', 'format_fs'):
                m = mapping(n.args[0])
                if m is None:
                    unresolved.add(var)
                else:
                    out.update(m)
        return out, default
    fw = repo.func(TABLE, 'Table.to_hdf5')
    fr = repo.func(TABLE, 'Table.from_hdf5')

    def registry_var(func, fallback):
        # the local that holds the registry: a defaultdict with a lambda
        for n in ast.walk(func):
            if isinstance(n, ast.Assign) and isinstance(
                    n.targets[0], ast.Name) and isinstance(
                    n.value, ast.Call) and \
                    call_name(n.value) == 'defaultdict' and n.value.args \
                    and isinstance(n.value.args[0], ast.Lambda):
                return n.targets[0].id
        return fallback
    wvar = registry_var(fw, 'formatter')
    rvar = registry_var(fr, 'parser')
    per_axis = []
    wreg, wdef = registry(fw, wvar)
    rreg, rdef = registry(fr, rvar)
    for node_, keys_ in per_axis:
        col.bad(rule, TABLE, 'Table.from_hdf5', 'per-axis-registry', node_,
                'the special-cased categories %s are registered for one '
                'axis only: the other side of the round trip chooses the '
                'layout by category name on both axes, so such a category '
                'on the other axis is written in one layout and parsed as '
                'another' % keys_)
    col.check(wdef == 'general_formatter' and rdef == 'general_parser', rule,
              TABLE, 'Table.to_hdf5', 'defaults', None,
              'general_formatter / general_parser are the defaults',
              'registry defaults are %s / %s' % (wdef, rdef))
    for k in sorted(set(wreg) | set(rreg)):
        (col.soft if unresolved else col.check)(
                  k in wreg and k in rreg, rule, TABLE, 'Table.from_hdf5',
                  'key:%s' % k, None, 'in both registries',
                  "category '%s' is special-cased by %s only: it is "
                  'written in one layout and parsed as another'
                  % (k, 'the writer' if k in wreg else 'the reader'))
        if k in wreg and k in rreg:
            pair = (wreg[k], rreg[k])
            col.check(pair == ('vlen_list_of_str_formatter',
                               'vlen_list_of_str_parser'), rule, TABLE,
                      'Table.from_hdf5', 'pair:%s' % k, None,
                      'list-of-str formatter paired with its parser',
                      "category '%s' is formatted by %s but parsed by %s"
                      % (k, pair[0], pair[1]))
    # user overrides are honoured on both sides
    for func, var, arg in ((fw, wvar, 'format_fs'),
                           (fr, rvar, 'parse_fs')):
        upd = any(isinstance(n, ast.Call) and
                  dotted(n.func) == '%s.update' % var and n.args and
                  dotted(n.args[0]) == arg for n in ast.walk(func))
        col.check(upd, rule, TABLE, 'Table.%s' % func.name,
                  'override:%s' % arg, func, 'custom functions override '
                  'the registry', '%s is ignored' % arg)
    # the registry is applied per category
    used = any(isinstance(n, ast.Call) and isinstance(n.func, ast.Subscript)
               and dotted(n.func.value) == wvar
               for n in ast.walk(fw))
    col.check(used, rule, TABLE, 'Table.to_hdf5', 'apply', fw,
              'formatter[category](...) is called per category',
              'the formatter registry is not applied')
    # ---- sentinels ------------------------------------------------
    rule = 'AG-SENT'
    gf = repo.func(TABLE, 'general_formatter')
    wrep = [n for n in ast.walk(gf) if isinstance(n, ast.Call) and
            isinstance(n.func, ast.Attribute) and n.func.attr == 'replace'
            and len(n.args) == 2]
    rrep = [n for n in ast.walk(fr) if isinstance(n, ast.Call) and
            isinstance(n.func, ast.Attribute) and n.func.attr == 'replace'
            and len(n.args) == 2 and 'category' in unparse(n.func.value)]
    if wrep and rrep:
        ce_ = ConstEval(repo)

        def cs(e):
            v = const_str(e)
            if v is None:
                # a module-level constant naming the placeholder
                v = ce_.ev(e, TABLE)
                v = v if isinstance(v, str) else None
            return v
        a = (cs(wrep[0].args[0]), cs(wrep[0].args[1]))
        b = (cs(rrep[0].args[0]), cs(rrep[0].args[1]))
        col.check(a[0] == '/' and a == (b[1], b[0]), rule, TABLE,
                  'general_formatter', 'slash', wrep[0],
                  "'/' <-> %r are inverse" % a[1],
                  'category-name escaping %r is not undone by the reader '
                  '%r' % (a, b))
    else:
        col.unknown(rule, TABLE, 'general_formatter', 'slash', gf,
                    'escape/unescape calls not found')
    # the escaped name is what is used for the dataset
    assigns = local_assignments(gf)
    w = WriterModel(repo)
    okname = False
    for tmpl, arg, call in w.formatter_paths.get('general_formatter', []):
        src = assigns.get(dotted(arg), [(None, None)])[0][0]
        for cand in (src, arg):
            if cand is not None and wrep and any(x is wrep[0]
                                                 for x in ast.walk(cand)):
                okname = True
    col.check(okname, rule, TABLE, 'general_formatter', 'slash-used', gf,
              'the escaped category name names the dataset',
              'the dataset is not named by the escaped category')
    # padding written "" <-> falsy entries stripped
    vf = repo.func(TABLE, 'vlen_list_of_str_formatter')
    pad = any(isinstance(n, ast.Call) and call_name(n) in ('np.where',
                                                           'where')
              and len(n.args) == 3 and const_str(n.args[1]) == ''
              for n in ast.walk(vf))
    vp = repo.func(TABLE, 'vlen_list_of_str_parser')
    strip = any(isinstance(n, ast.If) and isinstance(n.test, ast.Name)
                for n in ast.walk(vp)) or any(
        isinstance(n, ast.comprehension) and any(
            isinstance(i, ast.Name) for i in n.ifs) for n in ast.walk(vp))
    col.soft(pad and strip, rule, TABLE, 'vlen_list_of_str_parser',
              'padding', vp, 'missing entries padded with "" and falsy '
              'entries stripped on read', 'padding (%s) and stripping (%s) '
              'do not agree' % (pad, strip))
    # absent type "" <-> None ; absent id placeholder
    wts = [x for x in w.attrs.get('type', []) if x is not None]
    wt = wts[0] if wts else None
    # the writer stores '' when there is no type (conditional expression or
    # if/else), the reader turns '' back into None
    okw = any((isinstance(x.value, ast.IfExp) and
               const_str(x.value.orelse) == '') or
              const_str(x.value) == '' for x in wts)

    def none_on_empty(n):
        if not (isinstance(n, (ast.IfExp, ast.If)) and isinstance(
                n.test, ast.Compare) and
                const_str(n.test.comparators[0]) == ''):
            return False
        if isinstance(n, ast.IfExp):
            return isinstance(n.body, ast.Constant) and n.body.value is None
        return any(isinstance(b_, ast.Assign) and isinstance(
            b_.value, ast.Constant) and b_.value.value is None
            for b_ in n.body)
    okr = any(none_on_empty(n) for n in ast.walk(fr))
    col.check(okw and okr, rule, TABLE, 'Table.from_hdf5', 'absent-type',
              wt, 'absent type written as "" and read back as None',
              'absent-type sentinel: writer %s, reader %s' % (okw, okr))
    wi = w.attrs.get('id', [None])[0]
    okw = wi is not None and isinstance(wi.value, ast.IfExp) and \
        const_str(wi.value.orelse) == 'No Table ID'
    col.check(okw, rule, TABLE, 'Table.to_hdf5', 'absent-id', wi,
              "absent id written as the placeholder 'No Table ID'",
              'absent-id placeholder changed')
    # creation date isoformat <-> fromisoformat
    wd = w.attrs.get('creation-date', [])
    okw = bool(wd) and all(isinstance(n.value, ast.Call) and isinstance(
        n.value.func, ast.Attribute) and n.value.func.attr == 'isoformat'
        for n in wd)
    okr = any(isinstance(n, ast.Call) and isinstance(n.func, ast.Attribute)
              and n.func.attr == 'fromisoformat' for n in ast.walk(fr))
    col.check(okw and okr, rule, TABLE, 'Table.from_hdf5', 'date', None,
              'isoformat <-> fromisoformat', 'creation-date: writer '
              'isoformat=%s reader fromisoformat=%s' % (okw, okr))
    # generated-by and creation date parameters are what is written
    wg = w.attrs.get('generated-by', [None])[0]
    col.check(wg is not None and dotted(wg.value) == 'generated_by', rule,
              TABLE, 'Table.to_hdf5', 'generated-by', wg,
              'the generated_by argument is written',
              'generated-by is not the argument')
    # group metadata: (datatype, value) -> dataset + data_type attr; reader
    # takes element 0
    gm = [p for p in w.datasets if 'group-metadata/' in p]
    col.check(len(gm) == 2, rule, TABLE, 'Table.to_hdf5', 'group-metadata',
              None, 'group metadata datasets written on both axes',
              'group-metadata datasets: %s' % gm)


def rule_h5_reader_axes(repo, col):
    """from_hdf5: the matrix group read is the requested axis' and becomes a
    csc matrix for 'sample' / csr for 'observation'; both code paths."""
    rule = 'AX-MATOP'
    f = repo.func(TABLE, 'Table.from_hdf5')
    want = {'sample': 'csc_matrix', 'observation': 'csr_matrix'}
    n_ok = 0
    for n in ast.walk(f):
        if isinstance(n, ast.If) and isinstance(n.test, ast.Compare) and \
                dotted(n.test.left) == 'axis' and isinstance(
                n.test.ops[0], ast.Eq) and \
                const_str(n.test.comparators[0]) in want:
            ax = const_str(n.test.comparators[0])
            other = 'observation' if ax == 'sample' else 'sample'

            def ctor(stmts):
                for s in stmts:
                    for c in ast.walk(s):
                        if isinstance(c, ast.Call) and call_name(c) in (
                                'csc_matrix', 'csr_matrix'):
                            return c
            a, b = ctor(n.body), ctor(n.orelse)
            if a is None or b is None:
                continue
            n_ok += 1
            col.check(call_name(a) == want[ax] and
                      call_name(b) == want[other], rule, TABLE,
                      'Table.from_hdf5', 'layout:%d' % n_ok, n,
                      '%s -> %s, otherwise %s' % (ax, want[ax], want[other]),
                      "arrays of the '%s' group are interpreted as %s (the "
                      "writer stores %s there)" % (ax, call_name(a),
                                                   want[ax]))
    if n_ok < 2:
        col.unknown(rule, TABLE, 'Table.from_hdf5', 'layout', f,
                    'only %d layout branches recognised' % n_ok)
    # matrix group follows the axis parameter
    r = ReaderModel(repo)
    for key in ('data', 'indices', 'indptr'):
        both = all('%s/matrix/%s' % (ax, key) in r.paths for ax in AXES)
        col.check(both, rule, TABLE, 'Table.from_hdf5', 'reads:%s' % key,
                  None, "'<axis>/matrix/%s' read for the requested axis"
                  % key, "'<axis>/matrix/%s' is not read per axis" % key)


def rule_h5_fwd(repo, col):
    """load_table -> parse_biom_table -> Table.from_hdf5 and save_table ->
    to_hdf5 pass the handle and arguments through."""
    rule = 'AX-FWD'
    f = repo.func(PARSE, 'parse_biom_table')
    c = [n for n in body_walk(f) if isinstance(n, ast.Call) and
         call_name(n) == 'Table.from_hdf5']
    ok = len(c) == 1 and c[0].args and dotted(c[0].args[0]) == \
        param_names(f)[0] and \
        dotted(kwarg(c[0], 'ids') or ast.Constant(None)) == 'ids' and \
        dotted(kwarg(c[0], 'axis') or ast.Constant(None)) == 'axis'
    col.check(bool(ok), rule, PARSE, 'parse_biom_table', 'from_hdf5',
              c[0] if c else f, 'handle, ids and axis forwarded',
              'parse_biom_table does not forward handle/ids/axis to '
              'from_hdf5')
    # HDF5 is tried first
    first = None
    for n in body_walk(f):
        if isinstance(n, ast.Call) and (call_name(n) or '').startswith(
                'Table.from_'):
            first = call_name(n)
            break
    col.check(first == 'Table.from_hdf5', rule, PARSE, 'parse_biom_table',
              'hdf5-first', f, 'HDF5 is attempted before JSON/TSV',
              'HDF5 is not attempted first (%s)' % first)
    f = repo.func(PARSE, 'load_table')
    calls = [n for n in body_walk(f) if isinstance(n, ast.Call) and
             call_name(n) == 'parse_biom_table']
    col.soft(len(calls) == 2 and all(len(c.args) == 1 for c in calls), rule,
             PARSE, 'load_table', 'parse', f,
              'both branches parse the opened handle',
              'load_table does not parse the handle in both branches')
    f = repo.func(PARSE, 'save_table')
    calls = [n for n in body_walk(f) if isinstance(n, ast.Call) and
             (call_name(n) or '').endswith('.to_hdf5')]
    ok = len(calls) == 2 and all(
        dotted(c.func.value) == param_names(f)[0] and
        any(kw.arg is None for kw in c.keywords) for c in calls)
    col.check(ok, rule, PARSE, 'save_table', 'to_hdf5', f,
              'the table is written with the caller\'s keyword arguments',
              'save_table does not forward **kwargs to to_hdf5')


RULE_TEXT = {
    'AX-H5GMD': rule_h5_group_md_axis.__doc__,
    'AG-H5KEYS': rule_ag_h5keys.__doc__,
    'AG-SPEC': rule_ag_spec.__doc__,
    'AX-MATOP': rule_h5_writer_axes.__doc__,
    'AX-IDAPI': 'per-axis accessors inside an axis loop use the loop axis',
    'AX-SHAPE': 'attrs[shape] is the matrix shape',
    'OR-CANON': rule_h5_nnz.__doc__,
    'AG-REG': rule_ag_reg.__doc__,
    'AG-SENT': 'inverse sentinel constants agree between writer and reader',
    'AX-FWD': rule_h5_fwd.__doc__,
}
