"""Rules over biom/cli/table_validator.py (property C15)."""
import ast

from .astutil import (body_walk, call_name, const_str, dotted,
                      local_assignments, param_names, unparse, walk_shallow,
                      target_names)
from .cfg import CFG
from .consteval import ConstEval, UNKNOWN
from .source import AnalysisError

VAL = 'biom/cli/table_validator.py'
TABLE = 'biom/table.py'


# --------------------------------------------------------------------------
# OR-REPORT
# --------------------------------------------------------------------------

def _is_report_append(st):
    """``report_lines.append(x)`` / ``extend`` / ``+=`` -> the appended expr"""
    if isinstance(st, ast.Expr) and isinstance(st.value, ast.Call) and \
            isinstance(st.value.func, ast.Attribute) and \
            st.value.func.attr in ('append', 'extend', 'insert') and \
            dotted(st.value.func.value) == 'report_lines' and st.value.args:
        return st.value.args[-1]
    if isinstance(st, ast.AugAssign) and \
            dotted(st.target) == 'report_lines':
        return st.value
    return None


def _is_clear(st):
    return isinstance(st, ast.Assign) and \
        any(dotted(t) == 'valid_table' for t in st.targets) and \
        isinstance(st.value, ast.Constant) and st.value.value is False


def _is_set_true(st):
    return isinstance(st, ast.Assign) and \
        any(dotted(t) == 'valid_table' for t in st.targets) and \
        not (isinstance(st.value, ast.Constant) and st.value.value is False)


def rule_or_report(repo, col):
    """In _validate_hdf5/_validate_json every path that appends an error to
    the report also clears the verdict (the only exception: literal
    ``WARNING:`` lines), and the verdict variable is what is returned and
    what decides the exit status."""
    rule = 'OR-REPORT'
    ce = ConstEval(repo)
    for q in ('TableValidator._validate_hdf5', 'TableValidator._validate_json'):
        f = repo.func(VAL, q)
        cfg = CFG(f)
        clears = {n for n in cfg.stmt_nodes() if n.kind == 'stmt' and
                  _is_clear(n.stmt)}
        sets = [n for n in cfg.stmt_nodes() if n.kind == 'stmt' and
                _is_set_true(n.stmt)]
        # the verdict starts True exactly once, before anything else
        if len(sets) != 1 or not all(cfg.dominates(sets[0], c)
                                     for c in clears):
            col.unknown(rule, VAL, q, 'verdict-init', f,
                        'valid_table is (re)assigned a non-False value %d '
                        'times' % len(sets))
            continue
        appends = [(n, _is_report_append(n.stmt)) for n in cfg.stmt_nodes()
                   if n.kind == 'stmt' and
                   _is_report_append(n.stmt) is not None]
        n_err = 0
        for n, expr in appends:
            text = ce.ev(expr, VAL)
            if isinstance(text, str) and text.startswith('WARNING'):
                col.info(rule, VAL, q, 'warning-line', n.stmt,
                         'literal WARNING line, not an error')
                continue
            n_err += 1
            role = 'append:%s' % _append_role(expr, n, f)
            # a path ENTRY -> append -> EXIT that never clears the verdict?
            before = cfg.path_avoiding(cfg.entry, n, clears) or \
                n in cfg.succ[cfg.entry]
            after = cfg.path_avoiding(n, cfg.exit, clears)
            col.check(not (before and after), rule, VAL, q, role, n.stmt,
                      'every path through this report line sets '
                      'valid_table = False',
                      'an error line is reported on a path that leaves the '
                      'verdict valid')
        # what is returned
        rets = [n for n in body_walk(f) if isinstance(n, ast.Return)]
        okret = False
        for r in rets:
            if isinstance(r.value, ast.Dict):
                for k, v in zip(r.value.keys, r.value.values):
                    if const_str(k) == 'valid_table' and \
                            dotted(v) == 'valid_table':
                        okret = True
        col.check(okret and len(rets) == 1, rule, VAL, q, 'return-verdict',
                  rets[0] if rets else f,
                  "returns {'valid_table': valid_table, ...}",
                  'the verdict variable is not what is returned')
    # verdict chain: _validate_table -> validate_table exit status
    f = repo.func(VAL, '_validate_table')
    r = [n for n in body_walk(f) if isinstance(n, ast.Return)]
    fass = local_assignments(f)

    def res_(e, depth=0):
        if isinstance(e, ast.Name) and depth < 4 and len(
                fass.get(e.id, [])) == 1 and fass[e.id][0][0] is not None:
            return res_(fass[e.id][0][0], depth + 1)
        return e
    ok = len(r) == 1 and isinstance(r[0].value, ast.Tuple) and \
        isinstance(res_(r[0].value.elts[0]), ast.Subscript) and \
        const_str(res_(r[0].value.elts[0]).slice) == 'valid_table'
    col.check(ok, rule, VAL, '_validate_table', 'forward-verdict',
              r[0] if r else f, "returns result['valid_table'] first",
              'the verdict is not forwarded')
    f = repo.func(VAL, 'validate_table')
    ok0 = ok1 = False
    vname = None
    for n in body_walk(f):
        if isinstance(n, ast.Assign) and isinstance(n.value, ast.Call) and \
                call_name(n.value) == '_validate_table':
            names = target_names(n.targets[0])
            if names:
                vname = names[0]
    for n in body_walk(f):
        if isinstance(n, ast.If) and dotted(n.test) == vname and vname:
            for b in n.body:
                for c in ast.walk(b):
                    if isinstance(c, ast.Call) and \
                            call_name(c) == 'sys.exit' and c.args and \
                            isinstance(c.args[0], ast.Constant) and \
                            c.args[0].value == 0:
                        ok0 = True
            for b in n.orelse:
                for c in ast.walk(b):
                    if isinstance(c, ast.Call) and \
                            call_name(c) == 'sys.exit' and c.args and \
                            isinstance(c.args[0], ast.Constant) and \
                            c.args[0].value not in (0, None):
                        ok1 = True
    if not (ok0 and ok1) and vname:
        # evaluated form: the argument of sys.exit under both verdicts
        from .flow import value_at
        exits = [c for c in ast.walk(f) if isinstance(c, ast.Call) and
                 call_name(c) == 'sys.exit' and c.args]
        st = {}
        for verdict in (True, False):
            vals = set()
            for c in exits:
                v = value_at(f, c.args[0], {vname: verdict})
                if v is not None:
                    vals.add(v)
            st[verdict] = vals
        if st[True] and st[False]:
            ok0 = st[True] == {0}
            ok1 = 0 not in st[False] and None not in st[False]
    col.check(ok0 and ok1, rule, VAL, 'validate_table', 'exit-status', f,
              'exit 0 iff the verdict is valid, non-zero otherwise',
              'exit status does not follow the verdict')


def _append_role(expr, node, func):
    """A stable, human-readable role for a report line: the condition that
    guards it (innermost enclosing if test), not its line or message."""
    # find the innermost If/For that contains the statement
    best = None
    for n in ast.walk(func):
        if isinstance(n, ast.If):
            if any(x is node.stmt for b in n.body for x in ast.walk(b)):
                best = ('if', n.test)
            elif any(x is node.stmt for b in n.orelse for x in ast.walk(b)):
                best = ('else', n.test)
    if best is None:
        return 'unconditional'
    return '%s(%s)' % (best[0], unparse(best[1], 70))


# --------------------------------------------------------------------------
# AG-VALID
# --------------------------------------------------------------------------

def _literal_list(func, name, ce):
    """Value of the local ``name = [...]`` list literal of a function."""
    for n in body_walk(func):
        if isinstance(n, ast.Assign) and dotted(n.targets[0]) == name:
            if isinstance(n.value, ast.List):
                return n.value, n
    return None, None


def _class_const(repo, cname, attr, ce):
    c = repo.cls(VAL, cname)
    for st in c.body:
        if isinstance(st, ast.Assign) and dotted(st.targets[0]) == attr:
            return ce.ev(st.value, VAL), st
    raise AnalysisError("%s.%s not found" % (cname, attr))


def hdf5_verdict_names(repo):
    """Names (attrs, groups, datasets) whose absence clears the verdict in
    the 2.1 validation path.  Relies on OR-REPORT for 'reported => invalid'.
    """
    ce = ConstEval(repo)
    f = repo.func(VAL, 'TableValidator._validate_hdf5')
    out = {'attrs': set(), 'groups': set(), 'datasets': set()}
    nodes = {}
    lst, st = _literal_list(f, 'required_attrs', ce)
    if lst is not None:
        for e in lst.elts:
            if isinstance(e, ast.Tuple) and const_str(e.elts[0]):
                out['attrs'].add(const_str(e.elts[0]))
        nodes['attrs'] = st
    for key, var in (('groups', 'required_groups'),
                     ('datasets', 'required_datasets')):
        lst, st = _literal_list(f, var, ce)
        if lst is not None:
            for e in lst.elts:
                if const_str(e):
                    out[key].add(const_str(e))
            nodes[key] = st
    # loops that test membership of the list elements and report
    def loop_reports(var, container):
        for n in body_walk(f):
            if isinstance(n, ast.For) and dotted(n.iter) == var:
                tnames = target_names(n.target)
                for x in ast.walk(n):
                    if isinstance(x, ast.If) and isinstance(
                            x.test, ast.Compare) and isinstance(
                            x.test.ops[0], ast.NotIn) and \
                            dotted(x.test.left) in tnames and \
                            dotted(x.test.comparators[0]) == container:
                        for b in x.body:
                            if _is_report_append(b) is not None:
                                return True
                            if any(isinstance(y, (ast.Continue, ast.Break,
                                                  ast.Return))
                                   for y in ast.walk(b)):
                                # the branch can be left before anything
                                # is reported (an exemption)
                                return False
        return False
    checked = {
        'attrs': loop_reports('required_attrs', 'table.attrs'),
        'groups': loop_reports('required_groups', 'table'),
        'datasets': loop_reports('required_datasets', 'table'),
    }
    # form-independent reading: every `<name> not in <container>` test,
    # whether it sits in a loop over a literal of names (any variable or
    # class constant, resolved by the normaliser) or was written / unrolled
    # one name at a time
    def reports_on_every_path(body):
        for b in body:
            if _is_report_append(b) is not None:
                return True
            if any(isinstance(y, (ast.Continue, ast.Break, ast.Return))
                   for y in ast.walk(b)):
                return False
        return False

    def literal_names(e):
        out_ = set()
        if isinstance(e, (ast.Tuple, ast.List)):
            for x in e.elts:
                if const_str(x):
                    out_.add(const_str(x))
                elif isinstance(x, (ast.Tuple, ast.List)) and x.elts and \
                        const_str(x.elts[0]):
                    out_.add(const_str(x.elts[0]))
        return out_
    found = {'table.attrs': [], 'table': []}     # (names, reported, node)
    for n in ast.walk(f):
        if isinstance(n, ast.For):
            names_ = literal_names(n.iter)
            if not names_:
                lst_, _st = _literal_list(f, dotted(n.iter) or '', ce)
                names_ = literal_names(lst_) if lst_ is not None else set()
            if not names_:
                continue
            tnames = target_names(n.target)
            for x in ast.walk(n):
                if isinstance(x, ast.If) and isinstance(
                        x.test, ast.Compare) and isinstance(
                        x.test.ops[0], (ast.NotIn, ast.In)) and \
                        dotted(x.test.left) in tnames and \
                        dotted(x.test.comparators[0]) in found:
                    missing = x.body if isinstance(
                        x.test.ops[0], ast.NotIn) else x.orelse
                    if not missing:
                        continue
                    found[dotted(x.test.comparators[0])].append(
                        (names_, reports_on_every_path(missing), n))
        elif isinstance(n, ast.If) and isinstance(
                n.test, ast.Compare) and isinstance(
                n.test.ops[0], (ast.NotIn, ast.In)) and \
                const_str(n.test.left) and \
                dotted(n.test.comparators[0]) in found:
            missing = n.body if isinstance(n.test.ops[0], ast.NotIn) \
                else n.orelse
            if not missing:
                continue        # a guard (`if 'shape' in attrs: use it`)
            found[dotted(n.test.comparators[0])].append(
                ({const_str(n.test.left)}, reports_on_every_path(missing),
                 n))
    for cont, keys in (('table.attrs', ('attrs',)),
                       ('table', ('groups', 'datasets'))):
        if not found[cont]:
            continue
        names_all = set()
        for names_, rep, node_ in found[cont]:
            if rep:
                names_all |= names_
        all_rep = all(rep for _, rep, _n in found[cont])
        for k in keys:
            out[k] = set(names_all) if not out[k] else (
                out[k] & names_all if not checked[k] else out[k])
            if not checked[k]:
                checked[k] = all_rep and bool(names_all)
            nodes.setdefault(k, found[cont][0][2])
    # the per-version metadata check: `'x' not in table` -> return <error>
    v210 = repo.func(VAL, 'TableValidator._valid_hdf5_metadata_v210')
    extra = set()
    for n in body_walk(v210):
        if isinstance(n, ast.If) and isinstance(n.test, ast.Compare) and \
                isinstance(n.test.ops[0], ast.NotIn) and \
                const_str(n.test.left) and \
                dotted(n.test.comparators[0]) == param_names(v210)[1] and \
                any(isinstance(b, ast.Return) and b.value is not None and
                    not (isinstance(b.value, ast.Constant) and
                         not b.value.value) for b in n.body):
            extra.add(const_str(n.test.left))
    # is the v210 result reported (and hence, by OR-REPORT, clearing)?
    v210_reported = False
    assigns = local_assignments(f)
    for n in body_walk(f):
        e = _is_report_append(n) if isinstance(n, ast.stmt) else None
        if e is not None and isinstance(e, ast.Name):
            for v, _ in assigns.get(e.id, []):
                if isinstance(v, ast.Call) and dotted(v.func) == \
                        'self._valid_hdf5_metadata_v210':
                    v210_reported = True
    return out, checked, extra if v210_reported else set(), nodes


def rule_ag_valid_hdf5(repo, col):
    """Every attribute, group and dataset the BIOM 2.1 specification
    requires is one whose absence is reported (and, by OR-REPORT, clears the
    verdict)."""
    rule = 'AG-VALID'
    spec = repo.spec()
    names, checked, extra, nodes = hdf5_verdict_names(repo)
    q = 'TableValidator._validate_hdf5'
    for kind in ('attrs', 'groups', 'datasets'):
        col.check(checked[kind], rule, VAL, q, 'loop:%s' % kind,
                  nodes.get(kind), 'each listed name is tested for presence '
                  'and its absence reported',
                  'the required_%s list is not tested for presence' % kind)
    for a in spec['attrs']:
        col.check(a in names['attrs'], rule, VAL, q, 'attr:%s' % a,
                  nodes.get('attrs'), 'required by the spec and checked',
                  "attribute '%s' is required by biom-2.1.rst but its "
                  'absence is not reported' % a)
    for g in spec['groups']:
        present = g in names['groups'] or g in extra or \
            g.lower() in {e.lower() for e in extra}
        col.check(present, rule, VAL, q, 'group:%s' % g, nodes.get('groups'),
                  'required by the spec and checked',
                  "group '%s' is required by biom-2.1.rst but a file "
                  'without it is not reported invalid' % g)
    for d in spec['datasets']:
        col.check(d in names['datasets'], rule, VAL, q, 'dataset:%s' % d,
                  nodes.get('datasets'), 'required by the spec and checked',
                  "dataset '%s' is required by biom-2.1.rst but its absence "
                  'is not reported' % d)


def rule_ag_vocab(repo, col):
    """The validator's type vocabulary equals the specification's."""
    rule = 'AG-VOCAB'
    ce = ConstEval(repo)
    spec = repo.spec()
    types, st = _class_const(repo, 'TableValidator', 'TableTypes', ce)
    if types is UNKNOWN:
        col.unknown(rule, VAL, 'TableValidator', 'TableTypes', st,
                    'not a literal')
        return
    want = {t.lower() for t in spec['types']}
    col.check(set(types) == want, rule, VAL, 'TableValidator', 'TableTypes',
              st, 'equals the specification\'s controlled vocabulary '
              '(case-folded)', 'vocabulary %s differs from the '
              'specification\'s %s' % (sorted(types), sorted(want)))
    f = repo.func(VAL, 'TableValidator._valid_type')
    lowered = any(isinstance(n, ast.Compare) and isinstance(
        n.ops[0], (ast.NotIn, ast.In)) and 'lower' in unparse(n.left) and
        dotted(n.comparators[0]) == 'self.TableTypes'
        for n in body_walk(f))
    col.check(lowered, rule, VAL, 'TableValidator._valid_type', 'case-fold',
              f, 'the value is case-folded before lookup in the lower-case '
              'vocabulary', 'the value is not case-folded before lookup in '
              'the lower-case vocabulary')


# --------------------------------------------------------------------------
# OR-AGGR
# --------------------------------------------------------------------------

AGGREGATORS = ('set', 'frozenset', 'Counter', 'collections.Counter', 'sorted',
               'np.unique', 'numpy.unique', 'dict', 'dict.fromkeys',
               'unique')


def _record_iter_vars(func, key, table_param):
    """Names bound to records of table_json[<key>] by loops/comprehensions."""
    names = set()

    def is_records(e, depth=0):
        if isinstance(e, ast.Call) and call_name(e) == 'enumerate' and e.args:
            e = e.args[0]
        if isinstance(e, ast.Name) and depth < 3:
            # a local bound once to the record list
            ds = [x.value for x in ast.walk(func) if isinstance(
                x, ast.Assign) and len(x.targets) == 1 and isinstance(
                x.targets[0], ast.Name) and x.targets[0].id == e.id]
            return len(ds) == 1 and is_records(ds[0], depth + 1)
        return isinstance(e, ast.Subscript) and \
            dotted(e.value) == table_param and const_str(e.slice) == key
    for n in ast.walk(func):
        if isinstance(n, (ast.For, ast.comprehension)) and is_records(n.iter):
            tn = target_names(n.target)
            if tn:
                names.add(tn[-1])
    return names


def _mentions_id_of(expr, recvars):
    for n in ast.walk(expr):
        if isinstance(n, ast.Subscript) and const_str(n.slice) == 'id' and \
                dotted(n.value) in recvars:
            return True
        if isinstance(n, ast.Call) and isinstance(n.func, ast.Attribute) \
                and n.func.attr == 'get' and dotted(n.func.value) in recvars \
                and n.args and const_str(n.args[0]) == 'id':
            return True
    return False


def _aggregates(func, is_source, assigns):
    """Find aggregate constructs over values satisfying ``is_source``:
    returns list of (node, how)."""
    found = []
    # names holding a collection of ids
    coll = set()
    changed = True
    while changed:
        changed = False
        for name, vals in assigns.items():
            if name in coll:
                continue
            for v, st in vals:
                if v is not None and (
                        (isinstance(v, (ast.ListComp, ast.GeneratorExp,
                                        ast.SetComp, ast.DictComp)) and
                         is_source(v)) or
                        (isinstance(v, ast.Call) and is_source(v)) or
                        (isinstance(v, (ast.Subscript, ast.Name)) and
                         is_source(v)) or
                        any(isinstance(x, ast.Name) and x.id in coll
                            for x in ast.walk(v))):
                    coll.add(name)
                    changed = True
                    break

    def srcish(e):
        return is_source(e) or any(isinstance(x, ast.Name) and x.id in coll
                                   for x in ast.walk(e))
    for n in ast.walk(func):
        if isinstance(n, ast.Call) and call_name(n) in AGGREGATORS and \
                n.args and srcish(n.args[0]):
            found.append((n, call_name(n)))
        elif isinstance(n, (ast.SetComp, ast.DictComp)) and srcish(n):
            found.append((n, 'comprehension'))
        elif isinstance(n, ast.Call) and isinstance(n.func, ast.Attribute) \
                and n.func.attr in ('add', 'append', 'setdefault') and \
                n.args and srcish(n.args[0]):
            # seen-set idiom: needs a membership test on the same container
            cont = dotted(n.func.value)
            for m in ast.walk(func):
                if isinstance(m, ast.Compare) and isinstance(
                        m.ops[0], (ast.In, ast.NotIn)) and \
                        dotted(m.comparators[0]) == cont:
                    found.append((m, 'seen-set'))
                    break
    return found, coll


def _influences_verdict(func, mod, node):
    """The aggregate takes part in a condition (if/ifexp/assert/compare)."""
    cur = node
    # parents within the function itself (the function may be a flattened
    # view that is not part of the module tree)
    lp = {}
    for p_ in ast.walk(func):
        for c_ in ast.iter_child_nodes(p_):
            lp[id(c_)] = p_
    while cur is not None and cur is not func:
        par = lp.get(id(cur))
        if isinstance(par, (ast.If, ast.IfExp, ast.While)) and \
                cur is par.test:
            return True
        if isinstance(par, ast.Compare):
            return True
        if isinstance(par, ast.Assign):
            # used later in a condition?
            names = [t.id for t in par.targets if isinstance(t, ast.Name)]
            for n in ast.walk(func):
                if isinstance(n, (ast.If, ast.IfExp)):
                    if any(isinstance(x, ast.Name) and x.id in names
                           for x in ast.walk(n.test)):
                        return True
            return False
        cur = par
    return False


def rule_or_aggr(repo, col):
    """Duplicate detection needs a value derived from *all* ids of an axis;
    blank detection needs a test on each id's emptiness.  JSON: over
    table_json['rows'] / ['columns']; HDF5: over the contents of
    observation/ids and sample/ids."""
    rule = 'OR-AGGR'
    m = repo.mod(VAL)
    # ---- JSON --------------------------------------------------------
    jfuncs = ['TableValidator._validate_json', 'TableValidator._valid_rows',
              'TableValidator._valid_columns']
    for key in ('rows', 'columns'):
        hit = None
        for q in jfuncs:
            f = repo.func(VAL, q)
            from .normalize import flat_view as _fv
            f = _fv(m.tree, VAL, f)
            tparam = 'table_json'
            recvars = _record_iter_vars(f, key, tparam)
            if not recvars:
                continue
            assigns = local_assignments(f)

            def is_source(e, recvars=recvars):
                return _mentions_id_of(e, recvars)
            aggs, _ = _aggregates(f, is_source, assigns)
            # also: direct comparison of the ids of two different records
            for n, how in aggs:
                if _influences_verdict(f, m, n):
                    hit = (q, n, how)
                    break
            if hit:
                break
        if hit:
            col.ok(rule, VAL, hit[0], 'json-duplicate:%s' % key, hit[1],
                   'ids of all %s are aggregated (%s) and the result '
                   'decides an error' % (key, hit[2]))
        else:
            col.bad(rule, VAL, 'TableValidator._valid_%s' % key,
                    'json-duplicate:%s' % key, None,
                    "no value derived from all ids of '%s' exists in the "
                    'JSON validator: ids are only inspected one record at a '
                    'time, so a duplicated id cannot be rejected' % key)
    # blank ids (JSON): _valid_id applied to every record with a falsy test
    f = repo.func(VAL, 'TableValidator._valid_id')
    rec = param_names(f)[1]
    blank = False
    for n in body_walk(f):
        if isinstance(n, ast.If):
            t = n.test
            if isinstance(t, ast.UnaryOp) and isinstance(t.op, ast.Not) and \
                    _mentions_id_of(t.operand, {rec}):
                blank = any(isinstance(b, ast.Return) for b in n.body)
            if isinstance(t, ast.Compare) and _mentions_id_of(t, {rec}):
                blank = blank or any(isinstance(b, ast.Return)
                                     for b in n.body)
    # decided by evaluating the function on a blank and a non-blank id
    from .consteval import ConstEval as _CE2, UNKNOWN as _UNK2, \
        _FALLTHROUGH as _FT2
    ce2 = _CE2(repo)
    r_blank = ce2.run_body(f.body, VAL, {rec: {'id': ''}})
    r_named = ce2.run_body(f.body, VAL, {rec: {'id': 'x'}})
    if not any(r is _UNK2 or r is _FT2 for r in (r_blank, r_named)):
        blank = bool(r_blank) and r_named == ''
    col.check(blank, rule, VAL, 'TableValidator._valid_id', 'json-blank', f,
              'an empty id yields an error', 'empty ids are not tested')
    # ---- HDF5 ---------------------------------------------------------
    f = repo.func(VAL, 'TableValidator._validate_hdf5')
    ce = ConstEval(repo)
    # same-class helpers the validator hands the table to
    helpers = []
    for n in ast.walk(f):
        if isinstance(n, ast.Call) and isinstance(n.func, ast.Attribute) \
                and dotted(n.func.value) == 'self' and \
                repo.has_func(VAL, 'TableValidator.' + n.func.attr) and \
                any(dotted(a) == 'table' for a in n.args):
            g = repo.func(VAL, 'TableValidator.' + n.func.attr)
            if g not in helpers and g is not f:
                helpers.append(g)

    def scan(func, path, wildcard):
        assigns = local_assignments(func)
        holders = _hdf5_ids_holders(func, path, ce)
        if wildcard and not holders:
            ps = set(param_names(func))
            for n in ast.walk(func):
                if isinstance(n, ast.Assign) and isinstance(
                        n.targets[0], ast.Name):
                    v = n.value
                    key = None
                    if isinstance(v, ast.Call) and isinstance(
                            v.func, ast.Attribute) and \
                            v.func.attr == 'get' and v.args:
                        key = v.args[0]
                    elif isinstance(v, ast.Subscript):
                        key = v.slice
                    if isinstance(key, ast.BinOp) and isinstance(
                            key.op, ast.Mod) and \
                            const_str(key.left) == '%s/ids' and \
                            isinstance(key.right, ast.Name) and \
                            key.right.id in ps:
                        holders.add(n.targets[0].id)

        def reads_contents(e, holders=holders):
            for n in ast.walk(e):
                if isinstance(n, ast.Subscript) and \
                        dotted(n.value) in holders and \
                        isinstance(n.slice, (ast.Slice, ast.Constant,
                                             ast.Tuple)) and \
                        not isinstance(n.slice, ast.Constant):
                    return True
                if isinstance(n, ast.Subscript) and \
                        dotted(n.value) in holders and isinstance(
                            n.slice, ast.Constant) and \
                        n.slice.value is Ellipsis:
                    return True
                if isinstance(n, ast.Call) and call_name(n) in (
                        'list', 'set', 'tuple', 'np.asarray', 'np.array',
                        'sorted', 'np.unique') and n.args and \
                        dotted(n.args[0]) in holders:
                    return True
                if isinstance(n, ast.comprehension) and \
                        dotted(n.iter) in holders:
                    return True
            return False
        aggs, coll = _aggregates(func, reads_contents, assigns)
        aggs = [(n, how) for n, how in aggs
                if _influences_verdict(func, m, n)]
        blank = None
        for n in ast.walk(func):
            if isinstance(n, (ast.ListComp, ast.GeneratorExp, ast.For)):
                gens = n.generators if not isinstance(n, ast.For) else [n]
                for g in gens:
                    it = g.iter
                    if reads_contents(it) or (isinstance(it, ast.Name) and
                                              it.id in coll):
                        tn = target_names(g.target)
                        body = n.elt if not isinstance(n, ast.For) else n
                        for x in ast.walk(body):
                            if _is_emptiness_test(x, tn):
                                blank = x
        return holders, aggs, blank
    for axis in ('observation', 'sample'):
        path = '%s/ids' % axis
        holders, aggs, blank = scan(f, path, False)
        where = 'TableValidator._validate_hdf5'
        if not (holders and aggs and blank is not None):
            for g in helpers:
                h2, a2, b2 = scan(g, path, True)
                if h2:
                    holders = holders or h2
                    aggs = aggs or a2
                    blank = blank if blank is not None else b2
                    where = 'TableValidator.' + g.name
        role = 'hdf5-duplicate:%s' % axis
        if not holders:
            col.bad(rule, VAL, 'TableValidator._validate_hdf5', role, None,
                    "the '%s' dataset is never looked up" % path)
            continue
        col.check(bool(aggs), rule, VAL, where,
                  role, aggs[0][0] if aggs else None,
                  "contents of '%s' are read and aggregated (%s)"
                  % (path, aggs[0][1] if aggs else ''),
                  "the contents of '%s' are never read and aggregated (only "
                  'its length is used): duplicated ids cannot be rejected'
                  % path)
        col.check(blank is not None, rule, VAL,
                  where, 'hdf5-blank:%s' % axis,
                  blank, "each id of '%s' is tested for emptiness" % path,
                  "no emptiness test over the ids of '%s': an empty id is "
                  'reported valid' % path)


def _is_emptiness_test(x, names):
    if isinstance(x, ast.UnaryOp) and isinstance(x.op, ast.Not) and \
            dotted(x.operand) in names:
        return True
    if isinstance(x, ast.Compare):
        left = x.left
        right = x.comparators[0]
        if isinstance(left, ast.Call) and call_name(left) == 'len' and \
                left.args and dotted(left.args[0]) in names and \
                isinstance(right, ast.Constant) and right.value in (0, 1):
            return True
        for a, b in ((left, right), (right, left)):
            if dotted(a) in names and isinstance(b, ast.Constant) and \
                    b.value in ('', b''):
                return True
    return False


def _hdf5_ids_holders(func, path, ce):
    """Local names bound to table[<path>] / table.get(<path>), where the path
    may be built per axis in a loop (``'%s/ids' % axis``)."""
    holders = set()
    for n in ast.walk(func):
        if not isinstance(n, ast.Assign) or not isinstance(
                n.targets[0], ast.Name):
            continue
        v = n.value
        key = None
        if isinstance(v, ast.Call) and isinstance(v.func, ast.Attribute) \
                and v.func.attr == 'get' and dotted(v.func.value) == 'table' \
                and v.args:
            key = v.args[0]
        elif isinstance(v, ast.Subscript) and dotted(v.value) == 'table':
            key = v.slice
        if key is None:
            continue
        if const_str(key) == path:
            holders.add(n.targets[0].id)
            continue
        # '%s/ids' % axis inside `for axis in ('observation','sample')`
        for loop in ast.walk(func):
            if isinstance(loop, ast.For) and any(x is n
                                                 for x in ast.walk(loop)):
                vals = ce.ev(loop.iter, VAL)
                if vals is UNKNOWN:
                    continue
                tn = target_names(loop.target)
                for val in vals:
                    if len(tn) == 1 and ce.ev(key, VAL,
                                              {tn[0]: val}) == path:
                        holders.add(n.targets[0].id)
    return holders


# --------------------------------------------------------------------------
# bounds, shapes
# --------------------------------------------------------------------------

def _reject_atoms(test):
    """Conditions under which the if body (an error) is taken, as atoms
    (left, op, right); None when the shape is not understood."""
    if isinstance(test, ast.BoolOp) and isinstance(test.op, ast.Or):
        out = []
        for v in test.values:
            a = _reject_atoms(v)
            if a is None:
                return None
            out += a
        return out
    if isinstance(test, ast.Compare):
        if len(test.ops) == 1:
            return [(test.left, test.ops[0], test.comparators[0])]
        return None
    if isinstance(test, ast.UnaryOp) and isinstance(test.op, ast.Not):
        inner = test.operand
        # not (a <= x <= b)  ==  x < a or x > b
        if isinstance(inner, ast.Compare):
            neg = {ast.Lt: ast.GtE, ast.LtE: ast.Gt, ast.Gt: ast.LtE,
                   ast.GtE: ast.Lt, ast.Eq: ast.NotEq, ast.NotEq: ast.Eq}
            out = []
            left = inner.left
            for op, right in zip(inner.ops, inner.comparators):
                if type(op) not in neg:
                    return None
                out.append((left, neg[type(op)](), right))
                left = right
            return out
        if isinstance(inner, ast.BoolOp) and isinstance(inner.op, ast.And):
            out = []
            for v in inner.values:
                a = _reject_atoms(ast.UnaryOp(ast.Not(), v))
                if a is None:
                    return None
                out += a
            return out
    return None


def _offset_expr(e, offsets):
    """(base_name, offset) for ``name``, ``name - k``, ``name + k``."""
    if isinstance(e, ast.Name):
        return e.id, offsets.get(e.id, 0)
    if isinstance(e, ast.BinOp) and isinstance(e.left, ast.Name) and \
            isinstance(e.right, ast.Constant) and \
            isinstance(e.right.value, int):
        k = e.right.value
        if isinstance(e.op, ast.Sub):
            return e.left.id, offsets.get(e.left.id, 0) - k
        if isinstance(e.op, ast.Add):
            return e.left.id, offsets.get(e.left.id, 0) + k
    return None, None


def rule_bounds(repo, col):
    """_valid_sparse_data: each coordinate has a lower test (< 0) and an
    upper test equivalent to ``>= dimension`` against the dimension of its
    own axis (x with shape[0], y with shape[1]); values are type-checked."""
    rule = 'AX-BOUNDS'
    q = 'TableValidator._valid_sparse_data'
    f = repo.func(VAL, q)
    # bodies of newly extracted private helpers are searched as well
    from .normalize import flat_view
    f = flat_view(repo.mod(VAL).tree, VAL, f)
    # dimension variables: n_rows, n_cols = table_json['shape']
    dims = {}
    offsets = {}
    for n in body_walk(f):
        if isinstance(n, ast.Assign) and isinstance(n.targets[0], ast.Tuple) \
                and _is_shape_expr(repo, f, n.value):
            names = target_names(n.targets[0])
            if len(names) == 2:
                dims[names[0]] = 0
                dims[names[1]] = 1
        if isinstance(n, ast.AugAssign) and isinstance(n.target, ast.Name) \
                and isinstance(n.value, ast.Constant) and \
                isinstance(n.value.value, int):
            k = n.value.value if isinstance(n.op, ast.Add) else \
                -n.value.value if isinstance(n.op, ast.Sub) else None
            if k is not None:
                offsets[n.target.id] = offsets.get(n.target.id, 0) + k
    # coordinate variables: x, y, val = coord
    coords = None
    for n in body_walk(f):
        if isinstance(n, ast.Assign) and isinstance(n.targets[0], ast.Tuple) \
                and len(n.targets[0].elts) == 3 and \
                isinstance(n.value, ast.Name):
            coords = target_names(n.targets[0])
    if not dims or not coords:
        col.unknown(rule, VAL, q, 'shape', f, 'shape/coordinate unpacking '
                    'not recognised')
        return
    # the decrement must happen before the loop (offsets are loop-invariant)
    lower = {}
    upper = {}
    unknown_tests = []
    # a rejecting branch returns, or sets the message the function returns
    returned = {x.id for r in body_walk(f) if isinstance(r, ast.Return)
                and r.value is not None for x in ast.walk(r.value)
                if isinstance(x, ast.Name)}

    def _is_message(v):
        return isinstance(v, ast.JoinedStr) or (
            isinstance(v, ast.Constant) and isinstance(v.value, str) and
            v.value != '') or (
            isinstance(v, ast.BinOp) and isinstance(v.op, ast.Mod) and
            isinstance(v.left, ast.Constant) and
            isinstance(v.left.value, str) and v.left.value != '')

    def _rejects(b):
        return isinstance(b, ast.Return) or (
            isinstance(b, ast.Assign) and len(b.targets) == 1 and
            isinstance(b.targets[0], ast.Name) and
            b.targets[0].id in returned and _is_message(b.value))
    for n in body_walk(f):
        if isinstance(n, ast.If) and any(_rejects(b) for b in n.body):
            atoms = _reject_atoms(n.test)
            names_in_test = {x.id for x in ast.walk(n.test)
                             if isinstance(x, ast.Name)}
            if not (names_in_test & set(coords[:2])):
                continue
            if atoms is None:
                if names_in_test & set(dims):
                    unknown_tests.append(n)
                continue
            for left, op, right in atoms:
                # normalise to coord on the left
                flip = {ast.Lt: ast.Gt, ast.Gt: ast.Lt, ast.LtE: ast.GtE,
                        ast.GtE: ast.LtE}
                if isinstance(right, ast.Name) and right.id in coords[:2] \
                        and type(op) in flip:
                    left, op, right = right, flip[type(op)](), left
                if not (isinstance(left, ast.Name) and left.id in coords[:2]):
                    continue
                c = left.id
                if isinstance(right, ast.Constant) and \
                        isinstance(right.value, int):
                    if (isinstance(op, ast.Lt) and right.value == 0) or \
                            (isinstance(op, ast.LtE) and right.value == -1):
                        lower[c] = n
                    continue
                base, off = _offset_expr(right, offsets)
                if base in dims:
                    # reject when c >= dim  <=>  c > dim-1
                    exact = (isinstance(op, ast.GtE) and off == 0) or \
                            (isinstance(op, ast.Gt) and off == -1)
                    upper[c] = (n, dims[base], exact, off, op)
    for i, c in enumerate(coords[:2]):
        role = 'coord%d' % i
        if unknown_tests and (c not in lower or c not in upper):
            col.unknown(rule, VAL, q, role, unknown_tests[0],
                        'bounds test shape not recognised')
            continue
        col.check(c in lower, rule, VAL, q, role + ':lower',
                  lower.get(c) or f, 'negative coordinate rejected',
                  'no test rejecting a negative %s coordinate'
                  % ('row' if i == 0 else 'column'))
        if c not in upper:
            col.bad(rule, VAL, q, role + ':upper', f,
                    'no test rejecting a %s coordinate beyond the shape'
                    % ('row' if i == 0 else 'column'))
            continue
        n, dim, exact, off, op = upper[c]
        col.check(dim == i, rule, VAL, q, role + ':axis', n,
                  'compared with shape[%d]' % i,
                  'coordinate %d is compared with shape[%d]' % (i, dim))
        col.check(exact, rule, VAL, q, role + ':upper', n,
                  'rejects exactly the coordinates >= the dimension',
                  'upper test is off by one (operator %s with offset %+d '
                  'relative to the dimension): it either accepts a '
                  'coordinate outside the shape or rejects the last valid '
                  'one' % (type(op).__name__, off))
    # value and coordinate types
    has_val_type = has_int = False
    for n in body_walk(f):
        if isinstance(n, ast.Call) and call_name(n) == 'isinstance' and \
                n.args and dotted(n.args[0]) == coords[2] and \
                dotted(n.args[1]) == 'dtype':
            has_val_type = True
        if isinstance(n, ast.Call) and dotted(n.func) == 'self._is_int' and \
                n.args and dotted(n.args[0]) in coords[:2]:
            has_int = True
    col.check(has_val_type, rule, VAL, q, 'value-type', f,
              'the value is type-checked against the declared element type',
              'values are not checked against matrix_element_type')
    col.check(has_int, rule, VAL, q, 'coord-type', f,
              'coordinates must be integers', 'coordinates are not '
              'type-checked')
    # dtype comes from ElementTypes[matrix_element_type]
    ok = False
    for n in body_walk(f):
        if isinstance(n, ast.Assign) and dotted(n.targets[0]) == 'dtype' and \
                isinstance(n.value, ast.Subscript) and \
                dotted(n.value.value) == 'self.ElementTypes' and \
                'matrix_element_type' in unparse(n.value.slice):
            ok = True
    col.check(ok, rule, VAL, q, 'dtype-source', f,
              'dtype = ElementTypes[matrix_element_type]',
              'dtype is not derived from the declared element type')


def _is_shape_expr(repo, f, e, depth=0, whole=False):
    """`e` denotes the declared shape (in its own order): the 'shape'
    member read directly, through the generic getter, through a local, or
    through a helper that returns it (whole, or as `(s[0], s[1])`)."""
    if depth > 4 or e is None:
        return False
    if isinstance(e, ast.Subscript) and const_str(e.slice) == 'shape':
        return True
    if isinstance(e, ast.Name):
        ds = [x.value for x in ast.walk(f) if isinstance(x, ast.Assign) and
              len(x.targets) == 1 and isinstance(x.targets[0], ast.Name) and
              x.targets[0].id == e.id]
        return bool(ds) and all(_is_shape_expr(repo, f, d, depth + 1, whole)
                                for d in ds)
    if isinstance(e, ast.Call):
        if any(const_str(a) == 'shape' for a in e.args):
            return True
        nm = e.func.attr if isinstance(e.func, ast.Attribute) else (
            e.func.id if isinstance(e.func, ast.Name) else None)
        for q2 in ('TableValidator.%s' % nm, nm):
            if nm and repo.has_func(VAL, q2):
                g = repo.func(VAL, q2)
                rets = [r.value for r in ast.walk(g) if isinstance(
                    r, ast.Return) and r.value is not None and not (
                    isinstance(r.value, ast.Constant) and
                    r.value.value is None)]
                if not rets:
                    return False

                def ok(v):
                    if isinstance(v, ast.Tuple) and len(v.elts) == 2:
                        if whole:
                            return False    # the first two entries only
                        return all(isinstance(x, ast.Subscript) and
                                   isinstance(x.slice, ast.Constant) and
                                   x.slice.value == i and _is_shape_expr(
                                       repo, g, x.value, depth + 1)
                                   for i, x in enumerate(v.elts))
                    return _is_shape_expr(repo, g, v, depth + 1, whole)
                return all(ok(v) for v in rets)
    return False


def rule_shape_crosscheck(repo, col):
    """shape[0] is compared with the number of rows / observation ids,
    shape[1] with the number of columns / sample ids (JSON, dense data and
    HDF5)."""
    rule = 'AX-SHAPE'
    q = 'TableValidator._validate_json'
    from .normalize import flat_view as _fv
    f = _fv(repo.mod(VAL).tree, VAL, repo.func(VAL, q))
    want = {'rows': 0, 'columns': 1}
    seen = {}
    for n in body_walk(f):
        if isinstance(n, ast.Compare) and len(n.ops) == 1 and \
                isinstance(n.ops[0], (ast.NotEq, ast.Eq)):
            sides = [n.left, n.comparators[0]]
            key = dim = None
            for s in sides:
                if isinstance(s, ast.Call) and call_name(s) == 'len' and \
                        s.args and isinstance(s.args[0], ast.Subscript) and \
                        const_str(s.args[0].slice) in want:
                    key = const_str(s.args[0].slice)
                if isinstance(s, ast.Subscript) and isinstance(
                        s.slice, ast.Constant) and _is_shape_expr(
                        repo, f, s.value):
                    dim = s.slice.value
            if key is not None and dim is not None:
                seen[key] = (dim, n)
    for key, d in want.items():
        if key not in seen:
            col.bad(rule, VAL, q, 'shape-vs-%s' % key, f,
                    "the number of '%s' is never compared with shape" % key)
        else:
            col.check(seen[key][0] == d, rule, VAL, q, 'shape-vs-%s' % key,
                      seen[key][1], "len(%s) is compared with shape[%d]"
                      % (key, d), "len(%s) is compared with shape[%d], "
                      'expected shape[%d]' % (key, seen[key][0], d))
    # dense data
    q = 'TableValidator._valid_dense_data'
    f = repo.func(VAL, q)
    dims = {}
    for n in body_walk(f):
        if isinstance(n, ast.Assign) and isinstance(n.targets[0], ast.Tuple) \
                and _is_shape_expr(repo, f, n.value):
            names = target_names(n.targets[0])
            dims = {names[0]: 0, names[1]: 1}
    rowvar = None
    for n in body_walk(f):
        if isinstance(n, ast.For) and isinstance(n.iter, ast.Subscript) and \
                const_str(n.iter.slice) == 'data':
            rowvar = target_names(n.target)[0]
    got = {}
    for n in body_walk(f):
        if isinstance(n, ast.Compare) and isinstance(n.ops[0], ast.NotEq) \
                and isinstance(n.left, ast.Call) and \
                call_name(n.left) == 'len' and n.left.args:
            a = n.left.args[0]
            r = dotted(n.comparators[0])
            if dotted(a) == rowvar and r in dims:
                got['row-length'] = (dims[r], 1, n)
            elif isinstance(a, ast.Subscript) and \
                    const_str(a.slice) == 'data' and r in dims:
                got['row-count'] = (dims[r], 0, n)
    for role in ('row-length', 'row-count'):
        if role not in got:
            col.unknown(rule, VAL, q, role, f, 'comparison not recognised')
        else:
            d, w, n = got[role]
            col.check(d == w, rule, VAL, q, role, n,
                      'compared with shape[%d]' % w,
                      '%s is compared with shape[%d], expected shape[%d]'
                      % (role, d, w))
    # HDF5
    q = 'TableValidator._validate_hdf5'
    f = repo.func(VAL, q)
    ce = ConstEval(repo)
    dims = {}
    for n in body_walk(f):
        if isinstance(n, ast.Assign) and isinstance(n.targets[0], ast.Tuple) \
                and _is_shape_expr(repo, f, n.value):
            names = target_names(n.targets[0])
            dims = {names[0]: 0, names[1]: 1}
    holders = {}
    for axis, d in (('observation', 0), ('sample', 1)):
        for h in _hdf5_ids_holders(f, '%s/ids' % axis, ce):
            holders.setdefault(h, set()).add(d)
    got = {}
    for n in body_walk(f):
        if isinstance(n, ast.Compare) and isinstance(n.ops[0], ast.NotEq):
            sides = [n.left, n.comparators[0]]
            dv = [dims[dotted(s)] for s in sides if dotted(s) in dims]
            hv = [holders[dotted(s.args[0])] for s in sides
                  if isinstance(s, ast.Call) and call_name(s) == 'len' and
                  s.args and dotted(s.args[0]) in holders]
            if dv and hv and len(hv[0]) == 1:
                got[list(hv[0])[0]] = (dv[0], n)
    for d, axis in ((0, 'observation'), (1, 'sample')):
        if d not in got:
            col.bad(rule, VAL, q, 'shape-vs-%s-ids' % axis, f,
                    'the number of %s ids is never compared with shape'
                    % axis)
        else:
            col.check(got[d][0] == d, rule, VAL, q,
                      'shape-vs-%s-ids' % axis, got[d][1],
                      'len(%s/ids) compared with shape[%d]' % (axis, d),
                      'len(%s/ids) is compared with shape[%d]'
                      % (axis, got[d][0]))


def rule_records(repo, col):
    """_valid_rows/_valid_columns iterate their own member, apply the id and
    metadata validators to every record and return the first error;
    _valid_metadata accepts only null or an object."""
    rule = 'SB-RECORDS'
    for q, key in (('TableValidator._valid_rows', 'rows'),
                   ('TableValidator._valid_columns', 'columns')):
        f = repo.func(VAL, q)
        from .normalize import flat_view as _fv
        f = _fv(repo.mod(VAL).tree, VAL, f)
        recvars = _record_iter_vars(f, key, 'table_json')
        other = 'columns' if key == 'rows' else 'rows'
        wrong = _record_iter_vars(f, other, 'table_json')
        col.check(bool(recvars) and not wrong, rule, VAL, q,
                  'iterates:%s' % key, f, "iterates table_json['%s']" % key,
                  "does not iterate table_json['%s'] (iterates '%s')"
                  % (key, other if wrong else 'nothing'))
        src = unparse(f, 10 ** 6)
        for meth in ('_valid_id', '_valid_metadata'):
            # applied via the required_keys table or a direct call
            in_table = any(isinstance(n, ast.Tuple) and len(n.elts) == 2 and
                           dotted(n.elts[1]) == 'self.%s' % meth
                           for n in body_walk(f))
            direct = any(isinstance(n, ast.Call) and
                         dotted(n.func) == 'self.%s' % meth and n.args and
                         dotted(n.args[0]) in recvars for n in body_walk(f))
            col.check(in_table or direct, rule, VAL, q,
                      'applies:%s' % meth, f, 'applied to every record',
                      '%s is not applied to the records of %s' % (meth, key))
        # table-driven application: method(record) result returned when
        # non-empty
        applied = False
        for n in body_walk(f):
            if isinstance(n, ast.For) and isinstance(n.target, ast.Tuple) \
                    and dotted(n.iter) == 'required_keys':
                mvar = target_names(n.target)[1]
                res = None
                for x in ast.walk(n):
                    if isinstance(x, ast.Assign) and isinstance(
                            x.value, ast.Call) and \
                            dotted(x.value.func) == mvar and x.value.args \
                            and dotted(x.value.args[0]) in recvars:
                        res = dotted(x.targets[0])
                for x in ast.walk(n):
                    if isinstance(x, ast.If) and res and \
                            res in {y.id for y in ast.walk(x.test)
                                    if isinstance(y, ast.Name)} and \
                            any(isinstance(b, ast.Return) and
                                dotted(b.value) == res for b in x.body):
                        applied = True
        col.check(applied, rule, VAL, q, 'returns-first-error', f,
                  'a non-empty validator result is returned',
                  'validator results are not propagated')
    f = repo.func(VAL, 'TableValidator._valid_metadata')
    rec = param_names(f)[1]
    accept = []
    for n in body_walk(f):
        if isinstance(n, ast.If) and any(
                isinstance(b, ast.Return) and isinstance(
                    b.value, ast.Constant) and b.value.value == ''
                for b in n.body):
            accept.append(unparse(n.test))
    final = [n for n in f.body if isinstance(n, ast.Return)]
    ok = 1 <= len(accept) <= 2 and any('is None' in a for a in accept) and \
        any('isinstance' in a and 'dict' in a for a in accept) and \
        not any(' and ' in a for a in accept) and \
        final and not (isinstance(final[-1].value, ast.Constant) and
                       final[-1].value.value == '')
    # decided by evaluating the function on one value of every JSON kind
    from .consteval import ConstEval as _CE, UNKNOWN as _UNK, _FALLTHROUGH
    ce_ = _CE(repo)
    verdicts = []
    for v_ in (None, {}, {'a': 1}, 5, 0, 1.5, True, False, 'x', '', [],
               [1]):
        r_ = ce_.run_body(f.body, VAL, {rec: {'metadata': v_}})
        verdicts.append((v_, r_))
    if all(r_ is not _UNK and r_ is not _FALLTHROUGH
           for _, r_ in verdicts):
        ok = all((r_ == '') == (v_ is None or isinstance(v_, dict))
                 for v_, r_ in verdicts)
    col.check(bool(ok), rule, VAL, 'TableValidator._valid_metadata',
              'object-or-null', f, "'' only for None or dict; an error "
              'otherwise', 'metadata that is neither null nor an object is '
              'accepted (accepting tests: %s)' % accept)


def rule_json_keys(repo, col):
    """Keys read by Table.from_json are all required by the JSON validator
    (so an accepted file has what the loader needs), and the per-key
    validators are bound to their own key."""
    rule = 'AG-JSONKEYS'
    f = repo.func(VAL, 'TableValidator._validate_json')
    lst, st = _literal_list(f, 'required_keys', None)
    if lst is None:
        col.unknown(rule, VAL, 'TableValidator._validate_json',
                    'required_keys', f, 'list literal not found')
        return
    req = {}
    for e in lst.elts:
        if isinstance(e, ast.Tuple) and const_str(e.elts[0]):
            req[const_str(e.elts[0])] = dotted(e.elts[1])
    fj = repo.func(TABLE, 'Table.from_json')
    jparam = param_names(fj)[1]
    read = {}
    optional = set()
    for n in body_walk(fj):
        if isinstance(n, ast.Subscript) and dotted(n.value) == jparam and \
                const_str(n.slice):
            read[const_str(n.slice)] = n
        if isinstance(n, ast.If) and isinstance(n.test, ast.Compare) and \
                isinstance(n.test.ops[0], ast.In) and \
                const_str(n.test.left) and \
                dotted(n.test.comparators[0]) == jparam:
            optional.add(const_str(n.test.left))
    for k, node in sorted(read.items()):
        col.check(k in req, rule, TABLE, 'Table.from_json', 'reads:%s' % k,
                  node, 'required by the validator',
                  "from_json reads '%s' which the validator does not "
                  'require: an accepted file may fail to load' % k)
    binding = {'rows': 'self._valid_rows', 'columns': 'self._valid_columns',
               'shape': 'self._valid_shape', 'data': 'self._valid_data',
               'matrix_type': 'self._valid_matrix_type',
               'matrix_element_type': 'self._valid_matrix_element_type',
               'type': 'self._valid_type', 'format': 'self._valid_format',
               'format_url': 'self._valid_format_url',
               'date': 'self._valid_datetime',
               'generated_by': 'self._valid_generated_by'}
    for k, v in binding.items():
        if k in req:
            col.check(req[k] == v, rule, VAL,
                      'TableValidator._validate_json', 'validator:%s' % k,
                      st, 'validated by %s' % v,
                      "key '%s' is validated by %s instead of %s"
                      % (k, req[k], v))
        else:
            col.bad(rule, VAL, 'TableValidator._validate_json',
                    'validator:%s' % k, st,
                    "key '%s' is not required" % k)
    # records: 'id' and 'metadata' are read per record by from_json
    for n in body_walk(fj):
        pass


def rule_written_constants(repo, col):
    """What the writers put in format-url / format-version / dates is what
    the validator accepts: both writers produce every creation date with
    .isoformat() and the validator accepts the shapes isoformat() yields."""
    from .rules_text import rule_ag_json_writer
    from .rules_hdf5 import WriterModel
    rule_ag_json_writer(repo, col)
    rule = 'AG-VALID'
    ce = ConstEval(repo)
    w = WriterModel(repo)
    dates = w.attrs.get('creation-date', [])
    ok = bool(dates) and all(isinstance(n.value, ast.Call) and isinstance(
        n.value.func, ast.Attribute) and n.value.func.attr == 'isoformat'
        for n in dates)
    col.check(ok, rule, TABLE, 'Table.to_hdf5', 'const:creation-date',
              dates[0] if dates else None,
              'every branch writes creation-date with .isoformat()',
              'a branch of to_hdf5 writes the creation date without '
              '.isoformat() (e.g. str(datetime) uses a space separator, '
              'which the validator rejects)')
    url, _ = _class_const(repo, 'TableValidator', 'FormatURL', ce)
    fu = w.attrs.get('format-url', [])
    col.check(bool(fu) and ce.ev(fu[0].value, TABLE) == url, rule, TABLE,
              'Table.to_hdf5', 'const:format-url', fu[0] if fu else None,
              'format-url written equals TableValidator.FormatURL',
              'format-url written differs from what the validator accepts')
    vers, _ = _class_const(repo, 'TableValidator', 'HDF5FormatVersions', ce)
    fv = ce.ev(ce.module_assign('biom/util.py', '__format_version__'),
               'biom/util.py')
    col.check(vers is not UNKNOWN and fv in vers, rule, TABLE,
              'Table.to_hdf5', 'const:format-version', None,
              'format version %r accepted' % (fv,),
              'format version %r written is not in HDF5FormatVersions'
              % (fv,))


RULE_TEXT = {
    'OR-REPORT': rule_or_report.__doc__,
    'AG-VALID': rule_ag_valid_hdf5.__doc__,
    'AG-VOCAB': rule_ag_vocab.__doc__,
    'OR-AGGR': rule_or_aggr.__doc__,
    'AX-BOUNDS': rule_bounds.__doc__,
    'AX-SHAPE': rule_shape_crosscheck.__doc__,
    'SB-RECORDS': rule_records.__doc__,
    'AG-JSONKEYS': rule_json_keys.__doc__,
}


def rule_shape_is_pair(repo, col):
    """AG-SHAPEPAIR: the validator constrains the *length* of the declared
    shape: it is unpacked into exactly two names or its len() is compared
    with 2 (reading `shape[0], shape[1]` accepts [2, 3, 9])."""
    rule = 'AG-SHAPEPAIR'
    q = 'TableValidator._valid_shape'
    if not repo.has_func(VAL, q):
        return
    from .normalize import flat_view
    f = flat_view(repo.mod(VAL).tree, VAL, repo.func(VAL, q))
    funcs = [f]
    # helpers of the class that the function calls
    for c in ast.walk(f):
        if isinstance(c, ast.Call) and isinstance(c.func, ast.Attribute) and \
                dotted(c.func.value) == 'self' and repo.has_func(
                VAL, 'TableValidator.%s' % c.func.attr):
            funcs.append(repo.func(VAL, 'TableValidator.%s' % c.func.attr))
    ok = False
    for g in funcs:
        for n in ast.walk(g):
            if isinstance(n, ast.Assign) and isinstance(
                    n.targets[0], ast.Tuple) and len(
                    n.targets[0].elts) == 2 and _is_shape_expr(
                    repo, g, n.value, whole=True):
                ok = True
            if isinstance(n, ast.Compare) and len(n.ops) == 1 and any(
                    isinstance(x, ast.Call) and call_name(x) == 'len' and
                    x.args and _is_shape_expr(repo, g, x.args[0], whole=True)
                    for x in [n.left] + n.comparators) and any(
                    isinstance(x, ast.Constant) and x.value == 2
                    for x in [n.left] + n.comparators):
                ok = True
    col.check(ok, rule, VAL, q, 'length-constrained', f,
              'the shape must have exactly two entries',
              'nothing constrains the number of entries of the declared '
              'shape (it is only subscripted): a shape such as [2, 3, 9] '
              'is reported valid')


RULE_TEXT['AG-SHAPEPAIR'] = rule_shape_is_pair.__doc__
