"""Name-based intra-procedural dataflow helpers (taint / dependence).

Deliberately simple: flow-insensitive fixpoint over the assignments of a
function *including* its nested functions, with arguments of calls to
locally defined functions mapped to their parameters.  Used for "does this
test depend on X" and "can raw bytes reach this sink" questions, where
imprecision can only turn a verdict into a weaker one (never an alarm on a
construct that is not a resolved sink).
"""
import ast

from .astutil import target_names, dotted, call_name, param_names


def _nonempty_test(test):
    """Name N when ``test`` is true iff container N is non-empty."""
    t = test
    if isinstance(t, ast.Compare) and len(t.ops) == 1 and isinstance(
            t.ops[0], (ast.Gt, ast.NotEq)) and isinstance(
            t.comparators[0], ast.Constant) and t.comparators[0].value == 0:
        t = t.left
    elif isinstance(t, ast.Compare):
        return None
    if isinstance(t, ast.Attribute) and t.attr == 'size' and \
            isinstance(t.value, ast.Name):
        return t.value.id
    if isinstance(t, ast.Call) and call_name(t) == 'len' and t.args and \
            isinstance(t.args[0], ast.Name):
        return t.args[0].id
    return None


def nested_functions(func):
    out = {}
    for n in ast.walk(func):
        if isinstance(n, (ast.FunctionDef, ast.AsyncFunctionDef)) and \
                n is not func:
            out[n.name] = n
    return out


def expr_tainted(e, tainted, seed, sanitise=None):
    """Does expression ``e`` carry taint?  ``seed(node)`` marks sources,
    ``sanitise(node)`` marks sub-expressions whose result is clean."""
    if e is None:
        return False
    if sanitise is not None and sanitise(e):
        return False
    if seed(e):
        return True
    if isinstance(e, ast.Name):
        return e.id in tainted
    if isinstance(e, (ast.ListComp, ast.SetComp, ast.GeneratorExp,
                      ast.DictComp)):
        # bind the comprehension variables
        local = set(tainted)
        for g in e.generators:
            if expr_tainted(g.iter, local, seed, sanitise):
                local |= set(target_names(g.target))
        elts = [e.elt] if not isinstance(e, ast.DictComp) else [e.key,
                                                                e.value]
        return any(expr_tainted(x, local, seed, sanitise) for x in elts)
    if isinstance(e, ast.Lambda):
        return False
    return any(expr_tainted(c, tainted, seed, sanitise)
               for c in ast.iter_child_nodes(e) if isinstance(c, ast.expr)) \
        or any(expr_tainted(c.value, tainted, seed, sanitise)
               for c in ast.iter_child_nodes(e)
               if isinstance(c, ast.keyword))


def taint(func, seed, sanitise=None, initial=()):
    """Fixpoint set of tainted local names (nested functions included)."""
    tainted = set(initial)
    nested = nested_functions(func)
    changed = True
    rounds = 0
    while changed and rounds < 30:
        changed = False
        rounds += 1
        for n in ast.walk(func):
            new = set()
            if isinstance(n, ast.Assign):
                if expr_tainted(n.value, tainted, seed, sanitise):
                    # tuple = tuple: element-wise when shapes match
                    for t in n.targets:
                        if isinstance(t, (ast.Tuple, ast.List)) and \
                                isinstance(n.value, (ast.Tuple, ast.List)) \
                                and len(t.elts) == len(n.value.elts):
                            for te, ve in zip(t.elts, n.value.elts):
                                if expr_tainted(ve, tainted, seed, sanitise):
                                    new |= set(target_names(te))
                        elif isinstance(t, (ast.Tuple, ast.List)) and \
                                isinstance(n.value, ast.IfExp) and \
                                isinstance(n.value.body, ast.Tuple) and \
                                isinstance(n.value.orelse, ast.Tuple) and \
                                len(t.elts) == len(n.value.body.elts) == \
                                len(n.value.orelse.elts):
                            for i, te in enumerate(t.elts):
                                if expr_tainted(n.value.body.elts[i],
                                                tainted, seed, sanitise) or \
                                        expr_tainted(n.value.orelse.elts[i],
                                                     tainted, seed,
                                                     sanitise):
                                    new |= set(target_names(te))
                        else:
                            new |= set(target_names(t))
            elif isinstance(n, ast.AugAssign):
                if expr_tainted(n.value, tainted, seed, sanitise):
                    new |= set(target_names(n.target))
            elif isinstance(n, (ast.For, ast.AsyncFor)):
                it = n.iter
                if isinstance(it, ast.Call) and call_name(it) == 'zip' and \
                        isinstance(n.target, (ast.Tuple, ast.List)) and \
                        len(n.target.elts) == len(it.args):
                    for te, a in zip(n.target.elts, it.args):
                        if expr_tainted(a, tainted, seed, sanitise):
                            new |= set(target_names(te))
                elif isinstance(it, ast.Call) and \
                        call_name(it) == 'enumerate' and it.args and \
                        isinstance(n.target, (ast.Tuple, ast.List)) and \
                        len(n.target.elts) == 2:
                    if expr_tainted(it.args[0], tainted, seed, sanitise):
                        new |= set(target_names(n.target.elts[1]))
                elif expr_tainted(it, tainted, seed, sanitise):
                    new |= set(target_names(n.target))
            elif isinstance(n, ast.Call):
                name = call_name(n)
                if name in nested:
                    g = nested[name]
                    params = param_names(g)
                    for p, a in zip(params, n.args):
                        if expr_tainted(a, tainted, seed, sanitise):
                            new.add(p)
                    for kw in n.keywords:
                        if kw.arg in params and expr_tainted(
                                kw.value, tainted, seed, sanitise):
                            new.add(kw.arg)
                # mutating method: x.append(tainted) / x.update(tainted)
                if isinstance(n.func, ast.Attribute) and n.func.attr in (
                        'append', 'extend', 'add', 'update') and \
                        isinstance(n.func.value, ast.Name) and \
                        any(expr_tainted(a, tainted, seed, sanitise)
                            for a in n.args):
                    new.add(n.func.value.id)
            if new - tainted:
                tainted |= new
                changed = True
    return tainted


def calls_returning_taint(func, tainted, seed, sanitise=None):
    """Names of nested functions whose return value is tainted."""
    out = set()
    for name, g in nested_functions(func).items():
        for n in ast.walk(g):
            if isinstance(n, ast.Return) and n.value is not None and \
                    expr_tainted(n.value, tainted, seed, sanitise):
                out.add(name)
    return out


# --------------------------------------------------------------------------
# flow-sensitive variant
# --------------------------------------------------------------------------

class FlowTaint:
    """Forward, flow-sensitive taint over the structured statements of a
    function.  Re-assignment kills taint, branches are joined by union, loop
    bodies are iterated to a fixpoint.  Nested functions have their own
    scope: parameters receive the taint of the call's arguments, free names
    see the caller's current state, and the taint of the returned value
    (element-wise for tuple returns) flows back to the call site.

    ``on_stmt(stmt, tainted, scope_name)`` is invoked for every simple
    statement (and for the header expression of compound statements) with
    the state *before* it, so that rules can evaluate sinks in context.
    """

    def __init__(self, func, seed, sanitise=None, on_stmt=None):
        self.func = func
        self.seed = seed
        self.sanitise = sanitise
        self.on_stmt = on_stmt or (lambda st, t, scope: None)
        self.nested = {}
        self._depth = 0

    def is_t(self, e, tainted):
        return self._expr(e, tainted)

    def _expr(self, e, tainted):
        """expr_tainted + calls to nested functions resolved by summary."""
        if e is None:
            return False
        if self.sanitise is not None and self.sanitise(e):
            return False
        if self.seed(e):
            return True
        if isinstance(e, ast.Call) and call_name(e) in self.nested:
            r = self._call_nested(e, tainted)
            return any(r) if isinstance(r, list) else bool(r)
        if isinstance(e, ast.Name):
            return e.id in tainted
        if isinstance(e, (ast.ListComp, ast.SetComp, ast.GeneratorExp,
                          ast.DictComp)):
            local = set(tainted)
            for g in e.generators:
                it = g.iter
                if isinstance(it, ast.Call) and \
                        call_name(it) == 'enumerate' and it.args and \
                        isinstance(g.target, (ast.Tuple, ast.List)) and \
                        len(g.target.elts) == 2:
                    names = set(target_names(g.target.elts[1]))
                    idx = set(target_names(g.target.elts[0]))
                    local -= idx
                    if self._expr(it.args[0], local):
                        local |= names
                    else:
                        local -= names
                elif self._expr(it, local):
                    local |= set(target_names(g.target))
                else:
                    local -= set(target_names(g.target))
            elts = [e.elt] if not isinstance(e, ast.DictComp) else \
                [e.key, e.value]
            # conditions only select, they do not flow into the value
            return any(self._expr(x, local) for x in elts)
        if isinstance(e, ast.Lambda):
            return False
        if isinstance(e, ast.Compare):
            return False          # a boolean carries no payload
        for c in ast.iter_child_nodes(e):
            if isinstance(c, ast.expr) and self._expr(c, tainted):
                return True
            if isinstance(c, ast.keyword) and self._expr(c.value, tainted):
                return True
        return False

    def _call_nested(self, call, tainted):
        g = self.nested[call_name(call)]
        if self._depth > 3:
            return True
        params = param_names(g)
        assigned = set()
        for n in ast.walk(g):
            if isinstance(n, ast.Assign):
                for t in n.targets:
                    assigned |= set(target_names(t))
            elif isinstance(n, (ast.For,)):
                assigned |= set(target_names(n.target))
        init = {x for x in tainted if x not in assigned and x not in params}
        for p, a in zip(params, call.args):
            if self._expr(a, tainted):
                init.add(p)
        for kw in call.keywords:
            if kw.arg in params and self._expr(kw.value, tainted):
                init.add(kw.arg)
        self._depth += 1
        rets = []
        self._block(g.body, init, rets, g.name)
        self._depth -= 1
        if not rets:
            return False
        width = max(len(r) if isinstance(r, list) else 1 for r in rets)
        if all(isinstance(r, list) and len(r) == width for r in rets):
            return [any(r[i] for r in rets) for i in range(width)]
        return any(any(r) if isinstance(r, list) else r for r in rets)

    def run(self, initial=()):
        rets = []
        return self._block(self.func.body, set(initial), rets,
                           self.func.name)

    def _assign(self, target, value, tainted):
        if isinstance(target, (ast.Tuple, ast.List)):
            if isinstance(value, (ast.Tuple, ast.List)) and \
                    len(value.elts) == len(target.elts):
                for t, v in zip(target.elts, value.elts):
                    self._assign(t, v, tainted)
                return
            if isinstance(value, ast.IfExp) and isinstance(
                    value.body, ast.Tuple) and isinstance(
                    value.orelse, ast.Tuple) and \
                    len(value.body.elts) == len(target.elts) == \
                    len(value.orelse.elts):
                for i, t in enumerate(target.elts):
                    tv = self._expr(value.body.elts[i], tainted) or \
                        self._expr(value.orelse.elts[i], tainted)
                    self._set(t, tv, tainted)
                return
            if isinstance(value, ast.Call) and \
                    call_name(value) in self.nested:
                r = self._call_nested(value, tainted)
                if isinstance(r, list) and len(r) == len(target.elts):
                    for t, tv in zip(target.elts, r):
                        self._set(t, tv, tainted)
                    return
                tv = any(r) if isinstance(r, list) else bool(r)
                self._set(target, tv, tainted)
                return
        self._set(target, self._expr(value, tainted), tainted)

    def _set(self, target, tv, tainted):
        for nm in target_names(target):
            if tv:
                tainted.add(nm)
            else:
                tainted.discard(nm)

    def _block(self, stmts, tainted, rets, scope):
        for st in stmts:
            tainted = self._stmt(st, tainted, rets, scope)
        return tainted

    def _stmt(self, st, tainted, rets, scope):
        if isinstance(st, (ast.FunctionDef, ast.AsyncFunctionDef)):
            self.nested[st.name] = st
            return tainted
        if isinstance(st, ast.If):
            self.on_stmt(st.test, tainted, scope)
            a = self._block(st.body, set(tainted), rets, scope)
            else_in = set(tainted)
            # an empty container carries no payload: on the false branch of
            # `if X.size > 0` / `if len(X) > 0` / `if X.size` X is clean
            emp = _nonempty_test(st.test)
            if emp:
                else_in.discard(emp)
            b = self._block(st.orelse, else_in, rets, scope)
            return a | b
        if isinstance(st, (ast.For, ast.AsyncFor, ast.While)):
            cur = set(tainted)
            for _ in range(3):
                body_in = set(cur)
                if isinstance(st, ast.While):
                    self.on_stmt(st.test, body_in, scope)
                else:
                    self.on_stmt(st.iter, body_in, scope)
                    it = st.iter
                    if isinstance(it, ast.Call) and call_name(it) == 'zip' \
                            and isinstance(st.target, (ast.Tuple, ast.List)) \
                            and len(st.target.elts) == len(it.args):
                        for te, a in zip(st.target.elts, it.args):
                            self._set(te, self._expr(a, body_in), body_in)
                    elif isinstance(it, ast.Call) and \
                            call_name(it) == 'enumerate' and it.args and \
                            isinstance(st.target, (ast.Tuple, ast.List)) \
                            and len(st.target.elts) == 2:
                        self._set(st.target.elts[0], False, body_in)
                        self._set(st.target.elts[1],
                                  self._expr(it.args[0], body_in), body_in)
                    else:
                        self._set(st.target, self._expr(it, body_in),
                                  body_in)
                out = self._block(st.body, body_in, rets, scope)
                new = cur | out
                if new == cur:
                    break
                cur = new
            if getattr(st, 'orelse', None):
                cur = self._block(st.orelse, cur, rets, scope)
            return cur
        if isinstance(st, (ast.With, ast.AsyncWith)):
            for it in st.items:
                self.on_stmt(it.context_expr, tainted, scope)
                if it.optional_vars is not None:
                    self._set(it.optional_vars,
                              self._expr(it.context_expr, tainted), tainted)
            return self._block(st.body, tainted, rets, scope)
        if isinstance(st, ast.Try):
            a = self._block(st.body, set(tainted), rets, scope)
            outs = a | set(tainted)
            res = self._block(st.orelse, set(a), rets, scope)
            for h in st.handlers:
                res |= self._block(h.body, set(outs), rets, scope)
            if st.finalbody:
                res = self._block(st.finalbody, res, rets, scope)
            return res
        self.on_stmt(st, tainted, scope)
        if isinstance(st, ast.Assign):
            for t in st.targets:
                if isinstance(t, (ast.Name, ast.Tuple, ast.List)):
                    self._assign(t, st.value, tainted)
                elif isinstance(t, ast.Subscript) and isinstance(
                        t.value, ast.Name):
                    if self._expr(st.value, tainted):
                        tainted.add(t.value.id)
            return tainted
        if isinstance(st, ast.AugAssign):
            if self._expr(st.value, tainted):
                for nm in target_names(st.target):
                    tainted.add(nm)
            return tainted
        if isinstance(st, ast.Return):
            if st.value is not None:
                if isinstance(st.value, ast.Tuple):
                    rets.append([self._expr(e, tainted)
                                 for e in st.value.elts])
                else:
                    rets.append(self._expr(st.value, tainted))
            return tainted
        if isinstance(st, ast.Expr) and isinstance(st.value, ast.Call):
            c = st.value
            if isinstance(c.func, ast.Attribute) and c.func.attr in (
                    'append', 'extend', 'add', 'update', 'insert') and \
                    isinstance(c.func.value, ast.Name) and \
                    any(self._expr(a, tainted) for a in c.args):
                tainted.add(c.func.value.id)
        return tainted


# ---------------------------------------------------------------------------
# small forward evaluator for string-valued selectors
# ---------------------------------------------------------------------------
def value_at(func, target, env):
    """Value of expression `target` (a node inside `func`) when the names in
    `env` start with the given constant values: assignments of constants /
    names / conditional expressions are followed in statement order, `if`
    tests comparing such names with constants are decided, other tests are
    entered when they contain the target.  None when not evaluable."""
    env = dict(env)

    def ev(e):
        if e is None:
            return None
        if isinstance(e, ast.Constant):
            return e.value
        if isinstance(e, ast.Name):
            return env.get(e.id)
        if isinstance(e, ast.IfExp):
            t = truth(e.test)
            if t is None:
                return None
            return ev(e.body if t else e.orelse)
        return None

    def truth(t):
        if isinstance(t, ast.UnaryOp) and isinstance(t.op, ast.Not):
            r = truth(t.operand)
            return None if r is None else not r
        if isinstance(t, ast.Name) and t.id in env and isinstance(
                env[t.id], bool):
            return env[t.id]
        if isinstance(t, ast.Compare) and len(t.ops) == 1:
            l, r = ev(t.left), None
            c = t.comparators[0]
            if isinstance(c, (ast.Tuple, ast.List, ast.Set)):
                vals = [ev(x) for x in c.elts]
                r = None if any(v is None for v in vals) else vals
            else:
                r = ev(c)
            if l is None or r is None:
                return None
            op = t.ops[0]
            try:
                if isinstance(op, (ast.Eq, ast.Is)):
                    return l == r
                if isinstance(op, (ast.NotEq, ast.IsNot)):
                    return l != r
                if isinstance(op, ast.In):
                    return l in r
                if isinstance(op, ast.NotIn):
                    return l not in r
            except Exception:
                return None
        return None

    def contains(st):
        return any(x is target for x in ast.walk(st))

    def run(body):
        for st in body:
            if isinstance(st, (ast.FunctionDef, ast.ClassDef)):
                continue
            if isinstance(st, ast.If):
                t = truth(st.test)
                if t is None:
                    if contains(st):
                        for blk in (st.body, st.orelse):
                            if any(contains(x) for x in blk):
                                return run(blk)
                        return ev(target), True
                    # a branch not decided: forget what it assigns
                    for x in ast.walk(st):
                        if isinstance(x, ast.Assign):
                            for t_ in x.targets:
                                if isinstance(t_, ast.Name):
                                    env.pop(t_.id, None)
                    continue
                r = run(st.body if t else st.orelse)
                if r[1]:
                    return r
                continue
            if contains(st) and not isinstance(
                    st, (ast.For, ast.While, ast.With, ast.Try)):
                return ev(target), True
            if isinstance(st, ast.Assign) and len(st.targets) == 1 and \
                    isinstance(st.targets[0], ast.Name):
                v = ev(st.value)
                if v is None:
                    env.pop(st.targets[0].id, None)
                else:
                    env[st.targets[0].id] = v
                continue
            if isinstance(st, (ast.For, ast.While, ast.With, ast.Try)):
                if contains(st):
                    for fld in ('body', 'orelse', 'finalbody'):
                        blk = getattr(st, fld, None) or []
                        if any(contains(x) for x in blk):
                            return run(blk)
                    return ev(target), True
        return None, False
    return run(func.body)[0]


def reached_under(func, node, env):
    """Is `node` (inside `func`) on the path taken when the parameters in
    `env` have the given constant values?  False when an enclosing `if`
    whose test is decided by `env` excludes it, True otherwise (tests not
    decided by `env` are taken either way).  None when a name of `env` is
    re-bound in the function (not decidable this simply)."""
    for a in ast.walk(func):
        if isinstance(a, ast.Name) and isinstance(a.ctx, ast.Store) and \
                a.id in env:
            return None
    par = {}
    for p in ast.walk(func):
        for c in ast.iter_child_nodes(p):
            par[id(c)] = p

    def ev(e):
        if isinstance(e, ast.Constant):
            return e.value
        if isinstance(e, ast.Name) and e.id in env:
            return env[e.id]
        return _NOVAL

    def truth(t):
        if isinstance(t, (ast.Name, ast.Constant)):
            v = ev(t)
            if v is not _NOVAL:
                try:
                    return bool(v)
                except Exception:
                    return None
            return None
        if isinstance(t, ast.UnaryOp) and isinstance(t.op, ast.Not):
            r = truth(t.operand)
            return None if r is None else not r
        if isinstance(t, ast.BoolOp):
            rs = [truth(v) for v in t.values]
            if isinstance(t.op, ast.And):
                if any(r is False for r in rs):
                    return False
                return True if all(r is True for r in rs) else None
            if any(r is True for r in rs):
                return True
            return False if all(r is False for r in rs) else None
        if isinstance(t, ast.Compare) and len(t.ops) == 1:
            l = ev(t.left)
            c = t.comparators[0]
            if isinstance(c, (ast.Tuple, ast.List, ast.Set)):
                vals = [ev(x) for x in c.elts]
                r = _NOVAL if any(v is _NOVAL for v in vals) else vals
            else:
                r = ev(c)
            if l is _NOVAL or r is _NOVAL:
                return None
            op = t.ops[0]
            try:
                if isinstance(op, (ast.Eq, ast.Is)):
                    return l == r
                if isinstance(op, (ast.NotEq, ast.IsNot)):
                    return l != r
                if isinstance(op, ast.In):
                    return l in r
                if isinstance(op, ast.NotIn):
                    return l not in r
            except Exception:
                return None
        return None
    cur = node
    while id(cur) in par:
        p = par[id(cur)]
        if isinstance(p, ast.If) and cur is not p.test:
            t = truth(p.test)
            in_body = any(cur is s_ for s_ in p.body)
            if t is not None and t != in_body:
                return False
        if isinstance(p, ast.IfExp) and cur is not p.test:
            t = truth(p.test)
            if t is not None and t != (cur is p.body):
                return False
        # an earlier sibling `if <decided true>: ... return/raise` ends the
        # path before this statement
        for fld in ('body', 'orelse', 'finalbody'):
            blk = getattr(p, fld, None)
            if isinstance(blk, list) and any(cur is s_ for s_ in blk):
                for s_ in blk:
                    if s_ is cur:
                        break
                    if isinstance(s_, ast.If) and truth(s_.test) is True \
                            and s_.body and isinstance(
                            s_.body[-1], (ast.Return, ast.Raise,
                                          ast.Continue, ast.Break)):
                        return False
        if p is func:
            break
        cur = p
    return True


_NOVAL = object()
