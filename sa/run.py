#!/venv/bin/python
"""Static checker entry point.

    sa/run.py Cxx [--tier quick|thorough]     decide the structural clauses of
                                              property Cxx on /repo's tree
    sa/run.py --replay <file>                 re-analyse and report whether the
                                              recorded construct still violates
    sa/run.py --all                           every property (for development)

Exit status: 0 all obligations discharged (listed known findings allowed),
1 + "VIOLATION property=<id> replay=<path>" for an unlisted violation,
2 + "ANALYSIS-ERROR ..." when the analysis itself cannot stand.
"""
import argparse
import json
import os
import sys
import time
import traceback

sys.path.insert(0, os.path.dirname(os.path.dirname(os.path.abspath(__file__))))

from sa.source import Repo, AnalysisError  # noqa: E402
from sa import report  # noqa: E402
from sa.report import (Collector, VIOLATED, DISCHARGED, UNKNOWN,  # noqa: E402
                       load_known_findings, match_known, write_evidence)

VERIF = report.VERIF


def run_property(prop, tier='quick', repo=None, quiet=False, evidence=True,
                 evidence_path=None):
    """Returns (exit_code, collector, new_violations)."""
    from sa.props import PROPS
    t0 = time.time()
    seed = int(os.environ.get('VERIF_SEED', '0') or 0)
    spec = PROPS[prop]
    out = []

    def say(s):
        out.append(s)
        if not quiet:
            print(s)

    col = Collector(prop)
    col.scope = dict(PROPS[prop].get('scope', {}))
    try:
        if repo is None:
            repo = Repo()
        for fn in spec['rules']:
            fn(repo, col)
        if tier == 'thorough':
            for fn in spec.get('thorough_rules', []):
                fn(repo, col)
        # vacuity guard (a definite violation stands whatever the
        # coverage; the guard only protects passes from being vacuous)
        short = []
        for rule, need in spec['minima'].items():
            got = col.resolved(rule)
            if got < need:
                short.append('%s: %d resolved obligations < %d confirmed by '
                             'hand' % (rule, got, need))
        if short and not any(o.status == VIOLATED for o in col.obs):
            raise AnalysisError('vacuity guard: ' + '; '.join(short))
    except AnalysisError as e:
        say('ANALYSIS-ERROR property=%s %s' % (prop, e))
        return 2, col, []
    except Exception:
        say('ANALYSIS-ERROR property=%s internal error\n%s'
            % (prop, traceback.format_exc()))
        return 2, col, []

    known = load_known_findings()
    viol = [o for o in col.obs if o.status == VIOLATED]
    new, matched = [], []
    seen_known = set()
    for o in viol:
        k = match_known(prop, o, known)
        if k is not None:
            ident = (k['rule'], k['file'], k['function'], k['role'])
            if ident not in seen_known:
                seen_known.add(ident)
                say('KNOWN-FINDING: property=%s %s [%s %s:%s %s]'
                    % (prop, k['what'], o.rule, o.file, o.func, o.role))
            matched.append(dict(o.to_json(), id=k.get('id')))
        else:
            new.append(o)
    code = 0
    replay = None
    if new:
        code = 1
        rdir = os.path.join(VERIF, 'replay')
        os.makedirs(rdir, exist_ok=True)
        replay = os.path.join(rdir, '%s.json' % prop)
        with open(replay, 'w') as f:
            json.dump({'property': prop, 'repo_digest': repo.digest(),
                       'violations': [o.to_json() for o in new]}, f,
                      indent=1)
        for o in new:
            say('  violated %s %s:%d %s [%s] %s -- %s'
                % (o.rule, o.file, o.line, o.func, o.role, o.construct,
                   o.why))
        say('VIOLATION property=%s replay=%s' % (prop, replay))
    extra = {}
    if tier == 'thorough' and code == 0 and spec.get('selftest', True):
        try:
            from sa import selftest
            extra = selftest.run_for_property(prop, say)
            if extra.get('selftest_failures'):
                say('ANALYSIS-ERROR property=%s checker self-validation '
                    'failed: %s' % (prop, extra['selftest_failures'][:5]))
                code = 2
        except ImportError:
            pass
    wall = time.time() - t0
    if evidence:
        write_evidence(prop, tier, seed, col, matched, len(new), wall,
                       spec['rule_texts'], spec['minima'], spec['trusted'],
                       spec['assumptions'], extra=extra, path=evidence_path)
    if not quiet:
        br = col.by_rule()
        tot = sum(v[DISCHARGED] + v[VIOLATED] + v[UNKNOWN]
                  for v in br.values())
        say('%s: %d obligations (%d discharged, %d violated [%d known], %d '
            'unknown) over %d functions, %.2fs'
            % (prop, tot, sum(v[DISCHARGED] for v in br.values()),
               len(viol), len(matched), sum(v[UNKNOWN] for v in br.values()),
               len(col.analysed_functions), wall))
    return code, col, new


def replay(path):
    with open(path) as f:
        rec = json.load(f)
    prop = rec['property']
    code, col, new = run_property(prop, quiet=True, evidence=False)
    if code == 2:
        print('ANALYSIS-ERROR during replay')
        return 2
    keys = {(v['rule'], v['file'], v['function'], v['role'])
            for v in rec['violations']}
    still = [o for o in col.obs if o.status == VIOLATED and o.key() in keys]
    for o in still:
        print('still violated: %r' % o)
    if still:
        print('VIOLATION property=%s replay=%s' % (prop, path))
        return 1
    print('recorded constructs no longer violate (%d recorded)' % len(keys))
    return 0


def main(argv=None):
    ap = argparse.ArgumentParser()
    ap.add_argument('prop', nargs='?')
    ap.add_argument('--tier', default=os.environ.get('VERIF_TIER', 'quick'),
                    choices=['quick', 'thorough'])
    ap.add_argument('--replay')
    ap.add_argument('--all', action='store_true')
    ap.add_argument('--list', action='store_true',
                    help='print every obligation')
    args = ap.parse_args(argv)
    if args.replay:
        return replay(args.replay)
    from sa.props import PROPS
    if args.all:
        worst = 0
        repo = None
        try:
            repo = Repo()
        except AnalysisError as e:
            print('ANALYSIS-ERROR %s' % e)
            return 2
        for p in sorted(PROPS):
            code, col, new = run_property(p, args.tier, repo=repo)
            worst = max(worst, code)
        return worst
    if not args.prop or args.prop not in PROPS:
        print('ANALYSIS-ERROR unknown property %r' % args.prop)
        return 2
    code, col, new = run_property(args.prop, args.tier)
    if args.list:
        for o in col.obs:
            print('   ', repr(o))
    return code


if __name__ == '__main__':
    try:
        rc = main()
    except SystemExit:
        raise
    except Exception:
        print('ANALYSIS-ERROR internal error\n' + traceback.format_exc())
        rc = 2
    sys.stdout.flush()
    sys.exit(rc)
