"""Rules added after the fifth round's documented misses and the sixth round
of independent seeded changes."""
import ast

from .astutil import body_walk, call_name, dotted, unparse

TABLE = 'biom/table.py'
PARSE = 'biom/parse.py'

RULE_TEXT = {
    'SB-ACCDROP': 'What a loop appended to an accumulator once per element '
                  'is only replaced by a constant under a test of the '
                  'accumulator itself or of the number of elements, never '
                  'under a flag that the loop sets for some elements only.',
    'SB-SELNARROW': 'A selection computed from membership in the requested '
                    'ids is not narrowed afterwards by anything else.',
}


def _names(e):
    return {n.id for n in ast.walk(e) if isinstance(n, ast.Name)}


def _own_functions(fn):
    """fn and the functions nested in it."""
    return [x for x in ast.walk(fn)
            if isinstance(x, (ast.FunctionDef, ast.AsyncFunctionDef))]


def _stmts_in_order(fn):
    """Statements of fn (not of nested functions) in source order."""
    out = []

    def rec(body):
        for s in body:
            out.append(s)
            if isinstance(s, (ast.FunctionDef, ast.AsyncFunctionDef,
                              ast.ClassDef)):
                continue
            for fld in ('body', 'orelse', 'finalbody'):
                b = getattr(s, fld, None)
                if isinstance(b, list):
                    rec(b)
            for h in getattr(s, 'handlers', []) or []:
                rec(h.body)
    rec(fn.body)
    return out


# ---------------------------------------------------------------------------
def rule_accumulator_drop(repo, col, targets=((TABLE, 'Table.to_json'),)):
    """SB-ACCDROP.  Pattern (all parts resolved, otherwise nothing is said):

        acc = [<literal>]                      # before the loop
        for ... in <elements>:                 # L
            acc.append(...)                    # on every iteration of L
            ...
            if <data condition>: flag = True   # some iterations only
        if G: acc = [<literal>]                # after L

    G must not be decided by such flags alone."""
    rule = 'SB-ACCDROP'
    n = 0
    for rel, q in targets:
        if not repo.has_func(rel, q):
            col.unknown(rule, rel, q, 'anchor', None, 'function not found')
            continue
        fn = repo.func(rel, q)
        stmts = _stmts_in_order(fn)
        top = list(fn.body)
        for li, loop in enumerate(top):
            if not isinstance(loop, ast.For):
                continue
            # accumulators appended at the loop's top level (every iteration;
            # an if/else that appends in both arms counts)
            def appends(body):
                acc = set()
                for s in body:
                    if isinstance(s, ast.Expr) and isinstance(
                            s.value, ast.Call) and isinstance(
                            s.value.func, ast.Attribute) and \
                            s.value.func.attr in ('append', 'extend') and \
                            isinstance(s.value.func.value, ast.Name):
                        acc.add(s.value.func.value.id)
                    elif isinstance(s, ast.If) and s.orelse:
                        acc |= appends(s.body) & appends(s.orelse)
                return acc
            accs = appends(loop.body)
            if not accs:
                continue
            # flags: names assigned a constant under a condition inside the
            # loop body and nowhere at the loop's top level
            top_assigned = {t.id for s in loop.body
                            if isinstance(s, ast.Assign)
                            for t in s.targets if isinstance(t, ast.Name)}
            flags = set()
            for s in loop.body:
                if isinstance(s, (ast.If, ast.For, ast.While, ast.Try)):
                    for x in ast.walk(s):
                        if isinstance(x, ast.Assign) and isinstance(
                                x.value, ast.Constant):
                            flags |= {t.id for t in x.targets
                                      if isinstance(t, ast.Name)}
            flags -= top_assigned
            # replacements after the loop
            for s in top[li + 1:]:
                if not isinstance(s, ast.If):
                    continue
                repl = [x for x in body_walk_list(s.body)
                        if isinstance(x, ast.Assign) and any(
                            isinstance(t, ast.Name) and t.id in accs
                            for t in x.targets) and isinstance(
                            x.value, (ast.List, ast.Tuple, ast.Constant))]
                if not repl:
                    continue
                n += 1
                gn = _names(s.test)
                role = 'replace:%s' % sorted(
                    t.id for t in repl[0].targets
                    if isinstance(t, ast.Name))[0]
                if gn and gn <= flags:
                    col.bad(rule, rel, q, role, s,
                            'the accumulated entries are replaced by a '
                            'constant when `%s` holds, and `%s` is only set '
                            'for some iterations of the loop that fills '
                            'them: a table whose vectors exist but, e.g., '
                            'hold no non-zero cell loses all its ids'
                            % (unparse(s.test, 50), ', '.join(sorted(gn))))
                elif gn & accs or not (gn & flags):
                    col.ok(rule, rel, q, role, s,
                           'guard reads the accumulator / the element count')
                else:
                    col.unknown(rule, rel, q, role, s,
                                'guard mixes flags and other names')
    col.ok(rule, 'biom', '<package>', 'scan', None,
           '%d guarded replacements' % n)


def body_walk_list(body):
    for s in body:
        for x in ast.walk(s):
            yield x


# ---------------------------------------------------------------------------
def _membership_of(e, requested):
    """Does expression `e` select by membership in one of `requested`?"""
    for x in ast.walk(e):
        if isinstance(x, ast.Compare) and any(
                isinstance(o, (ast.In, ast.NotIn)) for o in x.ops) and any(
                isinstance(c, ast.Name) and c.id in requested
                for c in x.comparators):
            return True
        if isinstance(x, ast.Call) and (call_name(x) or '').split('.')[-1] \
                in ('isin', 'in1d', 'intersect1d') and any(
                isinstance(a, ast.Name) and a.id in requested
                for a in x.args):
            return True
    return False


def rule_selection_narrowed(repo, col):
    """SB-SELNARROW over the subset readers (from_hdf5 with its nested
    functions, the JSON slicers)."""
    rule = 'SB-SELNARROW'
    n = 0
    sites = [(TABLE, 'Table.from_hdf5', {'ids'}),
             (PARSE, 'get_axis_indices', {'to_keep'}),
             (PARSE, 'direct_slice_data', {'to_keep'})]
    for rel, q, requested in sites:
        if not repo.has_func(rel, q):
            continue
        for fn in _own_functions(repo.func(rel, q)):
            sel = {}
            for s in _stmts_in_order(fn):
                if not isinstance(s, ast.Assign) or len(s.targets) != 1 or \
                        not isinstance(s.targets[0], ast.Name):
                    continue
                name = s.targets[0].id
                if name in sel and name in _names(s.value):
                    # re-bound from itself: a filter of the selection?
                    narrowing = any(
                        (isinstance(x, ast.Subscript) and dotted(x.value) ==
                         name and not isinstance(x.slice, (ast.Constant,
                                                           ast.Slice))) or
                        (isinstance(x, (ast.ListComp, ast.GeneratorExp,
                                        ast.SetComp)) and any(
                            g.ifs and name in _names(g.iter)
                            for g in x.generators)) or
                        (isinstance(x, ast.Call) and (call_name(x) or '')
                         .split('.')[-1] in ('compress', 'extract', 'filter',
                                             'delete', 'setdiff1d'))
                        for x in ast.walk(s.value))
                    if narrowing and not _membership_of(s.value, requested):
                        col.bad(rule, rel, q, 'narrowed:%s' % name, s,
                                'the selection `%s`, computed from the '
                                'requested ids, is filtered again by `%s`: '
                                'requested ids that fail the second test '
                                '(e.g. vectors without stored entries) are '
                                'missing from the subset although reading '
                                'everything and filtering keeps them'
                                % (name, unparse(s.value, 60)))
                    continue
                if _membership_of(s.value, requested):
                    sel[name] = s
                    n += 1
                    col.ok(rule, rel, q, 'selection:%s' % name, s,
                           'selected by membership in the requested ids')
    col.ok(rule, 'biom', '<subset readers>', 'scan', None,
           '%d selections' % n)
    return n


# ---------------------------------------------------------------------------
RULE_TEXT['TA-WSSPLIT'] = (
    'Text that carries ids or metadata is split on its declared delimiter '
    '(tab / the configured one); a split on any whitespace cuts ids that '
    'contain a space. Whitespace splits stay in the formats that are '
    'whitespace-delimited by definition (uc records, fasta headers, the '
    'config file).')

WS_SPLIT_ALLOWED = {
    (PARSE, 'parse_uc'): 'uc: the label is the text before the first space',
    ('biom/util.py', 'parse_biom_config_files'): 'config file: key value',
    ('biom/cli/uc_processor.py', '_id_map_from_fasta'):
        'fasta header: two space-separated fields',
}


def rule_whitespace_split(repo, col, rels=None):
    rule = 'TA-WSSPLIT'
    n = 0
    for rel, q, fn in repo.all_functions():
        if '/tests/' in rel or isinstance(fn, ast.Lambda):
            continue
        if rels is not None and rel not in rels:
            continue
        for c in body_walk(fn):
            if not (isinstance(c, ast.Call) and isinstance(
                    c.func, ast.Attribute) and c.func.attr in (
                    'split', 'rsplit')):
                continue
            if dotted(c.func.value) in ('re', 'os.path', 'np.char'):
                continue
            sep = c.args[0] if c.args else next(
                (k.value for k in c.keywords if k.arg == 'sep'), None)
            if sep is not None and not (isinstance(sep, ast.Constant) and
                                        sep.value is None):
                continue
            n += 1
            if (rel, q) in WS_SPLIT_ALLOWED:
                col.ok(rule, rel, q, 'ws-split@%d' % n, c,
                       WS_SPLIT_ALLOWED[(rel, q)])
            else:
                col.bad(rule, rel, q, 'ws-split', c,
                        '`%s` splits on any whitespace: an id such as '
                        '"Sample 1" is cut at the space (the declared '
                        'delimiter of this text is the tab / the configured '
                        'one)' % unparse(c, 50))
    col.ok(rule, 'biom', '<package>', 'scan', None,
           '%d whitespace splits' % n)


# ---------------------------------------------------------------------------
RULE_TEXT['SB-SNIFFAGREE'] = (
    'The look-ahead of the classic-text reader that decides whether the '
    'last column is metadata examines exactly the lines the data loop will '
    'parse: every line the data loop skips (blank, comment) is skipped by '
    'the look-ahead as well.')


class _Rename(ast.NodeTransformer):
    def __init__(self, name):
        self.name = name

    def visit_Name(self, node):
        if node.id == self.name:
            return ast.copy_location(ast.Name(id='L', ctx=node.ctx), node)
        return node


def _keeps(test, var, negate=False):
    """Set of (text, polarity) a line must satisfy, from a filter `test`
    (negate=False) or from a skip guard (negate=True)."""
    import copy
    if isinstance(test, ast.UnaryOp) and isinstance(test.op, ast.Not):
        return _keeps(test.operand, var, not negate)
    if isinstance(test, ast.BoolOp):
        conj = isinstance(test.op, ast.And)
        if conj != negate:      # and-filter, or or-skip: all parts required
            out = set()
            for v in test.values:
                out |= _keeps(v, var, negate)
            return out
        return set()            # a disjunction guarantees no single part
    t = _Rename(var).visit(copy.deepcopy(test))
    return {(unparse(t, 200), not negate)}


def rule_sniff_agrees(repo, col):
    rule = 'SB-SNIFFAGREE'
    q = 'Table._extract_data_from_tsv'
    if not repo.has_func(TABLE, q):
        col.unknown(rule, TABLE, q, 'anchor', None, 'function not found')
        return
    fn = repo.func(TABLE, q)
    # the data loop: a `for` that appends the first field to the id list
    parse = None
    for s in body_walk(fn):
        if isinstance(s, ast.For) and isinstance(s.target, (ast.Name,
                                                            ast.Tuple)):
            if any(isinstance(c, ast.Call) and isinstance(
                    c.func, ast.Attribute) and c.func.attr == 'append' and
                    'ids' in (dotted(c.func.value) or '')
                    for b in s.body for c in ast.walk(b)):
                parse = s
    # the look-ahead: a comprehension taking the last field of each line
    sniff = None
    for c in body_walk(fn):
        if isinstance(c, (ast.ListComp, ast.GeneratorExp)) and any(
                isinstance(x, ast.Call) and isinstance(x.func, ast.Attribute)
                and x.func.attr in ('rsplit', 'split')
                for x in ast.walk(c.elt)) and any(
                isinstance(x, ast.Subscript) and isinstance(
                    x.slice, ast.UnaryOp) for x in ast.walk(c.elt)):
            sniff = c
    if parse is None or sniff is None:
        col.unknown(rule, TABLE, q, 'shape', fn,
                    'data loop or look-ahead not recognised')
        return
    lv = parse.target.id if isinstance(parse.target, ast.Name) else next(
        (e.id for e in reversed(parse.target.elts)
         if isinstance(e, ast.Name)), None)
    need = set()
    for s in parse.body:
        # a guard on the line itself (not on what was parsed from it)
        if isinstance(s, ast.If) and len(s.body) == 1 and isinstance(
                s.body[0], ast.Continue) and not s.orelse and any(
                isinstance(x, ast.Name) and x.id == lv
                for x in ast.walk(s.test)):
            need |= _keeps(s.test, lv, negate=True)
    gen = sniff.generators[0]
    sv = gen.target.id if isinstance(gen.target, ast.Name) else None
    have = set()
    for t in gen.ifs:
        have |= _keeps(t, sv)
    # filters applied where the examined lines are collected
    if isinstance(gen.iter, ast.Name):
        defs = [a for a in body_walk(fn) if isinstance(a, ast.Assign) and any(
            isinstance(t, ast.Name) and t.id == gen.iter.id
            for t in a.targets)]
        common = None
        for a in defs:
            k = set()
            if isinstance(a.value, (ast.ListComp, ast.GeneratorExp)):
                g = a.value.generators[0]
                if isinstance(g.target, ast.Name):
                    for t in g.ifs:
                        k |= _keeps(t, g.target.id)
            common = k if common is None else common & k
        have |= common or set()
    missing = need - have
    col.check(not missing, rule, TABLE, q, 'same-lines', sniff,
              'the look-ahead filters %d skip condition(s) of the data loop'
              % len(need),
              'the data loop skips lines unless %s, the look-ahead that '
              'decides whether the last column is metadata does not: a '
              'blank or comment line among the data lines makes the last '
              'sample column "non-numeric" and it is imported as metadata'
              % ' and '.join('%s%s' % ('' if p else 'not ', t)
                             for t, p in sorted(missing)))


# ---------------------------------------------------------------------------
RULE_TEXT['AX-COMPRESSED'] = (
    'Every matrix Table._to_sparse hands to the constructor is in a '
    'compressed format (CSR/CSC): the table subscripts and slices its '
    'matrix (sort_order, align_to, head), which a COO/DOK/LIL matrix does '
    'not support.')

_UNCOMPRESSED = {'coo_matrix', 'dok_matrix', 'lil_matrix', 'dia_matrix',
                 'bsr_matrix', 'coo_array', 'dok_array', 'lil_array'}
_COMPRESSED = {'csr_matrix', 'csc_matrix', 'csr_array', 'csc_array'}


def _reaching_values(fn, name, at):
    """Right-hand sides of the assignments to `name` that reach the
    statement containing node `at` (None when the entry reaches it)."""
    from .cfg import CFG
    cfg = CFG(fn)
    here = [c for c in cfg.stmt_nodes() if c.kind == 'stmt' and any(
        x is at for x in ast.walk(c.stmt)) and not isinstance(
        c.stmt, (ast.For, ast.While, ast.If, ast.With, ast.Try))]
    if not here:
        return None
    defs = {}
    for c in cfg.stmt_nodes():
        st = c.stmt
        if c.kind == 'stmt' and isinstance(st, ast.Assign) and any(
                isinstance(t, ast.Name) and t.id == name
                for t in st.targets):
            defs[c] = st
    out, seen, stack = [], set(), list(cfg.pred[here[0]])
    while stack:
        c = stack.pop()
        if c in seen:
            continue
        seen.add(c)
        if c in defs:
            out.append(defs[c])
            continue
        if c is cfg.entry:
            return None
        stack.extend(cfg.pred[c])
    return out


def _format_of(repo, rel, fn, e, at=None, depth=0):
    """'c' compressed, 'u' uncompressed, None unknown; `at` is the node
    whose reaching definitions resolve names."""
    def join(got):
        got = set(got)
        if len(got) == 1:
            return got.pop()
        return 'u' if 'u' in got else None
    if depth > 8:
        return None
    at = at if at is not None else e
    if isinstance(e, ast.Name):
        defs = _reaching_values(fn, e.id, at)
        if not defs:
            return None
        return join(_format_of(repo, rel, fn, d.value, d, depth + 1)
                    for d in defs)
    if isinstance(e, ast.Attribute) and e.attr == 'T':
        return _format_of(repo, rel, fn, e.value, at, depth + 1)
    if isinstance(e, ast.IfExp):
        return join(_format_of(repo, rel, fn, x, at, depth + 1)
                    for x in (e.body, e.orelse))
    if isinstance(e, ast.Call):
        name = (call_name(e) or '').split('.')[-1]
        if name in _UNCOMPRESSED:
            return 'u'
        if name in _COMPRESSED or name in ('tocsr', 'tocsc'):
            return 'c'
        if name in ('transpose', 'astype', 'copy') and isinstance(
                e.func, ast.Attribute):
            return _format_of(repo, rel, fn, e.func.value, at, depth + 1)
        if isinstance(e.func, ast.Name) and repo.has_func(rel, name):
            g = repo.func(rel, name)
            rets = [r for r in body_walk(g) if isinstance(r, ast.Return)
                    and r.value is not None]
            if rets:
                return join(_format_of(repo, rel, g, r.value, r, depth + 2)
                            for r in rets)
    return None


def rule_compressed_matrix(repo, col):
    rule = 'AX-COMPRESSED'
    q = 'Table._to_sparse'
    if not repo.has_func(TABLE, q):
        col.unknown(rule, TABLE, q, 'anchor', None, 'function not found')
        return
    fn = repo.func(TABLE, q)
    params = set(a.arg for a in fn.args.args)
    n = 0
    for r in body_walk(fn):
        if not isinstance(r, ast.Return) or r.value is None:
            continue
        n += 1
        fmt = _format_of(repo, TABLE, fn, r.value, r)
        role = 'return@%d' % n
        if fmt == 'u':
            col.bad(rule, TABLE, q, 'uncompressed-return', r,
                    '`%s` hands the constructor a matrix that is not '
                    'CSR/CSC: the table it builds cannot be re-ordered '
                    '(sort_order / align_to subscript the matrix)'
                    % unparse(r, 60))
        elif fmt == 'c':
            col.ok(rule, TABLE, q, role, r, 'compressed')
        else:
            col.unknown(rule, TABLE, q, role, r,
                        'format of the returned matrix not resolved')
    col.ok(rule, TABLE, q, 'scan', None, '%d returns' % n)


# ===========================================================================
# sixth round of seeded changes
# ===========================================================================
from .flow import expr_tainted, taint          # noqa: E402

RULE_TEXT.update({
    'TA-LOSSY': 'values are never passed through a narrowing conversion',
    'SB-CATLOOP': 'from_hdf5 stores every metadata category it finds for '
                  'every id: whether a category is kept never depends on '
                  'the values it holds (0, False and "" are values).',
    'TA-GZIPMAGIC': 'is_gzip answers from the first two bytes of the file '
                    'on every path, never from the file name.',
    'TA-H5STR': 'the variable-length string type used for ids and text '
                'metadata declares UTF-8 (or is h5py\'s default str type): '
                'the writer hands it UTF-8 bytes.',
    'SB-SELECTION-KIND': 'Table.filter never turns a collection of ids into '
                         'a predicate: collections are validated against '
                         'the axis (unknown ids are refused), predicates '
                         'are not.',
    'SB-VISITALL': 'partition classifies every id of the axis (the only '
                   'ids left out are those whose label is None under '
                   'ignore_none); collapse looks at every part.',
    'TA-SHUFFLE': 'a hand-written shuffle draws the partner of position k '
                  'from the positions not settled yet (k..n-1); drawing it '
                  'from the whole range is the biased "naive shuffle".',
    'OR-DELKEY': 'del_metadata removes a key wherever it is present, '
                 'whatever value it holds.',
    'TA-LINESPLIT': 'text that carries ids or metadata is split into lines '
                    'at newlines only; str.splitlines also splits at VT, '
                    'FF, FS/GS/RS, NEL and the Unicode line/paragraph '
                    'separators, which are legal inside a field.',
    'SB-PRESENCE': 'presence / non-zero counts compare with != 0, not '
                   '> 0: negative entries are entries.',
    'OR-ENTER': 'errstate applies its override when the block is entered, '
                'not when the manager object is created.',
    'OR-CHECKALL': 'the constructor checks every error kind: errcheck is '
                   'not handed a hand-picked list of kinds there.',
})


def rule_formatter_identity(repo, col):
    """TA-LOSSY (writer side): general_formatter writes metadata values as
    they are (text is encoded, None becomes the empty placeholder); no
    str()/float()/int()/repr()/format coercion of a value."""
    rule = 'TA-LOSSY'
    q = 'general_formatter'
    if not repo.has_func(TABLE, q):
        return
    fn = repo.func(TABLE, q)
    ps = [a.arg for a in fn.args.args]
    hdr = ps[1] if len(ps) > 1 else 'header'

    def seed(n):
        return isinstance(n, ast.Subscript) and dotted(n.slice) == hdr
    tainted = taint(fn, seed)
    for _ in range(4):
        # collections the values are appended to carry them too
        more = {c.func.value.id for c in ast.walk(fn) if isinstance(
            c, ast.Call) and isinstance(c.func, ast.Attribute) and
            c.func.attr in ('append', 'extend', 'add') and isinstance(
                c.func.value, ast.Name) and c.args and
            expr_tainted(c.args[0], tainted, seed)}
        # ... and so do the variables that walk such a collection
        for g in ast.walk(fn):
            if isinstance(g, (ast.comprehension, ast.For)) and \
                    expr_tainted(g.iter, tainted | more, seed):
                more |= set(target_names_(g.target))
        if more <= tainted:
            break
        tainted = taint(fn, seed, initial=tainted | more)
    bad = []
    for n in ast.walk(fn):
        if isinstance(n, ast.Call) and call_name(n) in (
                'str', 'repr', 'float', 'int', 'bool', 'format',
                'np.float64', 'np.int64', 'np.str_') and n.args and \
                expr_tainted(n.args[0], tainted, seed):
            bad.append(n)
        elif isinstance(n, ast.JoinedStr) and any(
                isinstance(v, ast.FormattedValue) and
                expr_tainted(v.value, tainted, seed) for v in n.values):
            bad.append(n)
        elif isinstance(n, ast.BinOp) and isinstance(n.op, ast.Mod) and \
                isinstance(n.left, ast.Constant) and isinstance(
                n.left.value, str) and expr_tainted(n.right, tainted, seed):
            bad.append(n)
    col.check(not bad, rule, TABLE, q, 'values-as-they-are',
              bad[0] if bad else fn, 'no coercion of a metadata value',
              '`%s` converts a metadata value before it is written: a '
              'number (e.g. a numpy scalar read back from a file) becomes '
              'text, or loses precision' % (unparse(bad[0], 60)
                                            if bad else ''))


def rule_category_loop(repo, col):
    rule = 'SB-CATLOOP'
    q = 'Table.from_hdf5'
    if not repo.has_func(TABLE, q):
        return
    fn = repo.func(TABLE, q)
    n = 0
    for loop in ast.walk(fn):
        if not (isinstance(loop, ast.For) and "'metadata'" in unparse(
                loop.iter, 200) and 'group' not in unparse(loop.iter, 200)):
            continue
        n += 1
        # names that hold what was read from the dataset
        tgt = target_names_(loop.target)
        loaded = set(tgt[1:]) if len(tgt) > 1 else set(tgt)
        for st in ast.walk(loop):
            if isinstance(st, ast.Assign) and any(
                    isinstance(x, ast.Name) and x.id in loaded
                    for x in ast.walk(st.value)):
                loaded |= {t.id for t in st.targets
                           if isinstance(t, ast.Name)}
        bad = None
        for st in loop.body:
            for x in ast.walk(st) if isinstance(st, ast.If) else ():
                if isinstance(x, (ast.Continue, ast.Break)) and any(
                        isinstance(y, ast.Name) and y.id in loaded
                        for y in ast.walk(st.test)):
                    bad = st
            if isinstance(st, ast.If) and any(
                    isinstance(y, ast.Name) and y.id in loaded
                    for y in ast.walk(st.test)) and any(
                    isinstance(z, ast.Assign) and any(
                        isinstance(t, ast.Subscript) for t in z.targets)
                    for z in ast.walk(st)):
                bad = bad or st
        col.check(bad is None, rule, TABLE, q, 'every-category', bad or loop,
                  'each category found is stored for every id',
                  'whether a category is read depends on its values (`%s`): '
                  'a category that is 0 / False / "" for every id is '
                  'dropped on read' % (unparse(bad.test, 60) if bad else ''))
    if not n:
        col.unknown(rule, TABLE, q, 'every-category', fn,
                    'metadata loop not found')


def target_names_(t):
    return [x.id for x in ast.walk(t) if isinstance(x, ast.Name)]


def rule_gzip_magic(repo, col):
    rule = 'TA-GZIPMAGIC'
    rel = 'biom/util.py'
    if not repo.has_func(rel, 'is_gzip'):
        return
    fn = repo.func(rel, 'is_gzip')

    def seed(n):
        return isinstance(n, ast.Call) and isinstance(
            n.func, ast.Attribute) and n.func.attr in ('read', 'peek')
    tainted = taint(fn, seed)
    rets = [r for r in body_walk(fn) if isinstance(r, ast.Return)]
    bad = [r for r in rets if not expr_tainted(r.value, tainted, seed)]
    col.check(bool(rets) and not bad, rule, rel, 'is_gzip', 'by-content',
              bad[0] if bad else fn, 'every answer is computed from the '
              'bytes read', '`%s` answers without looking at the file: a '
              'gzip-compressed table whose name does not say so is opened '
              'as plain text' % (unparse(bad[0], 50) if bad else ''))


def rule_h5_string_type(repo, col):
    rule = 'TA-H5STR'
    rel = 'biom/util.py'
    m = repo.mod(rel)
    n = 0
    for a in ast.walk(m.tree):
        if isinstance(a, ast.Assign) and any(
                isinstance(t, ast.Name) and t.id in (
                    'H5PY_VLEN_STR', 'H5PY_VLEN_UNICODE')
                for t in a.targets) and isinstance(a.value, ast.Call):
            n += 1
            c = a.value
            name = (call_name(c) or '').split('.')[-1]
            enc = next((k.value for k in c.keywords if k.arg == 'encoding'),
                       c.args[0] if name == 'string_dtype' and c.args
                       else None)
            vlen = next((k.value for k in c.keywords if k.arg == 'vlen'),
                        None)
            if name == 'special_dtype':
                ok = isinstance(vlen, ast.Name) and vlen.id == 'str'
            elif name == 'string_dtype':
                ok = enc is None or (isinstance(enc, ast.Constant) and str(
                    enc.value).lower().replace('-', '') == 'utf8')
                ln = next((k.value for k in c.keywords
                           if k.arg == 'length'), None)
                ok = ok and (ln is None or (isinstance(ln, ast.Constant)
                                            and ln.value is None))
            else:
                ok = None
            tname = [t.id for t in a.targets if isinstance(t, ast.Name)][0]
            if ok is None:
                col.unknown(rule, rel, '<module>', 'type:%s' % tname, a,
                            'constructor not recognised')
            else:
                col.check(ok, rule, rel, '<module>', 'type:%s' % tname, a,
                          'variable-length UTF-8 text',
                          '`%s` is not a variable-length UTF-8 string type: '
                          'files holding non-ASCII ids or metadata declare '
                          'a character set their bytes are not in'
                          % unparse(c, 60))
    if not n:
        col.unknown(rule, rel, '<module>', 'type', None,
                    'H5PY_VLEN_STR definition not found')


def rule_selection_kind(repo, col):
    rule = 'SB-SELECTION-KIND'
    q = 'Table.filter'
    if not repo.has_func(TABLE, q):
        return
    fn = repo.func(TABLE, q)
    sel = [a.arg for a in fn.args.args if a.arg != 'self'][0]
    bad = None
    for n in ast.walk(fn):
        if n is fn:
            continue
        if isinstance(n, (ast.FunctionDef,)) and n.name == sel:
            bad = n
        if isinstance(n, ast.Assign) and any(
                isinstance(t, ast.Name) and t.id == sel
                for t in n.targets) and isinstance(
                n.value, (ast.Lambda,)):
            bad = n
        if isinstance(n, ast.Assign) and any(
                isinstance(t, ast.Name) and t.id == sel
                for t in n.targets) and isinstance(n.value, ast.Attribute) \
                and n.value.attr in ('__contains__',):
            bad = n
    col.check(bad is None, rule, TABLE, q, 'selection-stays-a-collection',
              bad or fn, '`%s` reaches the kernel as given' % sel,
              '`%s` is replaced by a function: the kernel validates '
              'collections of ids against the axis and does not validate '
              'predicates, so unknown ids are silently ignored' % sel)


def rule_visit_all(repo, col):
    rule = 'SB-VISITALL'
    # partition: no id skipped before it is classified
    q = 'Table.partition'
    if repo.has_func(TABLE, q):
        fn = repo.func(TABLE, q)
        loops = [l for l in body_walk(fn) if isinstance(l, ast.For) and
                 isinstance(l.iter, ast.Call) and (
                     call_name(l.iter) or '').endswith('.iter')]
        for loop in loops:
            label = None
            for st in loop.body:
                if isinstance(st, ast.Assign) and isinstance(
                        st.value, ast.Call) and isinstance(
                        st.targets[0], ast.Name) and label is None:
                    label = st.targets[0].id
            bad = None
            for st in loop.body:
                if isinstance(st, ast.If) and any(isinstance(
                        x, (ast.Continue, ast.Break)) for x in ast.walk(st)):
                    names = _names(st.test)
                    if label is None or label not in names:
                        bad = st
            col.check(bad is None, rule, TABLE, q, 'every-id-classified',
                      bad or loop, 'ids are only left out by their label',
                      'ids are skipped under `%s` before / regardless of '
                      'their label: the parts no longer cover the axis'
                      % (unparse(bad.test, 60) if bad else ''))
    # collapse: the loops over the parts have no break
    q = 'Table.collapse'
    if repo.has_func(TABLE, q):
        fn = repo.func(TABLE, q)
        par = {}
        for p in ast.walk(fn):
            for c in ast.iter_child_nodes(p):
                par[id(c)] = p
        bad = None
        n = 0
        for loop in body_walk(fn):
            if isinstance(loop, ast.For) and 'partition' in unparse(
                    loop.iter, 200):
                n += 1
                for b in ast.walk(loop):
                    if isinstance(b, ast.Break):
                        cur = b
                        while id(cur) in par and not isinstance(
                                par[id(cur)], (ast.For, ast.While)):
                            cur = par[id(cur)]
                        if par.get(id(cur)) is loop:
                            bad = b
        col.check(bad is None, rule, TABLE, q, 'every-part-seen',
                  bad or fn, 'no part ends the loop over the parts (%d '
                  'loops)' % n, 'a `break` leaves the loop over the parts: '
                  'every part after the one that triggers it is dropped')


def rule_naive_shuffle(repo, col, funcs=((TABLE, 'Table.subsample'),)):
    rule = 'TA-SHUFFLE'
    n = 0
    for rel, q in funcs:
        if not repo.has_func(rel, q):
            continue
        fn = repo.func(rel, q)
        for loop in body_walk(fn):
            if not (isinstance(loop, ast.For) and isinstance(
                    loop.target, ast.Name)):
                continue
            k = loop.target.id
            draws = {}
            for st in loop.body:
                if isinstance(st, ast.Assign) and isinstance(
                        st.targets[0], ast.Name) and isinstance(
                        st.value, ast.Call) and (call_name(st.value) or ''
                                                 ).split('.')[-1] in (
                        'integers', 'randint', 'randrange', 'choice'):
                    draws[st.targets[0].id] = st
            for st in loop.body:
                # a[k], a[j] = a[j], a[k]
                if isinstance(st, ast.Assign) and isinstance(
                        st.targets[0], ast.Tuple) and isinstance(
                        st.value, ast.Tuple) and len(
                        st.targets[0].elts) == 2:
                    idx = [dotted(e.slice) for e in st.targets[0].elts
                           if isinstance(e, ast.Subscript)]
                    if k in idx and any(j in draws for j in idx):
                        j = [j for j in idx if j in draws][0]
                        n += 1
                        d = draws[j].value
                        uses_k = any(isinstance(x, ast.Name) and x.id == k
                                     for a in list(d.args) + [
                                         kw.value for kw in d.keywords]
                                     for x in ast.walk(a))
                        col.check(uses_k, rule, rel, q, 'swap-partner', d,
                                  'the partner is drawn from the unsettled '
                                  'positions', '`%s` draws the swap partner '
                                  'of position %s from the whole range: the '
                                  'subsets are not equally likely (naive '
                                  'shuffle)' % (unparse(d, 50), k))
    col.ok(rule, TABLE, '<scope>', 'scan', None,
           '%d hand-written swap loops' % n)


def rule_delete_key(repo, col):
    rule = 'OR-DELKEY'
    q = 'Table.del_metadata'
    if not repo.has_func(TABLE, q):
        return
    fn = repo.func(TABLE, q)
    par = {}
    for p in ast.walk(fn):
        for c in ast.iter_child_nodes(p):
            par[id(c)] = p
    n = 0
    for d in ast.walk(fn):
        tgt = None
        if isinstance(d, ast.Delete) and isinstance(d.targets[0],
                                                    ast.Subscript):
            tgt = d.targets[0]
        elif isinstance(d, ast.Call) and isinstance(
                d.func, ast.Attribute) and d.func.attr == 'pop' and \
                len(d.args) >= 1 and isinstance(par.get(id(d)), ast.Expr):
            tgt = d
        if tgt is None:
            continue
        n += 1
        cur, guards = d, []
        while id(cur) in par:
            p = par[id(cur)]
            if isinstance(p, ast.If) and cur is not p.test and \
                    cur in p.body:
                guards.append(p.test)
            if isinstance(p, (ast.For, ast.While, ast.FunctionDef)):
                break
            cur = p
        bad = [g for g in guards if not (
            isinstance(g, ast.Compare) and len(g.ops) == 1 and
            isinstance(g.ops[0], ast.In))]
        col.check(not bad, rule, TABLE, q, 'delete@%d' % n, d,
                  'deleted whenever present',
                  'the key is only deleted when `%s`: a key that is '
                  'present with a value such as None stays'
                  % (unparse(bad[0], 50) if bad else ''))
    if not n:
        col.unknown(rule, TABLE, q, 'delete', fn, 'no deletion found')


LINESPLIT_ALLOWED = {
    (TABLE, 'Table.from_adjacency'):
        'adjacency text given as one string (documented input form)',
}


def rule_linesplit(repo, col, rels=None):
    rule = 'TA-LINESPLIT'
    n = 0
    for rel, q, fn in repo.all_functions():
        if '/tests/' in rel or isinstance(fn, ast.Lambda):
            continue
        if rels is not None and rel not in rels:
            continue
        for c in body_walk(fn):
            if isinstance(c, ast.Call) and isinstance(
                    c.func, ast.Attribute) and c.func.attr == 'splitlines':
                n += 1
                if (rel, q) in LINESPLIT_ALLOWED:
                    col.ok(rule, rel, q, 'splitlines@%d' % n, c,
                           LINESPLIT_ALLOWED[(rel, q)])
                else:
                    col.bad(rule, rel, q, 'splitlines', c,
                            '`%s` also breaks lines at \\x0b \\x0c \\x1c-'
                            '\\x1e \\x85 \\u2028 \\u2029: a field holding '
                            'one of them is cut and its tail becomes a '
                            'spurious row' % unparse(c, 50))
    col.ok(rule, 'biom', '<package>', 'scan', None,
           '%d splitlines calls' % n)


def rule_presence(repo, col, funcs=(('biom/util.py',
                                     'compute_counts_per_sample_stats'),
                                    (TABLE, 'Table.nonzero_counts'),
                                    (TABLE, 'Table.get_table_density'))):
    rule = 'SB-PRESENCE'
    n = 0
    for rel, q in funcs:
        if not repo.has_func(rel, q):
            continue
        fn = repo.func(rel, q)
        for c in ast.walk(fn):
            if isinstance(c, ast.Compare) and len(c.ops) == 1 and (
                    isinstance(c.ops[0], (ast.Gt, ast.GtE)) and isinstance(
                        c.comparators[0], ast.Constant) and
                    c.comparators[0].value in (0, 1) or
                    isinstance(c.ops[0], (ast.Lt, ast.LtE)) and isinstance(
                        c.left, ast.Constant) and c.left.value in (0, 1)):
                # used as a count: (x > 0).sum() / np.sum(x > 0) / ...
                n += 1
                col.bad(rule, rel, q, 'sign-sensitive', c,
                        '`%s` counts only positive entries: a negative '
                        'entry is not counted as present' % unparse(c, 40))
        col.ok(rule, rel, q, 'scan', fn, 'no sign-sensitive presence test')


def rule_errstate_entry(repo, col):
    rule = 'OR-ENTER'
    rel = 'biom/err.py'
    m = repo.mod(rel)
    fn = m.defs.get('errstate')
    if fn is None:
        col.unknown(rule, rel, 'errstate', 'anchor', None, 'not found')
        return
    if isinstance(fn, ast.ClassDef):
        init = [x for x in fn.body if isinstance(x, ast.FunctionDef) and
                x.name == '__init__']
        calls = [c for i in init for c in ast.walk(i) if isinstance(
            c, ast.Call) and call_name(c) in ('seterr', 'seterrcall')]
        col.check(not calls, rule, rel, 'errstate', 'on-entry',
                  calls[0] if calls else fn, 'the override is applied in '
                  '__enter__', 'the override is applied when the manager '
                  'is created (`__init__`), not when the block is entered')
        return
    has_yield = any(isinstance(x, (ast.Yield, ast.YieldFrom))
                    for x in ast.walk(fn))
    calls = [c for c in body_walk(fn) if isinstance(c, ast.Call) and
             call_name(c) in ('seterr', 'seterrcall')]
    col.check(has_yield or not calls, rule, rel, 'errstate', 'on-entry',
              calls[0] if calls else fn, 'the override runs inside the '
              'generator, i.e. on entry', 'errstate is a plain function '
              'that calls `%s` and then returns a manager: the override is '
              'in force from the moment the manager is created, also if it '
              'is never entered' % (unparse(calls[0], 40) if calls else ''))


def rule_check_all_kinds(repo, col):
    rule = 'OR-CHECKALL'
    for q in ('Table.__init__', 'Table.update_ids', 'Table.filter'):
        if not repo.has_func(TABLE, q):
            continue
        fn = repo.func(TABLE, q)
        calls = [c for c in body_walk(fn) if isinstance(c, ast.Call) and
                 call_name(c) == 'errcheck']
        bad = [c for c in calls if len(c.args) > 1 or c.keywords]
        col.check(bool(calls) and not bad, rule, TABLE, q, 'all-kinds',
                  bad[0] if bad else fn, 'errcheck(<table>) tests every '
                  'kind', '`%s` tests a hand-picked list of kinds: the '
                  'others (e.g. the duplicate ids of the other axis, the '
                  'size checks) are never tested on this path'
                  % (unparse(bad[0], 70) if bad else ''))


def rule_subset_cleanup_axis(repo, col):
    """After a subset read the clean-up of emptied vectors names its axis
    (the *other* axis); remove_empty()/filter() without an axis acts on
    both / the default one and drops requested ids."""
    rule = 'AX-DEFAULT'
    q = 'parse_biom_table'
    if not repo.has_func(PARSE, q):
        return
    fn = repo.func(PARSE, q)
    n = 0
    for c in body_walk(fn):
        if isinstance(c, ast.Call) and isinstance(c.func, ast.Attribute) \
                and c.func.attr in ('remove_empty', 'filter') and \
                isinstance(c.func.value, ast.Name):
            n += 1
            has_axis = any(k.arg == 'axis' for k in c.keywords) or \
                len(c.args) > (0 if c.func.attr == 'remove_empty' else 1)
            col.check(has_axis, rule, PARSE, q,
                      'explicit-axis:%s' % c.func.attr, c,
                      'the axis is named', '`%s` does not name an axis '
                      'inside a function parametrised by `axis`: the '
                      'clean-up after a subset read must spare the '
                      'requested axis' % unparse(c, 50))


RULE_TEXT['OR-REFUSE'] = ('a subset request naming an id the file does not '
                          'hold is refused, also when other requested ids '
                          'are found')


def rule_refuse_any_missing(repo, col):
    """The refusal of unknown requested ids is a containment test (subset,
    set difference, length mismatch), not an 'is the selection empty' test:
    the latter lets a request through when at least one id matched."""
    rule = 'OR-REFUSE'
    sites = [(TABLE, 'Table.from_hdf5', {'ids'}),
             (PARSE, 'get_axis_indices', {'to_keep'})]
    for rel, q, requested in sites:
        if not repo.has_func(rel, q):
            continue
        fn = repo.func(rel, q)
        req = taint(fn, lambda n: False, initial=set(requested))
        k = 0
        for st in ast.walk(fn):
            if not (isinstance(st, ast.If) and any(
                    isinstance(b, ast.Raise) for b in st.body)):
                continue
            names = _names(st.test)
            if not names & req:
                continue
            t = st.test
            src = unparse(t, 300)
            if any(isinstance(x, ast.Constant) and x.value is None
                   for x in ast.walk(t)):
                continue            # `ids is not None`-style guards
            k += 1
            contain = ('issubset' in src or 'issuperset' in src or any(
                isinstance(x, ast.BinOp) and isinstance(x.op, ast.Sub)
                for x in ast.walk(t)) or any(
                isinstance(x, ast.Compare) and isinstance(
                    x.ops[0], (ast.LtE, ast.GtE, ast.Lt, ast.Gt, ast.NotEq))
                and not any(isinstance(c, ast.Constant)
                            for c in [x.left] + x.comparators)
                for x in ast.walk(t)) or 'setdiff1d' in src)
            core = t.operand if isinstance(t, ast.UnaryOp) and isinstance(
                t.op, ast.Not) else t
            empty = (isinstance(t, ast.UnaryOp) and isinstance(
                t.op, ast.Not) and (
                    isinstance(core, ast.Name) or
                    (isinstance(core, ast.Call) and (
                        call_name(core) == 'len' or (call_name(core) or ''
                                                     ).endswith('.any'))) or
                    (isinstance(core, ast.Attribute) and
                     core.attr == 'size'))) or (
                isinstance(t, ast.Compare) and len(t.ops) == 1 and
                isinstance(t.ops[0], ast.Eq) and isinstance(
                    t.comparators[0], ast.Constant) and
                t.comparators[0].value == 0)
            role = 'any-missing@%d' % k
            if contain:
                col.ok(rule, rel, q, role, st.test, 'containment test')
            elif empty:
                col.bad(rule, rel, q, 'any-missing', st.test,
                        'the request is only refused when `%s`, i.e. when '
                        'nothing matched: a request mixing known and '
                        'unknown ids is accepted and the unknown ones are '
                        'silently dropped' % unparse(st.test, 60))
            else:
                col.unknown(rule, rel, q, role, st.test,
                            'form of the refusal test not recognised')


RULE_TEXT['TA-VALDTYPE'] = (
    'the value array handed to a sparse-matrix constructor is not '
    'allocated with an integer / narrow dtype: record values are floats.')


def rule_value_buffer_dtype(repo, col, funcs=((TABLE, 'Table.from_adjacency'),
                                              (PARSE, 'parse_uc'),
                                              (TABLE, 'Table._fast_merge'))):
    from .rules_generic import _dtype_word
    rule = 'TA-VALDTYPE'
    n = 0
    for rel, q in funcs:
        if not repo.has_func(rel, q):
            continue
        fn = repo.func(rel, q)
        for c in body_walk(fn):
            if not (isinstance(c, ast.Call) and (call_name(c) or '').split(
                    '.')[-1] in ('coo_matrix', 'csr_matrix', 'csc_matrix')
                    and c.args and isinstance(c.args[0], ast.Tuple) and
                    c.args[0].elts):
                continue
            d = c.args[0].elts[0]
            n += 1
            allocs = []
            if isinstance(d, ast.Name):
                allocs = [a.value for a in body_walk(fn) if isinstance(
                    a, ast.Assign) and any(isinstance(t, ast.Name) and
                                           t.id == d.id for t in a.targets)]
                # rows, cols, data = np.empty((3, n), dtype=...)
                allocs += [a.value for a in body_walk(fn) if isinstance(
                    a, ast.Assign) and isinstance(
                    a.targets[0], (ast.Tuple, ast.List)) and any(
                    isinstance(t, ast.Name) and t.id == d.id
                    for t in a.targets[0].elts) and isinstance(
                    a.value, ast.Call)]
            else:
                allocs = [d]
            bad = None
            for v in allocs:
                if isinstance(v, ast.Call):
                    w = _dtype_word(next((k.value for k in v.keywords
                                          if k.arg == 'dtype'), None))
                    if w:
                        bad = (v, w)
                    if isinstance(v.func, ast.Attribute) and \
                            v.func.attr == 'astype' and v.args and \
                            _dtype_word(v.args[0]):
                        bad = (v, _dtype_word(v.args[0]))
            col.check(bad is None, rule, rel, q, 'values@%d' % n,
                      bad[0] if bad else c, 'values keep their float type',
                      'the values are collected in `%s` (dtype %s): '
                      'fractional record values are truncated before the '
                      'matrix is built' % (unparse(bad[0], 50) if bad
                                           else '', bad[1] if bad else ''))
    col.ok(rule, TABLE, '<scope>', 'scan', None, '%d constructor calls' % n)


RULE_TEXT['TA-NEGSENTINEL'] = (
    'a position that dict.get() marks as absent with a negative number is '
    'never tested with `is None` / `is not None` / truthiness: the test is '
    'always the same, and -1 then indexes the last element.')


def _neg_const(d):
    return (isinstance(d, ast.UnaryOp) and isinstance(d.op, ast.USub) and
            isinstance(d.operand, ast.Constant)) or (
        isinstance(d, ast.Constant) and isinstance(d.value, (int, float))
        and not isinstance(d.value, bool) and d.value < 0)


def rule_negative_sentinel(repo, col, roots=((TABLE, 'Table.merge'),
                                             (TABLE, 'Table._fast_merge'))):
    from .rules_generic import closure
    rule = 'TA-NEGSENTINEL'
    n = 0
    for (rel, q), fn in sorted(closure(repo, roots).items()):
        if isinstance(fn, ast.Lambda):
            continue

        def is_neg_get(e):
            return isinstance(e, ast.Call) and isinstance(
                e.func, ast.Attribute) and e.func.attr == 'get' and \
                len(e.args) == 2 and _neg_const(e.args[1])
        gets = [c for c in ast.walk(fn) if is_neg_get(c)]
        if not gets:
            continue
        n += len(gets)
        sent = {}           # name -> the lookup it comes from
        slots = {}          # (list name, tuple position) -> lookup
        for _ in range(3):
            for st in ast.walk(fn):
                if isinstance(st, ast.Assign) and isinstance(
                        st.targets[0], ast.Name) and (
                        is_neg_get(st.value) or (isinstance(
                            st.value, ast.Name) and st.value.id in sent)):
                    sent[st.targets[0].id] = st.value
                if isinstance(st, ast.Call) and isinstance(
                        st.func, ast.Attribute) and st.func.attr == \
                        'append' and isinstance(st.func.value, ast.Name) \
                        and st.args and isinstance(st.args[0], ast.Tuple):
                    for i, e in enumerate(st.args[0].elts):
                        if is_neg_get(e) or (isinstance(e, ast.Name) and
                                             e.id in sent):
                            slots[(st.func.value.id, i)] = e
                if isinstance(st, (ast.For, ast.comprehension)) and \
                        isinstance(st.iter, ast.Name) and isinstance(
                        st.target, ast.Tuple):
                    for i, e in enumerate(st.target.elts):
                        if (st.iter.id, i) in slots and isinstance(
                                e, ast.Name):
                            sent[e.id] = slots[(st.iter.id, i)]
        bad = []
        for c in ast.walk(fn):
            if isinstance(c, ast.Compare) and len(c.ops) == 1 and \
                    isinstance(c.ops[0], (ast.Is, ast.IsNot)) and \
                    isinstance(c.left, ast.Name) and c.left.id in sent and \
                    isinstance(c.comparators[0], ast.Constant) and \
                    c.comparators[0].value is None:
                bad.append(c)
            if isinstance(c, (ast.If, ast.IfExp, ast.While)) and isinstance(
                    c.test, ast.Name) and c.test.id in sent:
                bad.append(c.test)
        for b in bad:
            col.bad(rule, rel, q, 'absent-test:%s' % (
                b.left.id if isinstance(b, ast.Compare) else b.id), b,
                    '`%s` tests for None a position whose absent marker is '
                    'a negative number (`%s`): the test never fails and '
                    'position -1 reads the last element'
                    % (unparse(b, 40), unparse(gets[0], 50)))
        if not bad:
            col.ok(rule, rel, q, 'absent-test', gets[0],
                   'negative absent markers are not tested against None')
    col.ok(rule, TABLE, '<scope>', 'scan', None,
           '%d negative-default lookups' % n)


# ===========================================================================
# seventh round of seeded changes
# ===========================================================================
RULE_TEXT.update({
    'TA-ONESHOT': 'a one-shot iterator (map / filter / zip / enumerate / '
                  'generator expression bound to a name) is consumed at '
                  'most once: not inside a loop it was created outside of, '
                  'and not by two consumers in sequence.',
    'OR-WARNSUPPRESS': 'the library never installs a blanket '
                       '"ignore all warnings" filter: the configured '
                       '"warn" reaction is delivered through the warnings '
                       'module.',
    'TA-PARTIALDECODE': 'a header attribute read from the file is not '
                        'passed through a helper that returns nothing for '
                        'text: h5py returns str for string attributes.',
    'AG-DATEINV': 'the stored date text is parsed whole (no slicing): an '
                  'offset-aware date keeps its offset.',
    'AG-DENSEFLAG': 'from_json decides dense/sparse from matrix_type only.',
    'AG-GROUPMD': 'a group-metadata entry is (data type, text): the first '
                  'element goes to the data_type attribute, the second is '
                  'the data.',
    'EF-FRESH': 'copies handed to a new table share no mutable state with '
                'the receiver',
    'SB-ORDERBYPOS': 'the merged orders are walked by position '
                     '(sorted by the index, not by the id).',
    'SB-DICTFORM': 'partition accepts group -> list or tuple of ids.',
    'TA-NEGSLICE': 'a slice bound computed as len(x) - n is clamped or '
                   'guarded: a negative bound counts from the end.',
    'SB-FIRSTPROBE': 'the columns of the metadata frame are derived from '
                     'all entries, not from the first one.',
    'TA-RECIPROCAL': 'values are divided by the total, not multiplied by '
                     'its reciprocal (1/t overflows for denormal t and '
                     'rounds differently).',
    'SB-EQ': 'equality reads ids, per-id metadata, type and the matrix '
             'only',
})


_ONESHOT = {'map', 'filter', 'zip', 'enumerate', 'iter', 'reversed'}


def rule_oneshot(repo, col, roots=((TABLE, 'Table.merge'),)):
    from .rules_generic import closure
    rule = 'TA-ONESHOT'
    n = 0
    for (rel, q), fn in sorted(closure(repo, roots).items()):
        if isinstance(fn, ast.Lambda):
            continue
        par = {}
        for p in ast.walk(fn):
            for c in ast.iter_child_nodes(p):
                par[id(c)] = p
        shots = {}
        for a in body_walk(fn):
            if isinstance(a, ast.Assign) and len(a.targets) == 1 and \
                    isinstance(a.targets[0], ast.Name) and (
                    isinstance(a.value, ast.GeneratorExp) or (
                        isinstance(a.value, ast.Call) and isinstance(
                            a.value.func, ast.Name) and
                        a.value.func.id in _ONESHOT)):
                shots.setdefault(a.targets[0].id, []).append(a)
        for name, defs in shots.items():
            # every assignment of the name must be a one-shot for the rule
            # to speak
            all_defs = [a for a in body_walk(fn) if isinstance(
                a, ast.Assign) and any(isinstance(t, ast.Name) and
                                       t.id == name for t in a.targets)]
            if len(all_defs) != len(defs):
                continue
            n += 1

            def loops_of(node):
                out, cur = [], node
                while id(cur) in par:
                    cur = par[id(cur)]
                    if isinstance(cur, (ast.For, ast.While)):
                        out.append(cur)
                    if cur is fn:
                        break
                return out
            uses = []
            for u in body_walk(fn):
                if isinstance(u, ast.For) and isinstance(
                        u.iter, ast.Name) and u.iter.id == name:
                    uses.append(u)
                elif isinstance(u, ast.comprehension) and isinstance(
                        u.iter, ast.Name) and u.iter.id == name:
                    uses.append(u)
                elif isinstance(u, ast.Call) and any(
                        isinstance(x, ast.Name) and x.id == name
                        for x in u.args) and (call_name(u) or '') not in (
                        'isinstance', 'type', 'id', 'print', 'hasattr'):
                    uses.append(u)
            bad = None
            dloops = set(id(l) for d in defs for l in loops_of(d))
            for u in uses:
                extra = [l for l in loops_of(u) if id(l) not in dloops
                         and l is not u]
                if extra:
                    bad = (u, 'inside a loop the iterator was created '
                           'outside of')
            if bad is None and len(uses) > 1:
                # two consumers in the same block, in sequence
                blocks = {}
                for u in uses:
                    p = par.get(id(u))
                    while p is not None and not isinstance(
                            p, (ast.FunctionDef, ast.For, ast.While, ast.If,
                                ast.With, ast.Try)):
                        p = par.get(id(p))
                    blocks.setdefault(id(p), []).append(u)
                for us in blocks.values():
                    if len(us) > 1:
                        bad = (us[1], 'after an earlier consumer in the '
                               'same block')
            if bad:
                col.bad(rule, rel, q, 'consumed-twice:%s' % name, bad[0],
                        '`%s` is a one-shot iterator (`%s`) and is consumed '
                        '%s: the second pass sees nothing'
                        % (name, unparse(defs[0].value, 50), bad[1]))
            else:
                col.ok(rule, rel, q, 'oneshot:%s' % name, defs[0],
                       'consumed once')
    col.ok(rule, TABLE, '<scope>', 'scan', None, '%d one-shot locals' % n)


def rule_warning_suppression(repo, col, rels=None):
    rule = 'OR-WARNSUPPRESS'
    n = 0
    for rel, q, fn in repo.all_functions():
        if '/tests/' in rel or isinstance(fn, ast.Lambda):
            continue
        if rels is not None and rel not in rels:
            continue
        for c in body_walk(fn):
            if isinstance(c, ast.Call) and (call_name(c) or '').split(
                    '.')[-1] in ('simplefilter', 'filterwarnings') and \
                    c.args and isinstance(c.args[0], ast.Constant) and \
                    c.args[0].value == 'ignore':
                cat = next((k.value for k in c.keywords
                            if k.arg == 'category'),
                           c.args[1] if len(c.args) > 1 and
                           (call_name(c) or '').endswith('simplefilter')
                           else (c.args[2] if len(c.args) > 2 else None))
                n += 1
                col.check(cat is not None, rule, rel, q, 'blanket-ignore',
                          c, 'limited to one warning category',
                          '`%s` silences every warning raised underneath, '
                          "including the table's own: under the 'warn' "
                          'reaction the configured warning is lost'
                          % unparse(c, 50))
    col.ok(rule, 'biom', '<package>', 'scan', None,
           '%d ignore filters' % n)


def rule_partial_decode(repo, col):
    rule = 'TA-PARTIALDECODE'
    q = 'Table.from_hdf5'
    if not repo.has_func(TABLE, q):
        return
    fn = repo.func(TABLE, q)
    partial_ = {}
    for d in ast.walk(fn):
        if isinstance(d, ast.FunctionDef) and d is not fn:
            rets = [r for r in ast.walk(d) if isinstance(r, ast.Return)]
            if any(r.value is None or (isinstance(r.value, ast.Constant)
                                       and r.value.value is None)
                   for r in rets) and any(r.value is not None
                                          for r in rets):
                partial_[d.name] = d
    n = 0
    for c in ast.walk(fn):
        if isinstance(c, ast.Call) and isinstance(c.func, ast.Name) and \
                c.func.id in partial_ and c.args and any(
                isinstance(x, ast.Attribute) and x.attr == 'attrs'
                for x in ast.walk(c.args[0])):
            n += 1
            col.bad(rule, TABLE, q, 'attribute-through:%s' % c.func.id, c,
                    '`%s` hands a header attribute to `%s`, which returns '
                    'nothing unless it is given bytes: h5py returns str, '
                    'so the field is read back as None'
                    % (unparse(c, 60), c.func.id))
    col.ok(rule, TABLE, q, 'scan', fn,
           '%d partial helpers, %d attribute uses' % (len(partial_), n))


def rule_date_whole(repo, col, funcs=('Table.from_json', 'Table.from_hdf5')):
    rule = 'AG-DATEINV'
    for q in funcs:
        if not repo.has_func(TABLE, q):
            continue
        fn = repo.func(TABLE, q)
        for c in ast.walk(fn):
            if isinstance(c, ast.Call) and (call_name(c) or '').endswith(
                    'fromisoformat') and c.args:
                a = c.args[0]
                # follow a local bound once
                if isinstance(a, ast.Name):
                    ds = [x.value for x in ast.walk(fn) if isinstance(
                        x, ast.Assign) and len(x.targets) == 1 and
                        isinstance(x.targets[0], ast.Name) and
                        x.targets[0].id == a.id]
                    cut = [d for d in ds if any(
                        isinstance(y, ast.Call) and (
                            call_name(y) or '').split('.')[-1] in (
                            'sub', 'subn', 'replace', 'split', 'rsplit',
                            'partition', 'rpartition', 'rstrip', 'strip',
                            'removesuffix') and (call_name(y) or '') not in (
                            'str.strip',) for y in ast.walk(d)) or any(
                        isinstance(y, ast.Subscript) and isinstance(
                            y.slice, ast.Slice) for y in ast.walk(d))]
                    # plain whitespace strip() without arguments is harmless
                    cut = [d for d in cut if not (
                        isinstance(d, ast.Call) and isinstance(
                            d.func, ast.Attribute) and d.func.attr in (
                            'strip', 'rstrip') and not d.args)]
                    if cut:
                        a = cut[0]
                sliced = any(isinstance(x, ast.Subscript) and isinstance(
                    x.slice, ast.Slice) for x in ast.walk(a)) or any(
                    isinstance(y, ast.Call) and (
                        call_name(y) or '').split('.')[-1] in (
                        'sub', 'subn', 'replace', 'split', 'rsplit',
                        'partition', 'rpartition', 'removesuffix')
                    for y in ast.walk(a))
                col.check(not sliced, rule, TABLE, q, 'date-whole', c,
                          'the whole date text is parsed',
                          '`%s` parses a slice of the stored date: the UTC '
                          'offset of an aware date with microseconds is '
                          'cut off' % unparse(c, 60))


def rule_dense_flag(repo, col):
    rule = 'AG-DENSEFLAG'
    q = 'Table.from_json'
    if not repo.has_func(TABLE, q):
        return
    fn = repo.func(TABLE, q)
    flag = None
    for c in ast.walk(fn):
        if isinstance(c, ast.Call):
            k = next((k for k in c.keywords if k.arg == 'input_is_dense'),
                     None)
            if k is not None and isinstance(k.value, ast.Name):
                flag = k.value.id
    if flag is None:
        col.unknown(rule, TABLE, q, 'flag', fn,
                    'input_is_dense argument not a local name')
        return
    par = {}
    for p in ast.walk(fn):
        for c in ast.iter_child_nodes(p):
            par[id(c)] = p
    bad = None
    n = 0
    for a in body_walk(fn):
        if isinstance(a, ast.Assign) and any(
                isinstance(t, ast.Name) and t.id == flag
                for t in a.targets):
            n += 1
            texts = [unparse(a.value, 200)]
            cur = a
            while id(cur) in par and par[id(cur)] is not fn:
                cur = par[id(cur)]
                if isinstance(cur, ast.If):
                    texts.append(unparse(cur.test, 300))
            if len(texts) == 1 and 'matrix_type' not in texts[0]:
                bad = a
            elif len(texts) > 1 and not all('matrix_type' in t
                                            for t in texts[1:]):
                bad = a
    col.check(bad is None and n > 0, rule, TABLE, q, 'from-matrix-type',
              bad or fn, 'the flag depends on matrix_type only',
              '`%s` sets the dense flag from something other than '
              'matrix_type: a sparse document whose triples happen to '
              'have the shape of the table is read as dense'
              % (unparse(bad, 60) if bad else ''))


def rule_group_md_order(repo, col):
    rule = 'AG-GROUPMD'
    q = 'Table.to_hdf5'
    if not repo.has_func(TABLE, q):
        return
    fn = repo.func(TABLE, q)
    # attrs['data_type'] = X ; X must be element 0 of the unpacked entry
    for a in body_walk(fn):
        if isinstance(a, ast.Assign) and isinstance(
                a.targets[0], ast.Subscript) and const_str_(
                a.targets[0].slice) == 'data_type' and isinstance(
                a.value, ast.Name):
            name = a.value.id
            pos = set()
            for u in ast.walk(fn):
                if isinstance(u, ast.Assign) and isinstance(
                        u.targets[0], ast.Tuple) and len(
                        u.targets[0].elts) == 2 and not isinstance(
                        u.value, ast.Tuple):
                    for i, e in enumerate(u.targets[0].elts):
                        if isinstance(e, ast.Name) and e.id == name:
                            pos.add(i)
                elif isinstance(u, ast.Assign) and isinstance(
                        u.targets[0], ast.Name) and u.targets[0].id == name \
                        and isinstance(u.value, ast.Subscript) and \
                        isinstance(u.value.slice, ast.Constant):
                    pos.add(u.value.slice.value)
            if not pos:
                col.unknown(rule, TABLE, q, 'data-type-first', a,
                            'unpacking of the entry not recognised')
            else:
                col.check(pos == {0}, rule, TABLE, q, 'data-type-first', a,
                          'data_type is the first element of the entry',
                          'the data_type attribute is filled from element '
                          '%s of the (data type, text) entry: type and text '
                          'are swapped in the file' % sorted(pos))


def const_str_(e):
    return e.value if isinstance(e, ast.Constant) and isinstance(
        e.value, str) else None


def rule_transpose_copies(repo, col):
    rule = 'EF-FRESH'
    q = 'Table.transpose'
    if not repo.has_func(TABLE, q):
        return
    fn = repo.func(TABLE, q)
    ctor = [c for c in body_walk(fn) if isinstance(c, ast.Call) and (
        call_name(c) or '').endswith('__class__')]

    def deep(e, depth=0):
        if isinstance(e, ast.Call) and (call_name(e) or '').split(
                '.')[-1] == 'deepcopy':
            return True
        if isinstance(e, ast.Name) and depth < 3:
            vals = [a.value for a in body_walk(fn) if isinstance(
                a, ast.Assign) and any(isinstance(t, ast.Name) and
                                       t.id == e.id for t in a.targets)]
            # a, b = deepcopy(x), deepcopy(y)
            for a in body_walk(fn):
                if isinstance(a, ast.Assign) and isinstance(
                        a.targets[0], ast.Tuple) and isinstance(
                        a.value, ast.Tuple) and len(
                        a.targets[0].elts) == len(a.value.elts):
                    for t, v in zip(a.targets[0].elts, a.value.elts):
                        if isinstance(t, ast.Name) and t.id == e.id:
                            vals.append(v)
            return bool(vals) and all(deep(v, depth + 1) for v in vals)
        return False
    n = 0
    for c in ctor:
        for i in (3, 4):
            if len(c.args) > i:
                n += 1
                col.check(deep(c.args[i]), rule, TABLE, q,
                          'metadata-deep-copied@%d' % i, c.args[i],
                          'metadata is deep-copied for the new table',
                          'the transpose is handed the receiver\'s own '
                          'metadata values (`%s`): nested values (lists) '
                          'are shared between a table and its transpose'
                          % unparse(c.args[i], 40))
    if not n:
        col.unknown(rule, TABLE, q, 'metadata-deep-copied', fn,
                    'constructor call not recognised')


def rule_order_by_position(repo, col):
    rule = 'SB-ORDERBYPOS'
    q = 'Table.merge'
    if not repo.has_func(TABLE, q):
        return
    fn = repo.func(TABLE, q)
    idx = set()
    for a in body_walk(fn):
        if isinstance(a, ast.Assign) and isinstance(a.value, ast.Call) and (
                call_name(a.value) or '').split('.')[-1] in (
                '_union_id_order', '_intersect_id_order'):
            idx |= {t.id for t in a.targets if isinstance(t, ast.Name)}
    n = 0
    for c in ast.walk(fn):
        if isinstance(c, ast.Call) and call_name(c) == 'sorted' and c.args \
                and isinstance(c.args[0], ast.Call) and isinstance(
                c.args[0].func, ast.Attribute) and \
                c.args[0].func.attr == 'items' and \
                dotted(c.args[0].func.value) in idx:
            n += 1
            key = next((k.value for k in c.keywords if k.arg == 'key'),
                       None)
            col.check(key is not None, rule, TABLE, q, 'by-position@%d' % n,
                      c, 'sorted by the position', '`%s` orders the '
                      '(id, position) pairs by id: ids and metadata are '
                      'laid out in that order while the values are placed '
                      'by the positions' % unparse(c, 60))


def rule_dict_form(repo, col):
    rule = 'SB-DICTFORM'
    q = 'Table.partition'
    if not repo.has_func(TABLE, q):
        return
    fn = repo.func(TABLE, q)
    n = 0
    for t in ast.walk(fn):
        if isinstance(t, ast.If) and isinstance(t.test, ast.Call) and \
                call_name(t.test) == 'isinstance' and len(
                t.test.args) == 2 and any(
                isinstance(x, ast.For) for x in t.body):
            names = {x.id for x in ast.walk(t.test.args[1])
                     if isinstance(x, ast.Name)}
            if names & {'list', 'tuple'}:
                n += 1
                col.check({'list', 'tuple'} <= names, rule, TABLE, q,
                          'group-to-ids', t.test, 'lists and tuples',
                          'only %s of ids are read as group -> ids: the '
                          'other documented form falls through to id -> '
                          'group and every id is labelled None'
                          % sorted(names & {'list', 'tuple'}))


def rule_negative_slice(repo, col, funcs=((TABLE, 'Table.subsample'),)):
    rule = 'TA-NEGSLICE'
    n = 0
    for rel, q in funcs:
        if not repo.has_func(rel, q):
            continue
        fn = repo.func(rel, q)

        def is_diff(e, depth=0):
            if isinstance(e, ast.BinOp) and isinstance(e.op, ast.Sub) and \
                    not isinstance(e.right, ast.Constant):
                return True
            if isinstance(e, ast.Name) and depth < 2:
                vals = [a.value for a in body_walk(fn) if isinstance(
                    a, ast.Assign) and any(isinstance(t, ast.Name) and
                                           t.id == e.id
                                           for t in a.targets)]
                return bool(vals) and any(is_diff(v, depth + 1)
                                          for v in vals)
            return False
        for s_ in ast.walk(fn):
            if isinstance(s_, ast.Subscript) and isinstance(
                    s_.slice, ast.Slice):
                for b in (s_.slice.lower, s_.slice.upper):
                    if b is not None and is_diff(b):
                        n += 1
                        col.bad(rule, rel, q, 'difference-bound', s_,
                                '`%s` slices with a bound that is a '
                                'difference of two run-time quantities: '
                                'when it goes negative the slice counts '
                                'from the end (e.g. n larger than the '
                                'number of ids)' % unparse(s_, 50))
    col.ok(rule, TABLE, '<scope>', 'scan', None,
           '%d difference bounds' % n)


def rule_first_probe(repo, col):
    rule = 'SB-FIRSTPROBE'
    q = 'Table.metadata_to_dataframe'
    if not repo.has_func(TABLE, q):
        return
    fn = repo.func(TABLE, q)
    bad = [s_ for s_ in ast.walk(fn) if isinstance(s_, ast.Subscript) and
           isinstance(s_.slice, ast.Constant) and s_.slice.value == 0 and
           isinstance(s_.value, ast.Name) and s_.value.id in ('md',
                                                              'metadata')]
    col.check(not bad, rule, TABLE, q, 'all-entries', bad[0] if bad else fn,
              'columns are derived from every entry',
              '`%s`: the columns are named after the first entry only; '
              'list-valued metadata of uneven depth needs the widest '
              'entry' % (unparse(bad[0], 30) if bad else ''))


def rule_reciprocal(repo, col, funcs=((TABLE, 'Table.norm'),)):
    rule = 'TA-RECIPROCAL'
    n = 0
    for rel, q in funcs:
        if not repo.has_func(rel, q):
            continue
        fn = repo.func(rel, q)
        for b in ast.walk(fn):
            if isinstance(b, ast.BinOp) and isinstance(b.op, ast.Div) and \
                    isinstance(b.left, ast.Constant) and b.left.value in (
                    1, 1.0) and not isinstance(b.right, ast.Constant):
                n += 1
                col.bad(rule, rel, q, 'reciprocal', b,
                        '`%s`: multiplying by the reciprocal of the total '
                        'overflows to inf for a denormal total and rounds '
                        'differently from the division' % unparse(b, 40))
        col.ok(rule, rel, q, 'scan', fn, 'no reciprocal of a total')


def rule_eq_fields(repo, col):
    rule = 'SB-EQ'
    for q in ('Table.__eq__', 'Table.descriptive_equality',
              'Table._data_equality'):
        if not repo.has_func(TABLE, q):
            continue
        fn = repo.func(TABLE, q)
        extra = [x for x in ast.walk(fn) if (
            isinstance(x, ast.Call) and isinstance(x.func, ast.Attribute)
            and x.func.attr == 'group_metadata') or (
            isinstance(x, ast.Attribute) and x.attr in (
                'table_id', 'create_date', 'generated_by', 'format_version',
                '_sample_group_metadata', '_observation_group_metadata'))]
        col.check(not extra, rule, TABLE, q, 'content-only',
                  extra[0] if extra else fn,
                  'only content fields are compared',
                  '`%s` takes part in equality: copy(), sort_order(), '
                  'filter() and transpose() do not carry it, so a table is '
                  'unequal to its own copy' % (unparse(extra[0], 40)
                                               if extra else ''))
        for t in ast.walk(fn):
            if isinstance(t, ast.If) and isinstance(t.test, ast.BoolOp) and \
                    any(isinstance(x, ast.Attribute) and x.attr == 'type'
                        for x in ast.walk(t.test)):
                col.bad(rule, TABLE, q, 'type-symmetric', t.test,
                        'the type test `%s` carries an extra condition: a '
                        'typed and an untyped table compare equal one way '
                        'round only' % unparse(t.test, 70))
        if q == 'Table._data_equality':
            diffs = [b for b in ast.walk(fn) if isinstance(b, ast.BinOp) and
                     isinstance(b.op, ast.Sub)]
            col.check(not diffs, rule, TABLE, q, 'no-difference',
                      diffs[0] if diffs else fn, 'values are compared, not '
                      'subtracted', '`%s`: inf - inf is NaN, a stored '
                      'non-zero, so equal tables holding an infinity are '
                      'unequal' % (unparse(diffs[0], 40) if diffs else ''))


RULE_TEXT['TA-EMPTYREDUCE'] = (
    'the whole-table minimum / maximum reduces vector by vector over the '
    'stored values: a vector without any (all-zero sample) is skipped, '
    'since .min()/.max() of an empty array raises.')


def rule_empty_reduce(repo, col):
    rule = 'TA-EMPTYREDUCE'
    for q in ('Table.min', 'Table.max'):
        if not repo.has_func(TABLE, q):
            continue
        fn = repo.func(TABLE, q)
        par = {}
        for p in ast.walk(fn):
            for c in ast.iter_child_nodes(p):
                par[id(c)] = p
        n = 0
        for c in ast.walk(fn):
            if not (isinstance(c, ast.Call) and isinstance(
                    c.func, ast.Attribute) and c.func.attr in ('min', 'max')
                    and isinstance(c.func.value, ast.Attribute) and
                    c.func.value.attr == 'data' and not c.args):
                continue
            # inside the branch for the whole table?
            from .flow import reached_under
            cur, guarded = c, False
            while id(cur) in par:
                p = par[id(cur)]
                if isinstance(p, ast.If) and cur is not p.test:
                    t = unparse(p.test, 200)
                    if any(w in t for w in ('.size', '.nnz', 'len(',
                                            '.getnnz')):
                        guarded = True
                cur = p
            axp = [a.arg for a in fn.args.args if a.arg != 'self'][:1]
            whole = bool(axp) and reached_under(
                fn, c, {axp[0]: 'whole'}) is True and reached_under(
                fn, c, {axp[0]: 'sample'}) is False
            if not whole:
                continue
            n += 1
            has_identity = any(k.arg == 'initial' for k in c.keywords)
            col.check(guarded or has_identity, rule, TABLE, q,
                      'whole:empty-vector', c,
                      'vectors without stored values are skipped',
                      '`%s` is evaluated for every vector of the table: a '
                      'sample without any non-zero value makes the '
                      'whole-table extremum raise ValueError'
                      % unparse(c, 40))
        # the whole-table extremum taken from the per-axis results: those
        # hold a placeholder (0) for vectors without stored values
        deleg = None
        from .flow import reached_under as _ru
        axp_ = [a.arg for a in fn.args.args if a.arg != 'self'][:1]
        for c in ast.walk(fn):
            if isinstance(c, ast.Call) and dotted(c.func) in (
                    'self.min', 'self.max') and axp_ and \
                    _ru(fn, c, {axp_[0]: 'whole'}) is True and \
                    _ru(fn, c, {axp_[0]: 'sample'}) is False:
                deleg = c
        if deleg is not None:
            n += 1
            col.bad(rule, TABLE, q, 'whole:from-per-axis', deleg,
                    '`%s`: the per-axis result reports 0 for a vector '
                    'without stored values, so the whole-table extremum of '
                    'a table with an all-zero vector becomes 0'
                    % unparse(deleg, 50))
        if not n:
            col.unknown(rule, TABLE, q, 'whole:empty-vector', fn,
                        'per-vector reduction of the whole branch not found')


RULE_TEXT['OR-STALEINDEX'] = (
    'an id lookup handed to the Table constructor was computed from the id '
    'array that is handed alongside it: the ids are not re-bound between '
    'the computation of the lookup and the constructor call.')


def rule_stale_index(repo, col, rels=(TABLE,)):
    from .cfg import CFG
    rule = 'OR-STALEINDEX'
    n = 0
    for rel, q, fn in repo.all_functions():
        if rel not in rels or isinstance(fn, ast.Lambda):
            continue
        calls = [c for c in body_walk(fn) if isinstance(c, ast.Call) and (
            (call_name(c) or '') in ('Table', 'cls') or (call_name(c) or ''
                                                         ).endswith(
                '__class__')) and any(k.arg in ('observation_index',
                                                'sample_index')
                                      for k in c.keywords)]
        if not calls:
            continue
        cfg = CFG(fn)

        def node_of(x):
            for c_ in cfg.stmt_nodes():
                if c_.kind == 'stmt' and not isinstance(
                        c_.stmt, (ast.For, ast.While, ast.If, ast.With,
                                  ast.Try, ast.FunctionDef)) and any(
                        y is x for y in ast.walk(c_.stmt)):
                    return c_
            return None
        for c in calls:
            for kwname, pos, idname in (('observation_index', 1,
                                         'observation_ids'),
                                        ('sample_index', 2, 'sample_ids')):
                kv = next((k.value for k in c.keywords if k.arg == kwname),
                          None)
                ids = c.args[pos] if len(c.args) > pos else next(
                    (k.value for k in c.keywords if k.arg == idname), None)
                if not (isinstance(kv, ast.Name) and isinstance(ids,
                                                                ast.Name)):
                    continue
                n += 1
                cn = node_of(c)
                defs = [s_ for s_ in cfg.stmt_nodes() if s_.kind == 'stmt'
                        and isinstance(s_.stmt, ast.Assign) and any(
                            isinstance(t, ast.Name) and t.id == kv.id
                            for t in s_.stmt.targets)]
                rebinds = [s_ for s_ in cfg.stmt_nodes() if s_.kind == 'stmt'
                           and isinstance(s_.stmt, ast.Assign) and any(
                               isinstance(x, ast.Name) and x.id == ids.id
                               and isinstance(x.ctx, ast.Store)
                               for t in s_.stmt.targets
                               for x in ast.walk(t))]
                stale = None
                for d in defs:
                    src = {x.id for x in ast.walk(d.stmt.value)
                           if isinstance(x, ast.Name)}
                    if ids.id not in src:
                        continue
                    for r in rebinds:
                        if r is d or cn is None:
                            continue
                        if cfg.path_avoiding(d, r, set()) and \
                                cfg.path_avoiding(r, cn, set()):
                            stale = (d, r)
                if stale:
                    col.bad(rule, rel, q, 'stale:%s' % kwname, c,
                            '`%s` is computed from `%s` (%s) and handed to '
                            'the constructor after `%s` was re-bound (%s): '
                            'the lookup still describes the earlier ids, so '
                            'index()/exists()/data() answer for ids that '
                            'are no longer there'
                            % (kv.id, ids.id, unparse(stale[0].stmt, 40),
                               ids.id, unparse(stale[1].stmt, 50)))
                else:
                    col.ok(rule, rel, q, '%s@%d' % (kwname, n), c,
                           'computed from the ids handed alongside')
    col.ok(rule, TABLE, '<file>', 'scan', None,
           '%d explicit lookups' % n)


RULE_TEXT['TA-SEEK'] = (
    'a text stream is repositioned only to 0 or to a value obtained from '
    'tell(): character counts are not byte offsets (non-ASCII text).')
RULE_TEXT['SB-ALLSAMPLES'] = (
    'compute_counts_per_sample_stats returns the per-sample dictionary '
    'filled by the loop over all samples on every path.')


def rule_seek_offsets(repo, col, rels=(TABLE, PARSE, 'biom/util.py')):
    rule = 'TA-SEEK'
    n = 0
    for rel, q, fn in repo.all_functions():
        if rel not in rels or isinstance(fn, ast.Lambda):
            continue
        tells = {t.id for a in ast.walk(fn) if isinstance(a, ast.Assign)
                 and isinstance(a.value, ast.Call) and isinstance(
                     a.value.func, ast.Attribute) and
                 a.value.func.attr == 'tell' for t in a.targets
                 if isinstance(t, ast.Name)}
        for c in body_walk(fn):
            if isinstance(c, ast.Call) and isinstance(
                    c.func, ast.Attribute) and c.func.attr == 'seek' and \
                    c.args:
                a = c.args[0]
                n += 1
                ok = isinstance(a, ast.Constant) or (
                    isinstance(a, ast.Name) and a.id in tells) or (
                    isinstance(a, ast.Call) and isinstance(
                        a.func, ast.Attribute) and a.func.attr == 'tell')
                col.check(ok, rule, rel, q, 'seek@%d' % n, c,
                          'constant or tell() offset',
                          '`%s` repositions the stream to a computed '
                          'offset: lengths of decoded lines count '
                          'characters, the stream counts bytes, so text '
                          'with non-ASCII ids is re-read from inside a line'
                          % unparse(c, 50))
    col.ok(rule, 'biom', '<scope>', 'scan', None, '%d seek calls' % n)


def rule_all_samples_counted(repo, col):
    rule = 'SB-ALLSAMPLES'
    rel, q = 'biom/util.py', 'compute_counts_per_sample_stats'
    if not repo.has_func(rel, q):
        return
    fn = repo.func(rel, q)
    loop_i = None
    for i, st in enumerate(fn.body):
        if isinstance(st, ast.For) and 'iter' in unparse(st.iter, 80):
            loop_i = i
    if loop_i is None:
        col.unknown(rule, rel, q, 'loop', fn, 'sample loop not found')
        return
    early = [r for st in fn.body[:loop_i] for r in ast.walk(st)
             if isinstance(r, ast.Return)]
    col.check(not early, rule, rel, q, 'no-early-return',
              early[0] if early else fn,
              'every return follows the loop over the samples',
              '`%s` returns before the samples are walked: a table with '
              'samples but no observations reports no sample at all'
              % (unparse(early[0], 50) if early else ''))


RULE_TEXT['SB-SPARSEFILL'] = (
    'the sparse pandas export pins the fill value of the frame to 0: a cell '
    'without a stored entry is a zero of the matrix, not a missing value.')


def rule_sparse_fill(repo, col):
    rule = 'SB-SPARSEFILL'
    q = 'Table.to_dataframe'
    if not repo.has_func(TABLE, q):
        return
    fn = repo.func(TABLE, q)
    uses = [c for c in ast.walk(fn) if (isinstance(c, ast.Attribute) and
                                         c.attr == 'from_spmatrix')]
    if not uses:
        col.ok(rule, TABLE, q, 'fill-value', fn,
               'no frame is built with pandas\' default fill value')
        return
    src = unparse(fn, 20000)
    pinned = 'SparseDtype' in src or 'fillna' in src or 'fill_value' in src
    col.check(pinned, rule, TABLE, q, 'fill-value', uses[0],
              'the fill value is pinned to 0',
              'the frame is built by DataFrame.sparse.from_spmatrix and '
              'returned as is: its fill value is pandas\' default, which is '
              'NaN in the installed pandas, so every zero cell of the '
              'matrix is exported as a missing value')


RULE_TEXT['OR-SORTED'] = ('the predicate kernel receives a matrix with '
                          'sorted indices')


def rule_searchsorted_needs_sorted(repo, col, rels=(TABLE,)):
    """A binary search over the stored positions of a compressed vector
    (`searchsorted(X.indices[...])`, `bisect`) needs `X.sort_indices()` /
    `sorted_indices()` to dominate it: reordering leaves indices unsorted."""
    from .cfg import CFG
    rule = 'OR-SORTED'
    n = 0
    for rel, q, fn in repo.all_functions():
        if rel not in rels or isinstance(fn, ast.Lambda):
            continue
        hits = [c for c in body_walk(fn) if isinstance(c, ast.Call) and (
            call_name(c) or '').split('.')[-1] in (
            'searchsorted', 'bisect_left', 'bisect_right', 'bisect') and any(
            isinstance(x, ast.Attribute) and x.attr == 'indices'
            for a in c.args for x in ast.walk(a))]
        if not hits:
            continue
        cfg = CFG(fn)
        for c in hits:
            n += 1
            node = next((s_ for s_ in cfg.stmt_nodes() if s_.kind == 'stmt'
                         and any(x is c for x in ast.walk(s_.stmt))), None)
            sorters = [s_ for s_ in cfg.stmt_nodes() if s_.kind == 'stmt'
                       and any(isinstance(x, ast.Call) and isinstance(
                           x.func, ast.Attribute) and x.func.attr in (
                           'sort_indices', 'sorted_indices')
                           for x in ast.walk(s_.stmt))]
            ok = node is not None and any(cfg.dominates(s_, node)
                                          for s_ in sorters)
            col.check(ok, rule, rel, q, 'searchsorted-on-indices', c,
                      'the indices are sorted before the binary search',
                      '`%s` searches the stored positions of a compressed '
                      'vector by bisection without sorting them first: '
                      'after a reordering (sort_order, concat) the indices '
                      'are not in ascending order and stored values are '
                      'reported as 0' % unparse(c, 60))
    col.ok(rule, TABLE, '<file>', 'searchsorted-scan', None,
           '%d binary searches over stored indices' % n)


# ===========================================================================
# eighth round of seeded changes
# ===========================================================================
RULE_TEXT.update({
    'TA-SQUEEZE': 'np.squeeze without an axis turns a one-element vector '
                  'into a 0-d array: it is only used where that case is '
                  'handled.',
    'SB-PARSEDIDS': 'from_tsv builds its table from the ids the text '
                    'carries on every path.',
    'OR-METAUPD': 'metadata updates affect exactly the named ids and keys',
    'SB-FLAGACC': 'a flag that summarises a loop is accumulated (or set '
                  'under a condition), not overwritten by each iteration.',
    'SB-YIELDALL': 'partition hands out every part it formed.',
    'SB-KERNELALWAYS': 'the subsample kernel runs for every count '
                       'subsample: it also removes the vectors below the '
                       'depth.',
    'AG-RANKMETHODS': 'rankdata accepts every tie method of '
                      'scipy.stats.rankdata.',
    'SB-FILEIDS': 'the ids of a subset read are taken from the file (the '
                  'selected stored ids), not from the request.',
    'OR-FILTERORDER': 'after a subset read the empty-vector clean-up '
                      'follows the id filter.',
    'AG-ERRMSG': 'the message of the metadata type error formats the '
                 'offending entry through repr(): a tuple entry must not '
                 'be taken for the argument tuple of %.',
    'SB-REDUCEALL': 'Table.reduce folds every value of a vector, zeros '
                    'included.',
    'TA-EXPORTASIS': 'metadata values are exported as they are (no numeric '
                     'inference).',
    'TA-QUOTES': 'MetadataMap.from_file removes every double quote of a '
                 'field, not only enclosing ones.',
    'AG-SPLITSTRIP': 'the list converters of add-metadata strip blanks on '
                     'both sides of every element.',
    'AG-ADJHEADER': 'from_adjacency recognises exactly the documented '
                    'header line.',
})


def rule_squeeze(repo, col, rels=(TABLE,)):
    rule = 'TA-SQUEEZE'
    n = 0
    for rel, q, fn in repo.all_functions():
        if rel not in rels or isinstance(fn, ast.Lambda):
            continue
        for c in body_walk(fn):
            if isinstance(c, ast.Call) and (call_name(c) or '').split(
                    '.')[-1] == 'squeeze' and not any(
                    k.arg == 'axis' for k in c.keywords) and len(
                    c.args) <= 1:
                n += 1
                src = unparse(fn, 50000)
                handled = '(1, 1)' in src or 'shape == ()' in src or \
                    '.ndim' in src or 'reshape(1)' in src
                col.check(handled, rule, rel, q, 'squeeze@%d' % n, c,
                          'the one-element case is handled here',
                          '`%s`: a 1 x 1 vector becomes a 0-d array, which '
                          'cannot be iterated (a table with a single '
                          'sample / observation)' % unparse(c, 50))
    col.ok(rule, TABLE, '<file>', 'scan', None, '%d squeeze calls' % n)


def rule_parsed_ids(repo, col):
    rule = 'SB-PARSEDIDS'
    q = 'Table.from_tsv'
    if not repo.has_func(TABLE, q):
        return
    fn = repo.func(TABLE, q)
    ctors = [c for c in ast.walk(fn) if isinstance(c, ast.Call) and
             call_name(c) in ('Table', 'cls')]
    for i, c in enumerate(ctors):
        a = c.args[1] if len(c.args) > 1 else kwarg(c, 'observation_ids')
        lit_empty = isinstance(a, (ast.List, ast.Tuple)) and not a.elts
        col.check(not lit_empty, rule, TABLE, q, 'ctor@%d' % (i + 1), c,
                  'observation ids come from the text',
                  '`%s` builds a table without observation ids on a path '
                  'where the text may name some (an all-zero table keeps '
                  'its ids)' % unparse(c, 50))


def rule_new_axis_metadata(repo, col):
    rule = 'OR-METAUPD'
    q = 'Table.add_metadata'
    if not repo.has_func(TABLE, q):
        return
    fn = repo.func(TABLE, q)
    n = 0
    for a in body_walk(fn):
        if isinstance(a, ast.Assign) and any(
                isinstance(t, ast.Attribute) and t.attr in (
                    '_sample_metadata', '_observation_metadata')
                for t in a.targets) and isinstance(a.value, ast.Call) and \
                call_name(a.value) == 'tuple' and a.value.args:
            n += 1
            g = a.value.args[0]
            per_id = isinstance(g, (ast.GeneratorExp, ast.ListComp)) and \
                'ids' in unparse(g.generators[0].iter, 80)
            if isinstance(g, ast.Name):
                vals = [x.value for x in body_walk(fn) if isinstance(
                    x, ast.Assign) and any(isinstance(t, ast.Name) and
                                           t.id == g.id for t in x.targets)]
                per_id = bool(vals) and all(
                    isinstance(v, (ast.GeneratorExp, ast.ListComp)) and
                    'ids' in unparse(v.generators[0].iter, 80) for v in vals)
            col.check(per_id, rule, TABLE, q, 'one-entry-per-id@%d' % n, a,
                      'one entry per id of the axis',
                      '`%s` does not build the entries by walking the ids '
                      'of the axis: ids named in the mapping but absent '
                      'from the axis add entries' % unparse(a.value, 60))


def rule_flag_accumulated(repo, col, funcs=((TABLE, 'Table.concat'),
                                            (TABLE, 'Table.merge'),
                                            (TABLE, 'Table.to_json'))):
    rule = 'SB-FLAGACC'
    n = 0
    for rel, q in funcs:
        if not repo.has_func(rel, q):
            continue
        fn = repo.func(rel, q)
        body = list(fn.body)
        for i, loop in enumerate(body):
            if not isinstance(loop, ast.For):
                continue
            before = {t.id for st in body[:i] if isinstance(st, ast.Assign)
                      and isinstance(st.value, ast.Constant) and isinstance(
                          st.value.value, bool) for t in st.targets
                      if isinstance(t, ast.Name)}
            after_used = {x.id for st in body[i + 1:] for x in ast.walk(st)
                          if isinstance(x, ast.Name)}
            for st in loop.body:
                if isinstance(st, ast.Assign) and len(st.targets) == 1 and \
                        isinstance(st.targets[0], ast.Name) and \
                        st.targets[0].id in before & after_used and \
                        not isinstance(st.value, ast.Constant) and \
                        st.targets[0].id not in _names(st.value):
                    n += 1
                    col.bad(rule, rel, q, 'overwritten:%s' % st.targets[0].id,
                            st, '`%s` is assigned afresh in every '
                            'iteration and read after the loop: only the '
                            'last element decides (it is neither or-ed '
                            'with its previous value nor set under a '
                            'condition)' % unparse(st, 50))
    col.ok(rule, TABLE, '<scope>', 'scan', None,
           '%d per-iteration flag overwrites' % n)


def rule_partition_yields_all(repo, col):
    rule = 'SB-YIELDALL'
    q = 'Table.partition'
    if not repo.has_func(TABLE, q):
        return
    fn = repo.func(TABLE, q)
    for loop in body_walk(fn):
        if isinstance(loop, ast.For) and any(
                isinstance(x, ast.Yield) for x in ast.walk(loop)):
            skips = [x for st in loop.body for x in ast.walk(st)
                     if isinstance(x, (ast.Continue, ast.Break))]
            guarded = [st for st in loop.body if isinstance(st, ast.If) and
                       any(isinstance(x, ast.Yield) for x in ast.walk(st))]
            col.check(not skips and not guarded, rule, TABLE, q,
                      'every-part', skips[0] if skips else (
                          guarded[0] if guarded else loop),
                      'every part formed is handed out',
                      'a part can be skipped before it is yielded: its ids '
                      'are in no part of the partition')
    # the three per-part lists grow together
    for loop in body_walk(fn):
        if not isinstance(loop, ast.For):
            continue
        apps = [(st, c) for st in loop.body for c in ast.walk(st)
                if isinstance(c, ast.Call) and isinstance(
                    c.func, ast.Attribute) and c.func.attr == 'append' and
                isinstance(c.func.value, ast.Subscript) and isinstance(
                    c.func.value.slice, ast.Constant)]
        if len(apps) >= 2:
            cond = [st for st, c in apps if not (isinstance(st, ast.Expr))]
            col.check(not cond, rule, TABLE, q, 'parallel-appends',
                      cond[0] if cond else loop,
                      'ids, vectors and metadata are appended together',
                      'one of the per-part lists is appended under a '
                      'condition (`%s`): the lists of a part get out of '
                      'step' % (unparse(cond[0].test, 40) if cond and
                                isinstance(cond[0], ast.If) else ''))


def rule_kernel_unconditional(repo, col):
    from .flow import reached_under
    rule = 'SB-KERNELALWAYS'
    q = 'Table.subsample'
    if not repo.has_func(TABLE, q):
        return
    fn = repo.func(TABLE, q)
    par = {}
    for p in ast.walk(fn):
        for c in ast.iter_child_nodes(p):
            par[id(c)] = p
    for c in body_walk(fn):
        if isinstance(c, ast.Call) and call_name(c) == 'subsample':
            cur, extra = c, []
            while id(cur) in par and par[id(cur)] is not fn:
                p = par[id(cur)]
                if isinstance(p, ast.If) and cur is not p.test and \
                        'by_id' not in _names(p.test):
                    extra.append(p)
                cur = p
            col.check(not extra, rule, TABLE, q, 'kernel-unconditional', c,
                      'the kernel runs whenever counts are subsampled',
                      'the kernel call is skipped unless `%s`: vectors '
                      'below the depth are then kept whole'
                      % (unparse(extra[0].test, 60) if extra else ''))


def rule_cleanup_unconditional(repo, col):
    """SB-KERNELALWAYS (clean-up): once the kernel has run, the filter that
    drops emptied vectors runs on every path to the return, for the
    subsampled axis and for the other one (a vector that was empty before
    the draw has to go even when the draw emptied nothing)."""
    from .cfg import CFG
    rule = 'SB-KERNELALWAYS'
    q = 'Table.subsample'
    if not repo.has_func(TABLE, q):
        return
    fn = repo.func(TABLE, q)
    cfg = CFG(fn)
    kern = [n for n in cfg.stmt_nodes() if n.kind == 'stmt' and any(
        isinstance(c, ast.Call) and call_name(c) == 'subsample'
        for c in ast.walk(n.stmt)) and not isinstance(
        n.stmt, (ast.If, ast.For, ast.While, ast.Try, ast.With))]
    filt = [n for n in cfg.stmt_nodes() if n.kind == 'stmt' and any(
        isinstance(c, ast.Call) and isinstance(c.func, ast.Attribute) and
        c.func.attr in ('filter', 'remove_empty') for c in ast.walk(n.stmt))
        and not isinstance(n.stmt, (ast.If, ast.For, ast.While, ast.Try,
                                    ast.With))]
    if not kern or not filt:
        col.unknown(rule, TABLE, q, 'cleanup', fn,
                    'kernel call / clean-up filter not located')
        return
    # group the filters by their axis argument
    by_axis = {}
    for n in filt:
        for c in ast.walk(n.stmt):
            if isinstance(c, ast.Call) and isinstance(
                    c.func, ast.Attribute) and c.func.attr in (
                    'filter', 'remove_empty'):
                a = next((k_.value for k_ in c.keywords
                          if k_.arg == 'axis'), None)
                by_axis.setdefault(unparse(a, 40) if a is not None
                                   else 'sample', set()).add(n)
    for k in kern:
        after = {ax: {n for n in ns if cfg.path_avoiding(k, n, set()) or
                      n is k} for ax, ns in by_axis.items()}
        after = {ax: ns for ax, ns in after.items() if ns}
        col.soft(len(after) >= 2, rule, TABLE, q, 'cleanup-both-axes',
                 k.stmt, 'clean-up filters on %d axes follow the kernel'
                 % len(after), 'fewer than two clean-up filters follow the '
                 'kernel')
        for ax, ns in sorted(after.items()):
            leak = cfg.path_avoiding(k, cfg.exit, ns)
            col.check(not leak, rule, TABLE, q, 'cleanup-always:%s' % ax,
                      sorted(ns, key=lambda n: n.stmt.lineno)[0].stmt,
                      'runs on every path from the kernel to the return',
                      'the clean-up filter over axis=%s can be skipped '
                      'after the kernel ran: vectors that are empty stay '
                      'in the result' % ax)


def rule_rank_methods(repo, col):
    rule = 'AG-RANKMETHODS'
    q = 'Table.rankdata'
    if not repo.has_func(TABLE, q):
        return
    fn = repo.func(TABLE, q)
    want = {'average', 'min', 'max', 'dense', 'ordinal'}
    n = 0
    for c in ast.walk(fn):
        if isinstance(c, ast.Compare) and isinstance(
                c.ops[0], (ast.In, ast.NotIn)) and 'method' in _names(
                c.left) and isinstance(c.comparators[0],
                                       (ast.Tuple, ast.List, ast.Set)):
            have = {const_str_(e) for e in c.comparators[0].elts}
            n += 1
            col.check(want <= have, rule, TABLE, q, 'whitelist', c,
                      'every scipy method is listed',
                      'the method whitelist lacks %s' % sorted(want - have))
    col.ok(rule, TABLE, q, 'scan', fn, '%d method whitelists' % n)
    # norm: the callback is a plain division by the vector's total
    q = 'Table.norm'
    if repo.has_func(TABLE, q):
        fn = repo.func(TABLE, q)
        for d in ast.walk(fn):
            if isinstance(d, ast.FunctionDef) and d is not fn:
                rets = [r for r in ast.walk(d) if isinstance(r, ast.Return)]
                bad = [r for r in rets if not (
                    isinstance(r.value, ast.BinOp) and isinstance(
                        r.value.op, ast.Div))]
                handlers = [h for h in ast.walk(d)
                            if isinstance(h, ast.ExceptHandler)]
                col.check(bool(rets) and not bad and not handlers,
                          'TA-RECIPROCAL', TABLE, q, 'plain-division',
                          (bad or handlers or [d])[0],
                          'every vector is divided by its total',
                          'the norm callback does not return value / total '
                          'on every path (`%s`): some vectors are handed '
                          'back un-normalised' % (
                              unparse((bad or handlers)[0], 50)
                              if (bad or handlers) else ''))


def rule_file_ids(repo, col):
    rule = 'SB-FILEIDS'
    q = 'Table.from_hdf5'
    if not repo.has_func(TABLE, q):
        return
    fn = repo.func(TABLE, q)
    for d in ast.walk(fn):
        if isinstance(d, ast.FunctionDef) and d.name == '_get_ids':
            src_p = d.args.args[0].arg if d.args.args else None
            for r in ast.walk(d):
                if isinstance(r, ast.Return) and isinstance(
                        r.value, ast.Tuple) and r.value.elts:
                    e = r.value.elts[0]
                    vals = [e]
                    if isinstance(e, ast.Name):
                        vals = [a.value for a in ast.walk(d) if isinstance(
                            a, ast.Assign) and any(
                            isinstance(t, ast.Name) and t.id == e.id
                            for t in a.targets)]
                    ok = bool(vals) and all(
                        isinstance(v, ast.Subscript) and
                        dotted(v.value) == src_p for v in vals)
                    col.check(ok, rule, TABLE, q, 'ids-from-file', r,
                              'the returned ids are a selection of the '
                              'stored ids',
                              'the ids handed back are `%s`, not a '
                              'selection of the stored ids: the labels '
                              'follow the request while data and metadata '
                              'follow the file' % ' / '.join(
                                  unparse(v, 30) for v in vals))


def rule_filter_order(repo, col):
    from .cfg import CFG
    rule = 'OR-FILTERORDER'
    q = 'parse_biom_table'
    if not repo.has_func(PARSE, q):
        return
    fn = repo.func(PARSE, q)
    nested = {d.name: d for d in ast.walk(fn)
              if isinstance(d, ast.FunctionDef) and d is not fn}
    cfg = CFG(fn)
    sub = emp = None
    for s_ in cfg.stmt_nodes():
        if s_.kind != 'stmt':
            continue
        for c in ast.walk(s_.stmt):
            if isinstance(c, ast.Call) and isinstance(
                    c.func, ast.Attribute) and c.func.attr == 'filter' and \
                    c.args and isinstance(c.args[0], ast.Name) and \
                    c.args[0].id in nested:
                body = unparse(nested[c.args[0].id], 400)
                if ' in ' in body and 'any' not in body:
                    sub = s_
                elif 'any' in body or 'sum' in body:
                    emp = s_
    if sub is None or emp is None:
        col.unknown(rule, PARSE, q, 'order', fn, 'filters not recognised')
        return
    col.check(cfg.dominates(sub, emp), rule, PARSE, q, 'order', emp.stmt,
              'ids are selected first, emptied vectors dropped afterwards',
              'the empty-vector clean-up runs before the id filter: '
              'vectors emptied by the subsetting survive')


def rule_errmsg_repr(repo, col):
    rule = 'AG-ERRMSG'
    q = 'Table._cast_metadata'
    if not repo.has_func(TABLE, q):
        return
    fn = repo.func(TABLE, q)
    for r in ast.walk(fn):
        if isinstance(r, ast.Raise) and r.exc is not None:
            for b in ast.walk(r.exc):
                if isinstance(b, ast.BinOp) and isinstance(b.op, ast.Mod) \
                        and isinstance(b.left, ast.Constant):
                    safe = isinstance(b.right, (ast.Tuple, ast.Call,
                                                ast.Constant))
                    col.check(safe, rule, TABLE, q, 'message-operand', b,
                              'the operand is wrapped (repr / tuple)',
                              '`%s`: an entry that is a tuple is taken for '
                              'the argument tuple of %% and raises '
                              'TypeError instead of the table error'
                              % unparse(b, 60))


def rule_reduce_all(repo, col):
    rule = 'SB-REDUCEALL'
    q = 'Table.reduce'
    if not repo.has_func(TABLE, q):
        return
    fn = repo.func(TABLE, q)
    bad = [c for c in ast.walk(fn) if (isinstance(c, ast.Attribute) and
                                       c.attr in ('data', 'nnz')) or (
        isinstance(c, ast.keyword) and c.arg == 'dense' and isinstance(
            c.value, ast.Constant) and c.value.value is False)]
    col.check(not bad, rule, TABLE, q, 'dense-vectors', bad[0] if bad
              else fn, 'whole vectors are folded',
              'the fold runs over the stored entries only: for a reducer '
              'that is not a sum the zeros of a vector matter')


def rule_export_asis(repo, col):
    rule = 'TA-EXPORTASIS'
    q = 'Table.metadata_to_dataframe'
    if not repo.has_func(TABLE, q):
        return
    fn = repo.func(TABLE, q)
    bad = [c for c in ast.walk(fn) if isinstance(c, ast.Call) and (
        call_name(c) or '').split('.')[-1] in (
        'to_numeric', 'infer_objects', 'convert_dtypes', 'astype')]
    col.check(not bad, rule, TABLE, q, 'no-inference', bad[0] if bad
              else fn, 'values are exported as stored',
              '`%s` re-types the exported metadata: text such as "007" or '
              '"1e3" loses its spelling' % (unparse(bad[0], 50)
                                            if bad else ''))


def rule_quotes_everywhere(repo, col):
    rule = 'TA-QUOTES'
    q = 'MetadataMap.from_file'
    if not repo.has_func(PARSE, q):
        return
    fn = repo.func(PARSE, q)
    n = 0
    for t in ast.walk(fn):
        if isinstance(t, ast.If) and 'strip_quotes' in _names(t.test):
            for d in ast.walk(ast.Module(body=t.body, type_ignores=[])):
                if isinstance(d, ast.FunctionDef):
                    n += 1
                    src = unparse(d, 400)
                    col.check(".replace('\"', '')" in src, rule, PARSE, q,
                              'quotes@%d' % n, d,
                              'every quote of the field is removed',
                              'the quote-removing helper is `%s`: quotes '
                              'inside a field, or enclosing quotes with '
                              'blanks outside them, survive'
                              % src[-60:])
    if not n:
        col.unknown(rule, PARSE, q, 'quotes', fn, 'helpers not found')


def rule_split_strips(repo, col):
    from .consteval import ConstEval, UNKNOWN, _FALLTHROUGH
    rule = 'AG-SPLITSTRIP'
    rel = 'biom/cli/metadata_adder.py'
    ce = ConstEval(repo)
    for q, arg, want in (('_split_on_semicolons', ' a ; b;c ',
                          ['a', 'b', 'c']),
                         ('_split_on_semicolons_and_pipes', 'a ; b | c',
                          [['a', 'b'], ['c']])):
        if not repo.has_func(rel, q):
            continue
        fn = repo.func(rel, q)
        p = fn.args.args[0].arg
        r = ce.run_body(fn.body, rel, {p: arg})
        if r is UNKNOWN or r is _FALLTHROUGH:
            col.unknown(rule, rel, q, 'strips-both-sides', fn,
                        'converter not evaluable')
        else:
            col.check(r == want, rule, rel, q, 'strips-both-sides', fn,
                      'blanks around every element are removed',
                      '%r is converted to %r, expected %r' % (arg, r, want))


def rule_adjacency_header(repo, col):
    rule = 'AG-ADJHEADER'
    q = 'Table.from_adjacency'
    if not repo.has_func(TABLE, q):
        return
    fn = repo.func(TABLE, q)
    ok = any(isinstance(c, ast.Compare) and any(
        isinstance(x, (ast.List, ast.Tuple)) and
        [const_str_(e) for e in x.elts] == ['#OTU ID', 'SampleID', 'value']
        for x in ast.walk(c)) for c in ast.walk(fn))
    col.check(ok, rule, TABLE, q, 'exact-header', fn,
              'the header is recognised by its exact text',
              'the first line is no longer compared with the documented '
              'header: a record whose observation id starts with "#" is '
              'taken for a header and dropped')


# ===========================================================================
# rules for three documented misses of round 8 (C16-O, C02-P, C06-P)
# ===========================================================================
RULE_TEXT.update({
    'AX-RAWFORMAT': 'a CSR (CSC) matrix assembled from raw (data, indices, '
                    'indptr) arrays takes the index arrays only from '
                    'objects whose format is pinned to CSR (CSC) on every '
                    'path: the `indices` of a CSC vector are row numbers, '
                    'those of a CSR vector column numbers.',
    'TA-SCATTER': 'stored entries are never scattered by fancy assignment '
                  '`a[x.indices] = x.data`: an index stored in several '
                  'pieces (legal for the matrices the constructor accepts) '
                  'keeps only the last piece instead of their sum.',
    'TA-FILTERMAX': 'max()/min() over a selection filtered by a test on a '
                    'caller-supplied argument has a default or is guarded: '
                    'the selection may be empty for a valid call.',
})


def _reaching_defs(fn, name, at):
    """(assignments to `name` reaching the statement of `at`,
    whether a binding other than an assignment - parameter, loop target,
    with-item - reaches it too)."""
    from .cfg import CFG
    cfg = CFG(fn)
    here = [c for c in cfg.stmt_nodes() if c.kind == 'stmt' and any(
        x is at for x in ast.walk(c.stmt)) and not isinstance(
        c.stmt, (ast.For, ast.While, ast.If, ast.With, ast.Try))]
    if not here:
        return [], True
    defs = {}
    for c in cfg.stmt_nodes():
        st = c.stmt
        if c.kind == 'stmt' and isinstance(st, ast.Assign) and any(
                isinstance(t, ast.Name) and t.id == name
                for t in st.targets):
            defs[c] = st
    out, seen, stack, other = [], set(), list(cfg.pred[here[0]]), False
    while stack:
        c = stack.pop()
        if c in seen:
            continue
        seen.add(c)
        if c in defs:
            out.append(defs[c])
            continue
        if c is cfg.entry:
            other = True
            continue
        stack.extend(cfg.pred[c])
    return out, other


def _pinned_kind(e):
    """'csr' / 'csc' when expression `e` yields that format for sure."""
    if isinstance(e, ast.Call):
        name = (call_name(e) or '').split('.')[-1]
        if name in ('tocsr', 'csr_matrix', 'csr_array'):
            return 'csr'
        if name in ('tocsc', 'csc_matrix', 'csc_array'):
            return 'csc'
        if name in ('astype', 'copy') and isinstance(e.func, ast.Attribute):
            return _pinned_kind(e.func.value)
    return None


def _feeding_raw_reads(fn, expr, depth=0, seen=None):
    """`<Name>.indices` / `<Name>.indptr` reads whose value flows into
    `expr` (through names, append/extend, element stores)."""
    seen = seen if seen is not None else set()
    out = []
    for n in ast.walk(expr):
        if isinstance(n, ast.Attribute) and n.attr in (
                'indices', 'indptr') and isinstance(n.value, ast.Name):
            out.append(n)
    if depth > 4:
        return out
    for n in ast.walk(expr):
        if not isinstance(n, ast.Name) or n.id in seen:
            continue
        seen.add(n.id)
        for s in body_walk(fn):
            if isinstance(s, ast.Assign) and any(
                    isinstance(t, ast.Name) and t.id == n.id or
                    isinstance(t, ast.Subscript) and
                    dotted(t.value) == n.id for t in s.targets):
                out += _feeding_raw_reads(fn, s.value, depth + 1, seen)
            elif isinstance(s, ast.Call) and isinstance(
                    s.func, ast.Attribute) and s.func.attr in (
                    'append', 'extend', 'insert') and dotted(
                    s.func.value) == n.id:
                for a in s.args:
                    out += _feeding_raw_reads(fn, a, depth + 1, seen)
    return out


def rule_raw_format(repo, col, rels=(TABLE,)):
    rule = 'AX-RAWFORMAT'
    n = 0
    for rel, q, fn in repo.all_functions():
        if rel not in rels or isinstance(fn, ast.Lambda):
            continue
        for c in body_walk(fn):
            if not isinstance(c, ast.Call) or not c.args:
                continue
            kind = _pinned_kind(c)
            t = c.args[0]
            if kind is None or not (isinstance(t, ast.Tuple) and
                                    len(t.elts) == 3):
                continue
            n += 1
            role = 'raw-%s@%d' % (kind, n)
            has_shape = any(k.arg == 'shape' for k in c.keywords) or \
                len(c.args) > 1
            col.check(has_shape, rule, rel, q, 'raw-shape@%d' % n, c,
                      'the shape is given',
                      '`%s` leaves the shape to scipy, which takes the '
                      'highest stored index for the width: trailing '
                      'vectors without stored values are lost (or the '
                      'construction fails for an all-zero matrix)'
                      % unparse(c, 60))
            reads, uniq = [], set()
            for r in _feeding_raw_reads(fn, t.elts[1]) + \
                    _feeding_raw_reads(fn, t.elts[2]):
                if id(r) not in uniq:
                    uniq.add(id(r))
                    reads.append(r)
            if not reads:
                col.ok(rule, rel, q, role, c,
                       'index arrays not taken from another sparse object')
                continue
            for r in reads:
                defs, other = _reaching_defs(fn, r.value.id, r)
                kinds = {_pinned_kind(d.value) for d in defs}
                if defs and not other and kinds == {kind}:
                    col.ok(rule, rel, q, role, r, 'format pinned to %s'
                           % kind)
                elif (kinds - {None, kind}) or (defs and kinds & {
                        'csr', 'csc'}):
                    # some path pins the format and another one does not
                    # (or pins the other one): the code itself says the
                    # object may arrive in several formats
                    col.bad(rule, rel, q, 'mixed-format-read', r,
                            '`%s` feeds a raw %s matrix but `%s` is only '
                            'converted on some paths: for a %s vector the '
                            'array holds %s numbers' % (
                                unparse(r, 40), kind.upper(), r.value.id,
                                'CSC' if kind == 'csr' else 'CSR',
                                'row' if kind == 'csr' else 'column'))
                else:
                    col.unknown(rule, rel, q, role, r,
                                'format of `%s` not resolved' % r.value.id)
    col.ok(rule, TABLE, '<file>', 'scan', None,
           '%d matrices assembled from raw arrays' % n)


def rule_scatter(repo, col, rels=(TABLE,)):
    rule = 'TA-SCATTER'
    n = 0
    for rel, q, fn in repo.all_functions():
        if rel not in rels or isinstance(fn, ast.Lambda):
            continue
        src = None
        for s in body_walk(fn):
            if isinstance(s, ast.Assign):
                tgts, val = s.targets, s.value
            elif isinstance(s, ast.AugAssign):
                tgts, val = [s.target], s.value
            else:
                continue
            for t in tgts:
                if not isinstance(t, ast.Subscript):
                    continue
                n += 1
                idx = [a for a in ast.walk(t.slice) if isinstance(
                    a, ast.Attribute) and a.attr == 'indices']
                if not idx:
                    continue
                owner = dotted(idx[0].value)
                vals = [a for a in ast.walk(val) if isinstance(
                    a, ast.Attribute) and a.attr == 'data' and
                    dotted(a.value) == owner]
                if not vals or owner is None:
                    continue
                src = src or unparse(fn, 50000)
                merged = ('%s.sum_duplicates()' % owner) in src or \
                    ('%s.has_canonical_format' % owner) in src
                col.check(merged, rule, rel, q, 'scatter', s,
                          'duplicates merged first',
                          '`%s` writes the stored pieces of `%s` by fancy '
                          'assignment: a position stored in several pieces '
                          'keeps the last piece, every other accessor '
                          'reports their sum' % (unparse(s, 60), owner))
    col.ok(rule, TABLE, '<file>', 'scan', None,
           '%d element stores examined' % n)


def rule_filtered_extreme(repo, col, rels=(TABLE,)):
    rule = 'TA-FILTERMAX'
    n = 0
    for rel, q, fn in repo.all_functions():
        if rel not in rels or isinstance(fn, ast.Lambda):
            continue
        params = {a.arg for a in fn.args.args + fn.args.kwonlyargs} - {
            'self', 'cls'}
        comps = {}
        for s in body_walk(fn):
            if isinstance(s, ast.Assign) and len(s.targets) == 1 and \
                    isinstance(s.targets[0], ast.Name) and isinstance(
                    s.value, (ast.ListComp, ast.GeneratorExp, ast.SetComp)):
                comps.setdefault(s.targets[0].id, []).append(s.value)
        for c in body_walk(fn):
            if not (isinstance(c, ast.Call) and isinstance(c.func, ast.Name)
                    and c.func.id in ('max', 'min') and len(c.args) == 1):
                continue
            if any(k.arg == 'default' for k in c.keywords):
                continue
            n += 1
            a = c.args[0]
            cands = [a]
            for x in ast.walk(a):
                if isinstance(x, ast.Name) and len(comps.get(x.id, [])) == 1:
                    cands.append(comps[x.id][0])
            names = set()
            filt = []
            for cand in cands:
                for x in ast.walk(cand):
                    if isinstance(x, (ast.ListComp, ast.GeneratorExp,
                                      ast.SetComp)):
                        for g in x.generators:
                            for t in g.ifs:
                                filt.append(t)
                        for y in ast.walk(x):
                            if isinstance(y, ast.Name) and len(
                                    comps.get(y.id, [])) == 1 and \
                                    comps[y.id][0] not in cands:
                                cands.append(comps[y.id][0])
                if isinstance(cand, ast.Name):
                    names.add(cand.id)
            names |= {x.id for x in ast.walk(a) if isinstance(x, ast.Name)
                      and x.id in comps}
            on_param = [t for t in filt if any(
                isinstance(y, ast.Name) and y.id in params
                for y in ast.walk(t))]
            role = 'extreme@%d' % n
            if not on_param:
                col.ok(rule, rel, q, role, c, 'not filtered by an argument')
                continue
            from .flow import reached_under  # noqa: F401
            guarded = False
            par = {}
            for p in ast.walk(fn):
                for ch in ast.iter_child_nodes(p):
                    par[ch] = p
            x = c
            while x in par:
                p = par[x]
                if isinstance(p, (ast.If, ast.IfExp)) and any(
                        isinstance(y, ast.Name) and y.id in names
                        for y in ast.walk(p.test)):
                    guarded = True
                x = p
            col.check(guarded, rule, rel, q, 'filtered-extreme', c,
                      'guarded by a test of the selection',
                      '`%s` ranges over a selection filtered by `%s`: a '
                      'valid call for which nothing passes the filter '
                      'raises ValueError (no default, no guard)' % (
                          unparse(c, 60), unparse(on_param[0], 40)))
    col.ok(rule, TABLE, '<file>', 'scan', None,
           '%d max/min reductions examined' % n)


# ===========================================================================
# ninth round of seeded changes
# ===========================================================================
RULE_TEXT['OR-SORTEDHAY'] = (
    'np.searchsorted / bisect over an array of ids is only handed an array '
    'in ascending code-point order (sorted() without key, np.sort, '
    'np.unique, union1d / intersect1d): an order made by natsort or a key '
    'function is not the order the bisection compares with.')

_ASC = {'sorted', 'sort', 'unique', 'union1d', 'intersect1d', 'setdiff1d',
        'arange', 'cumsum'}
_OTHER_ORDER = {'natsort', 'natsorted', 'argsort', 'lexsort', 'reversed',
                'shuffle', 'permutation'}


def _order_of(fn, e, depth=0, seen=None):
    """'asc' / 'other' / None for the order of the sequence `e`."""
    seen = seen if seen is not None else set()
    if e is None or depth > 6:
        return None
    if isinstance(e, ast.Call):
        name = (call_name(e) or '').split('.')[-1]
        if name == 'sorted':
            return 'other' if any(k.arg in ('key', 'reverse')
                                  for k in e.keywords) else 'asc'
        if name in _ASC:
            return 'asc'
        if name in _OTHER_ORDER:
            return 'other'
        if name in ('array', 'asarray', 'list', 'tuple', 'astype', 'copy') \
                and (e.args or isinstance(e.func, ast.Attribute)):
            inner = e.args[0] if e.args and name != 'astype' else (
                e.func.value if isinstance(e.func, ast.Attribute) else None)
            if name == 'copy' and isinstance(e.func, ast.Attribute):
                inner = e.func.value
            return _order_of(fn, inner, depth + 1, seen)
        return None
    if isinstance(e, ast.Attribute) and e.attr == 'indptr':
        return 'asc'
    if isinstance(e, ast.Name):
        if e.id in seen:
            return None
        seen.add(e.id)
        defs = [n.value for n in body_walk(fn) if isinstance(n, ast.Assign)
                and any(isinstance(t, ast.Name) and t.id == e.id
                        for t in n.targets)]
        got = {_order_of(fn, d, depth + 1, seen) for d in defs}
        if got == {'asc'}:
            return 'asc'
        if 'other' in got:
            return 'other'
        return None
    return None


def rule_sorted_haystack(repo, col, rels=(TABLE,)):
    rule = 'OR-SORTEDHAY'
    n = 0
    for rel, q, fn in repo.all_functions():
        if rel not in rels or isinstance(fn, ast.Lambda):
            continue
        for c in body_walk(fn):
            if not isinstance(c, ast.Call):
                continue
            name = (call_name(c) or '').split('.')[-1]
            if name not in ('searchsorted', 'bisect_left', 'bisect_right',
                            'bisect'):
                continue
            if isinstance(c.func, ast.Attribute) and dotted(
                    c.func.value) not in ('np', 'numpy', 'bisect'):
                hay = c.func.value          # A.searchsorted(v)
            else:
                hay = c.args[0] if c.args else None
            if hay is None or any(isinstance(x, ast.Attribute) and
                                  x.attr == 'indices'
                                  for x in ast.walk(hay)):
                continue                    # OR-SORTED decides those
            n += 1
            o = _order_of(fn, hay)
            if o == 'other':
                col.bad(rule, rel, q, 'haystack-order', c,
                        '`%s` bisects an array that was put in another '
                        'order than the ascending code-point order (natsort '
                        '/ key function / permutation): ids whose natural '
                        'and code-point order differ (S9 / S10) get wrong '
                        'positions' % unparse(c, 70))
            elif o == 'asc':
                col.ok(rule, rel, q, 'haystack-order', c, 'ascending')
            else:
                col.unknown(rule, rel, q, 'haystack-order', c,
                            'order of the searched array not resolved')
    col.ok(rule, TABLE, '<file>', 'scan', None,
           '%d bisections over arrays other than stored indices' % n)


RULE_TEXT['OR-ROWCOUNT'] = (
    'in the classic-text reader every line that contributes an observation '
    'id advances the row counter its counts are stored under before the '
    'next line is read (an all-zero line is an observation too).')


def rule_row_counter(repo, col):
    from .cfg import CFG
    rule = 'OR-ROWCOUNT'
    q = 'Table._extract_data_from_tsv'
    if not repo.has_func(TABLE, q):
        return
    fn = repo.func(TABLE, q)
    loop = None
    for s in body_walk(fn):
        if isinstance(s, ast.For) and any(
                isinstance(c, ast.Call) and isinstance(c.func, ast.Attribute)
                and c.func.attr == 'append' and
                'ids' in (dotted(c.func.value) or '')
                for b in s.body for c in ast.walk(b)):
            loop = s
    if loop is None:
        col.unknown(rule, TABLE, q, 'shape', fn, 'data loop not recognised')
        return
    # the row coordinate of the stored triples
    rowvars = set()
    for c in ast.walk(loop):
        if isinstance(c, ast.Call) and isinstance(c.func, ast.Attribute) and \
                c.func.attr == 'append' and c.args and isinstance(
                c.args[0], (ast.List, ast.Tuple)) and len(
                c.args[0].elts) == 3 and isinstance(c.args[0].elts[0],
                                                    ast.Name):
            rowvars.add(c.args[0].elts[0].id)
    incs = [s for s in ast.walk(loop) if isinstance(s, ast.AugAssign) and
            isinstance(s.target, ast.Name) and s.target.id in rowvars and
            isinstance(s.op, ast.Add)]
    if len(rowvars) != 1 or not incs:
        # e.g. the row number comes from enumerate: nothing to pair
        col.unknown(rule, TABLE, q, 'counter', loop,
                    'no explicitly advanced row counter')
        return
    cfg = CFG(fn)
    head = cfg.node(loop)
    id_nodes = [n for n in cfg.stmt_nodes() if n.kind == 'stmt' and
                isinstance(n.stmt, ast.Expr) and any(
                    isinstance(c, ast.Call) and isinstance(
                        c.func, ast.Attribute) and c.func.attr == 'append'
                    and 'ids' in (dotted(c.func.value) or '')
                    for c in ast.walk(n.stmt)) and any(
                    x is n.stmt for x in ast.walk(loop))]
    inc_nodes = {n for n in cfg.stmt_nodes() if n.kind == 'stmt' and
                 n.stmt in incs}
    if head is None or not id_nodes or not inc_nodes:
        col.unknown(rule, TABLE, q, 'counter', loop,
                    'loop statements not located in the CFG')
        return
    for k, a in enumerate(id_nodes):
        leak = cfg.path_avoiding(a, head, inc_nodes)
        col.check(not leak, rule, TABLE, q, 'advance#%d' % (k + 1), a.stmt,
                  'the counter is advanced on every path to the next line',
                  'after `%s` the next line can be reached without '
                  'advancing `%s` (a `continue` / branch skips it): the '
                  'counts of every later observation are stored one row '
                  'too high' % (unparse(a.stmt, 40), sorted(rowvars)[0]))


def rule_stored_extreme_guarded(repo, col, rels=(TABLE,)):
    """TA-EMPTYREDUCE, every other function: `X.data.min()` / `.max()`
    ranges over the stored values only, and a matrix may have none (an
    all-zero table, an axis of length 0)."""
    rule = 'TA-EMPTYREDUCE'
    n = 0
    for rel, q, fn in repo.all_functions():
        if rel not in rels or isinstance(fn, ast.Lambda) or q in (
                'Table.min', 'Table.max'):
            continue
        par = None
        for c in body_walk(fn):
            if not (isinstance(c, ast.Call) and isinstance(
                    c.func, ast.Attribute) and c.func.attr in ('min', 'max')
                    and isinstance(c.func.value, ast.Attribute) and
                    c.func.value.attr == 'data' and not c.args and not any(
                    k.arg == 'initial' for k in c.keywords)):
                continue
            n += 1
            if par is None:
                par = {}
                for p in ast.walk(fn):
                    for ch in ast.iter_child_nodes(p):
                        par[id(ch)] = p
            cur, guarded = c, False
            while id(cur) in par:
                p = par[id(cur)]
                t = None
                if isinstance(p, (ast.If, ast.IfExp, ast.While)) and \
                        cur is not p.test:
                    t = p.test
                elif isinstance(p, ast.BoolOp) and isinstance(
                        p.op, ast.And) and p.values[0] is not cur:
                    t = ast.BoolOp(op=ast.And(),
                                   values=p.values[:p.values.index(cur)]
                                   if cur in p.values else p.values[:1])
                if t is not None and any(w in unparse(t, 300) for w in (
                        '.size', '.nnz', 'len(', '.getnnz', 'is_empty')):
                    guarded = True
                cur = p
            col.check(guarded, rule, rel, q, 'stored-extreme', c,
                      'only evaluated when there are stored values',
                      '`%s` raises ValueError for a matrix without stored '
                      'values (all-zero table, empty axis): nothing guards '
                      'it' % unparse(c, 40))
    col.ok(rule, TABLE, '<file>', 'stored-extreme-scan', None,
           '%d extremes over stored values outside min/max' % n)


RULE_TEXT['SB-CLITHIN'] = (
    'normalize-table applies exactly the operation it names (Table.norm or '
    'Table.pa) to the table it loaded: no other table-changing method is '
    'called on it, so the command and the method agree on every table.')


def rule_normalize_cli_thin(repo, col):
    from .rules_effects import MUTATORS
    rule = 'SB-CLITHIN'
    rel = 'biom/cli/table_normalizer.py'
    q = '_normalize_table'
    if not repo.has_func(rel, q):
        return
    fn = repo.func(rel, q)
    ps = [a.arg for a in fn.args.args]
    tab = ps[0] if ps else 'table'
    names = {tab}
    for s in body_walk(fn):
        if isinstance(s, ast.Assign) and len(s.targets) == 1 and isinstance(
                s.targets[0], ast.Name) and any(
                isinstance(x, ast.Name) and x.id in names
                for x in ast.walk(s.value)):
            names.add(s.targets[0].id)
    n = 0
    for c in body_walk(fn):
        if isinstance(c, ast.Call) and isinstance(c.func, ast.Attribute) and \
                isinstance(c.func.value, ast.Name) and \
                c.func.value.id in names:
            n += 1
            m = c.func.attr
            changing = (m in MUTATORS or m in (
                'filter', 'remove_empty', 'subsample', 'transform',
                'rankdata', 'collapse', 'sort', 'sort_order', 'head',
                'update_ids', 'del_metadata', 'add_metadata')) and \
                m not in ('norm', 'pa')
            col.check(not changing, rule, rel, q, 'call:%s' % m, c,
                      'the named operation / a read',
                      '`%s` changes the table besides the requested '
                      'normalisation: `biom normalize-table` no longer '
                      'returns what Table.%s returns (e.g. all-zero '
                      'vectors disappear)' % (unparse(c, 50),
                                              'norm / pa'))
    col.soft(n >= 2, rule, rel, q, 'instances', fn, '%d table calls' % n,
             'norm / pa calls not found')


RULE_TEXT['TA-IDSASREAD'] = (
    'from_tsv hands the constructor the ids exactly as the reader took them '
    'from the text: they are not passed through a text transformation '
    '(Unicode normalisation, case folding, stripping, quoting) on the way.')

_ID_KEEPING = {'list', 'tuple', 'array', 'asarray', 'copy'}


def rule_ids_as_read(repo, col):
    rule = 'TA-IDSASREAD'
    q = 'Table.from_tsv'
    if not repo.has_func(TABLE, q):
        return
    fn = repo.func(TABLE, q)
    ctors = [c for c in ast.walk(fn) if isinstance(c, ast.Call) and
             call_name(c) in ('Table', 'cls')]
    n = 0
    for k, c in enumerate(ctors):
        for pos, slot in ((1, 'observation_ids'), (2, 'sample_ids')):
            a = c.args[pos] if len(c.args) > pos else next(
                (kw.value for kw in c.keywords if kw.arg == slot), None)
            if not isinstance(a, ast.Name):
                continue
            n += 1
            defs = [s for s in body_walk(fn) if isinstance(s, ast.Assign) and
                    any(isinstance(x, ast.Name) and x.id == a.id
                        for t in s.targets for x in ast.walk(t))]
            changing = []
            for d in defs:
                v = d.value
                if isinstance(v, ast.Call) and (call_name(v) or '').endswith(
                        '_extract_data_from_tsv'):
                    continue
                if isinstance(v, ast.Call) and (call_name(v) or '').split(
                        '.')[-1] in _ID_KEEPING and v.args and dotted(
                        v.args[0]) == a.id:
                    continue
                if isinstance(v, (ast.List, ast.Tuple)) and not v.elts:
                    continue
                if isinstance(v, (ast.ListComp, ast.GeneratorExp)) or (
                        isinstance(v, ast.Call) and any(
                            isinstance(x, ast.Name) and x.id == a.id
                            for x in ast.walk(v))):
                    changing.append(d)
            col.check(not changing, rule, TABLE, q,
                      'ctor@%d:%s' % (k + 1, slot),
                      changing[0] if changing else c,
                      'the ids are passed on as read',
                      '`%s` rewrites the ids between the reader and the '
                      'constructor: ids that differ only in what the '
                      'rewrite removes collapse or no longer equal the '
                      'exported ones' % (unparse(changing[0], 70)
                                         if changing else ''))
    col.soft(n >= 2, rule, TABLE, q, 'instances', fn, '%d id arguments' % n,
             'constructor id arguments not found')


def rule_filtered_stack(repo, col, rels=(TABLE,), funcs=None):
    """TA-FILTERMAX (stacking): np.hstack / vstack / concatenate raise on an
    empty sequence; one built from a *filtered* selection needs a guard."""
    rule = 'TA-FILTERMAX'
    n = 0
    for rel, q, fn in repo.all_functions():
        if rel not in rels or isinstance(fn, ast.Lambda) or (
                funcs is not None and q not in funcs):
            continue
        comps = {}
        for s in body_walk(fn):
            if isinstance(s, ast.Assign) and len(s.targets) == 1 and \
                    isinstance(s.targets[0], ast.Name) and isinstance(
                    s.value, (ast.ListComp, ast.GeneratorExp)):
                comps.setdefault(s.targets[0].id, []).append(s.value)
        par = None
        for c in body_walk(fn):
            if not (isinstance(c, ast.Call) and (call_name(c) or '').split(
                    '.')[-1] in ('hstack', 'vstack', 'concatenate') and
                    c.args and isinstance(c.args[0], (ast.ListComp,
                                                      ast.GeneratorExp))):
                continue
            n += 1
            comp = c.args[0]
            filt, names = list(comp.generators[0].ifs), set()
            it = comp.generators[0].iter
            if isinstance(it, ast.Name) and len(comps.get(it.id, [])) == 1:
                names.add(it.id)
                filt += comps[it.id][0].generators[0].ifs
            if not filt:
                col.ok(rule, rel, q, 'stack@%d' % n, c, 'not filtered')
                continue
            if par is None:
                par = {}
                for p in ast.walk(fn):
                    for ch in ast.iter_child_nodes(p):
                        par[id(ch)] = p
            cur, guarded = c, False
            while id(cur) in par:
                p = par[id(cur)]
                if isinstance(p, (ast.If, ast.IfExp)) and cur is not p.test \
                        and any(isinstance(y, ast.Name) and y.id in names
                                for y in ast.walk(p.test)):
                    guarded = True
                cur = p
            col.check(guarded, rule, rel, q, 'filtered-stack', c,
                      'guarded by a test of the selection',
                      '`%s` stacks a selection filtered by `%s`: when '
                      'nothing passes the filter (every requested vector '
                      'is empty) the call raises ValueError instead of '
                      'giving an empty result' % (unparse(c, 60),
                                                  unparse(filt[0], 40)))
    col.ok(rule, TABLE, '<file>', 'stack-scan', None,
           '%d stacked comprehensions examined' % n)


RULE_TEXT['AX-UCPAIR'] = (
    'parse_uc keeps, per axis, one id list and one {id: position} lookup '
    'that grow together: a lookup is never updated together with the id '
    'list of the other axis (directly or through a shared helper).')


def rule_uc_pairs(repo, col):
    rule = 'AX-UCPAIR'
    rel = 'biom/parse.py'
    q = 'parse_uc'
    if not repo.has_func(rel, q):
        return
    fn = repo.func(rel, q)

    def block_pairs(f):
        """(lookup name, list name, node) co-updated in one block of f"""
        out = []
        for blk_owner in ast.walk(f):
            for fld in ('body', 'orelse'):
                blk = getattr(blk_owner, fld, None)
                if not isinstance(blk, list) or not blk or not isinstance(
                        blk[0], ast.stmt):
                    continue
                apps = [(dotted(c.func.value), c) for s in blk
                        if isinstance(s, ast.Expr) and isinstance(
                            s.value, ast.Call) for c in [s.value]
                        if isinstance(c.func, ast.Attribute) and
                        c.func.attr == 'append' and c.args]
                stores = [(dotted(s.targets[0].value), s) for s in blk
                          if isinstance(s, ast.Assign) and isinstance(
                              s.targets[0], ast.Subscript)]
                for ln, c in apps:
                    for dn, s in stores:
                        if ln and dn and unparse(c.args[0], 80) == unparse(
                                s.targets[0].slice, 80):
                            out.append((dn, ln, s))
        return out

    pairs = []
    helpers = {d.name: d for d in ast.walk(fn) if isinstance(
        d, ast.FunctionDef) and d is not fn}
    top_pairs = [p for p in block_pairs(fn)]
    for dn, ln, node in top_pairs:
        inside = next((h for h in helpers.values() if any(
            x is node for x in ast.walk(h))), None)
        if inside is None:
            pairs.append((dn, ln, node))
            continue
        hp = [a.arg for a in inside.args.args]
        if dn not in hp or ln not in hp:
            col.unknown(rule, rel, q, 'helper', node,
                        'helper updates something other than its parameters')
            continue
        for c in ast.walk(fn):
            if isinstance(c, ast.Call) and isinstance(c.func, ast.Name) and \
                    c.func.id == inside.name:
                b = dict(zip(hp, c.args))
                for kw in c.keywords:
                    if kw.arg:
                        b[kw.arg] = kw.value
                d_, l_ = dotted(b.get(dn)), dotted(b.get(ln))
                if d_ and l_:
                    pairs.append((d_, l_, c))
                else:
                    col.unknown(rule, rel, q, 'helper-call', c,
                                'arguments not resolved')
    by_d, by_l = {}, {}
    for d_, l_, node in pairs:
        by_d.setdefault(d_, {})[l_] = node
        by_l.setdefault(l_, {})[d_] = node
    for d_, ls in sorted(by_d.items()):
        col.check(len(ls) == 1, rule, rel, q, 'lookup:%s' % d_,
                  list(ls.values())[-1],
                  'grows together with %s only' % sorted(ls)[0],
                  'the lookup `%s` is updated together with the id lists '
                  '%s: two axes share one {id: position} map, so an id '
                  'used on both axes gets the position it has on the other '
                  'one' % (d_, sorted(ls)))
    for l_, ds in sorted(by_l.items()):
        col.check(len(ds) == 1, rule, rel, q, 'list:%s' % l_,
                  list(ds.values())[-1],
                  'indexed by %s only' % sorted(ds)[0],
                  'the id list `%s` is indexed through the lookups %s'
                  % (l_, sorted(ds)))
    col.soft(len(by_d) >= 2, rule, rel, q, 'instances', fn,
             '%d lookup / list pairs' % len(by_d),
             'fewer than two lookup / list pairs recognised')


RULE_TEXT['TA-NULLONLYNONE'] = (
    'to_json writes `"type": null` only for a table whose type is None: '
    'the choice is made by an identity test with None, not by truthiness '
    '(an empty-string type is a value and is written as "").')


def rule_null_only_for_none(repo, col):
    rule = 'TA-NULLONLYNONE'
    q = 'Table.to_json'
    if not repo.has_func(TABLE, q):
        return
    fn = repo.func(TABLE, q)
    alias = {'self.type'}
    for s in body_walk(fn):
        if isinstance(s, ast.Assign) and len(s.targets) == 1 and isinstance(
                s.targets[0], ast.Name) and dotted(s.value) == 'self.type':
            alias.add(s.targets[0].id)
    n = 0
    for s in body_walk(fn):
        if not isinstance(s, (ast.If, ast.IfExp)):
            continue
        branches = (s.body, s.orelse) if isinstance(s, ast.If) else (
            [s.body], [s.orelse])
        has_null = any(isinstance(x, ast.Constant) and isinstance(
            x.value, str) and 'null' in x.value and 'type' in x.value
            for b in branches for st in b for x in ast.walk(st))
        if not has_null:
            continue
        n += 1
        t = s.test
        ident = isinstance(t, ast.Compare) and len(t.ops) == 1 and \
            isinstance(t.ops[0], (ast.Is, ast.IsNot)) and \
            dotted(t.left) in alias and isinstance(
                t.comparators[0], ast.Constant) and \
            t.comparators[0].value is None
        truthy = dotted(t) in alias or (
            isinstance(t, ast.UnaryOp) and isinstance(t.op, ast.Not) and
            dotted(t.operand) in alias)
        if ident:
            col.ok(rule, TABLE, q, 'type-null', s, 'identity test with None')
        elif truthy:
            col.bad(rule, TABLE, q, 'type-null', s,
                    '`%s` decides by truthiness whether the type is written '
                    'as null: a table of type \'\' is written as null and '
                    'reads back with type None' % unparse(t, 40))
        else:
            col.unknown(rule, TABLE, q, 'type-null', s,
                        'test deciding the null form not recognised')
    col.soft(n >= 1, rule, TABLE, q, 'instances', fn, '%d choices' % n,
             'the null form of the type member was not found')


RULE_TEXT['SB-MAPABSENT'] = (
    'update_ids learns whether an id is in the caller\'s mapping from a '
    'membership test or .get, never from a KeyError of `id_map[id]`: a '
    'mapping with defaults (defaultdict, __missing__) answers a subscript '
    'for every id, and inserts it.')


def rule_map_absent(repo, col):
    rule = 'SB-MAPABSENT'
    q = 'Table.update_ids'
    if not repo.has_func(TABLE, q):
        return
    fn = repo.func(TABLE, q)
    ps = [a.arg for a in fn.args.args if a.arg != 'self']
    if not ps:
        return
    m = ps[0]
    par = {}
    for p in ast.walk(fn):
        for ch in ast.iter_child_nodes(p):
            par[id(ch)] = p
    n = 0
    for x in body_walk(fn):
        if isinstance(x, ast.Subscript) and isinstance(
                x.ctx, ast.Load) and dotted(x.value) == m:
            n += 1
            cur, relies = x, None
            while id(cur) in par:
                p = par[id(cur)]
                if isinstance(p, ast.Try) and cur in p.body and any(
                        h.type is None or any(
                            isinstance(t, ast.Name) and t.id in (
                                'KeyError', 'LookupError', 'Exception')
                            for t in ast.walk(h.type))
                        for h in p.handlers):
                    relies = p
                    break
                cur = p
            col.check(relies is None, rule, TABLE, q, 'subscript', x,
                      'not used to detect absence',
                      '`%s` inside try/except KeyError decides whether the '
                      'id is mapped: with a defaultdict every id "is '
                      'mapped" (to the default), unmapped ids are renamed '
                      'and strict=True no longer refuses them'
                      % unparse(x, 40))
    col.ok(rule, TABLE, q, 'scan', fn, '%d subscripts of `%s`' % (n, m))


RULE_TEXT['TA-IDSETRAW'] = (
    'subsample(by_id=True) keeps an id when it is in the set of drawn ids: '
    'that set holds the ids themselves, not their str() / repr() (integer '
    'or other non-text ids would never match).')


def rule_id_set_raw(repo, col):
    rule = 'TA-IDSETRAW'
    q = 'Table.subsample'
    if not repo.has_func(TABLE, q):
        return
    fn = repo.func(TABLE, q)
    used = set()
    for lam in ast.walk(fn):
        if isinstance(lam, (ast.Lambda, ast.FunctionDef)) and lam is not fn:
            for c in ast.walk(lam):
                if isinstance(c, ast.Compare) and isinstance(
                        c.ops[0], (ast.In, ast.NotIn)) and isinstance(
                        c.comparators[0], ast.Name):
                    used.add(c.comparators[0].id)
    n = 0
    for s in body_walk(fn):
        if isinstance(s, ast.Assign) and len(s.targets) == 1 and isinstance(
                s.targets[0], ast.Name) and s.targets[0].id in used:
            n += 1
            v = s.value
            elts = []
            if isinstance(v, (ast.SetComp, ast.ListComp, ast.GeneratorExp)):
                elts = [v.elt]
            elif isinstance(v, ast.Call) and v.args and isinstance(
                    v.args[0], (ast.ListComp, ast.GeneratorExp, ast.SetComp)):
                elts = [v.args[0].elt]
            elif isinstance(v, ast.Call) and call_name(v) in (
                    'set', 'frozenset') and v.args and isinstance(
                    v.args[0], ast.Call) and call_name(v.args[0]) == 'map':
                elts = [v.args[0].args[0]] if v.args[0].args else []
            conv = [e for e in elts if (isinstance(e, ast.Call) and (
                call_name(e) or '') in ('str', 'repr', 'format', 'bytes')) or
                isinstance(e, ast.JoinedStr) or (
                isinstance(e, ast.Name) and e.id in ('str', 'repr')) or (
                isinstance(e, ast.BinOp) and isinstance(e.op, ast.Mod))]
            col.check(not conv, rule, TABLE, q, 'selection:%s'
                      % s.targets[0].id, s, 'holds the ids themselves',
                      '`%s` fills the selection with a text form of the '
                      'ids while the predicate tests the id itself: '
                      'non-text ids are never kept' % unparse(s, 70))
    col.soft(n >= 1, rule, TABLE, q, 'instances', fn,
             '%d selections' % n, 'by-id selection set not found')


# ===========================================================================
# tenth (half) round of seeded changes
# ===========================================================================
RULE_TEXT.update({
    'SB-KERNELINPUT': 'Table.subsample hands the kernel the stored counts '
                      'as they are: between taking the matrix and calling '
                      'the kernel nothing rescales, clips or otherwise '
                      'rewrites its values (only the index order may be '
                      'normalised).',
    'AG-CLISAME': 'a command that prints a result or writes it to a file '
                  'writes the same text either way.',
    'OR-ORIENTFIRST': 'summarize-table computes its per-vector statistics '
                      'after the table has been oriented for --observations.',
    'TA-WRITEASIS': 'biom convert writes the text the table produced as it '
                    'is (no strip / rstrip: a trailing tab is an empty last '
                    'field).',
    'TA-SPARSEPOS': 'the k-th stored value of a sparse vector is at position '
                    'indices[k], not k: stored values are never enumerated '
                    'and the ordinal used as a position.',
})

_KERNEL_PREP_OK = {'sort_indices', 'sum_duplicates'}


def rule_kernel_input(repo, col):
    from .cfg import CFG
    rule = 'SB-KERNELINPUT'
    q = 'Table.subsample'
    if not repo.has_func(TABLE, q):
        return
    fn = repo.func(TABLE, q)
    kern = [c for c in body_walk(fn) if isinstance(c, ast.Call) and
            call_name(c) == 'subsample' and c.args and isinstance(
            c.args[0], ast.Name)]
    if not kern:
        col.unknown(rule, TABLE, q, 'kernel', fn, 'kernel call not found')
        return
    for k, c in enumerate(kern):
        m = c.args[0].id
        cfg = CFG(fn)
        knode = next((n for n in cfg.stmt_nodes() if n.kind == 'stmt' and
                      any(x is c for x in ast.walk(n.stmt)) and
                      not isinstance(n.stmt, (ast.If, ast.For, ast.While,
                                              ast.Try, ast.With))), None)
        touching = []
        for n in cfg.stmt_nodes():
            if n.kind != 'stmt' or n is knode or isinstance(
                    n.stmt, (ast.If, ast.For, ast.While, ast.Try, ast.With)):
                continue
            st = n.stmt
            writes = False
            # stores to m.data / m.data[...] and in-place arithmetic
            for x in ast.walk(st):
                if isinstance(x, (ast.Assign, ast.AugAssign)):
                    tg = x.targets if isinstance(x, ast.Assign) else [
                        x.target]
                    for t in tg:
                        d = dotted(t.value) if isinstance(
                            t, ast.Subscript) else dotted(t)
                        if d in ('%s.data' % m,):
                            writes = True
                if isinstance(x, ast.Call):
                    if any(kw.arg == 'out' and (dotted(kw.value) or ''
                                                ).startswith(m + '.')
                           for kw in x.keywords):
                        writes = True
                    if isinstance(x.func, ast.Attribute) and dotted(
                            x.func.value) in (m, m + '.data') and \
                            x.func.attr not in _KERNEL_PREP_OK and \
                            x.func.attr in (
                                'eliminate_zeros', 'fill', 'clip', 'round',
                                'sort', 'resize', 'put', 'itemset',
                                'setdiag', 'multiply', 'power', 'ceil',
                                'floor', 'rint', 'trunc', 'prune'):
                        writes = True
            if writes and knode is not None and (
                    cfg.path_avoiding(n, knode, set()) or False):
                touching.append(st)
        col.check(not touching, rule, TABLE, q, 'kernel-input#%d' % (k + 1),
                  touching[0] if touching else c,
                  'the counts reach the kernel unchanged',
                  '`%s` rewrites the stored counts before the kernel draws '
                  'from them: the draw is no longer made from the table\'s '
                  'counts (each unit equally likely)'
                  % (unparse(touching[0], 60) if touching else ''))


def rule_cli_same_output(repo, col):
    rule = 'AG-CLISAME'
    rel = 'biom/cli/table_head.py'
    q = 'head'
    if not repo.has_func(rel, q):
        return
    fn = repo.func(rel, q)
    echoed = [c.args[0] for c in body_walk(fn) if isinstance(c, ast.Call)
              and (call_name(c) or '').endswith('echo') and c.args]
    written = [c.args[0] for c in body_walk(fn) if isinstance(c, ast.Call)
               and isinstance(c.func, ast.Attribute) and
               c.func.attr == 'write' and c.args]
    if not echoed or not written:
        col.unknown(rule, rel, q, 'outputs', fn,
                    'printed / written text not found')
        return
    same = {unparse(e, 200) for e in echoed} == {unparse(w, 200)
                                                  for w in written}
    col.check(same, rule, rel, q, 'same-text', written[0],
              'the file receives what would be printed',
              '`%s` is printed but `%s` is written to the file: with -o '
              'the command writes something else than it shows'
              % (unparse(echoed[0], 40), unparse(written[0], 40)))


def rule_orient_first(repo, col):
    rule = 'OR-ORIENTFIRST'
    rel = 'biom/cli/table_summarizer.py'
    q = '_summarize_table'
    if not repo.has_func(rel, q):
        return
    fn = repo.func(rel, q)
    from .cfg import CFG
    cfg = CFG(fn)
    orient = [n for n in cfg.stmt_nodes() if n.kind == 'stmt' and isinstance(
        n.stmt, ast.Assign) and any(
        isinstance(c, ast.Call) and isinstance(c.func, ast.Attribute) and
        c.func.attr == 'transpose' for c in ast.walk(n.stmt.value))]
    stats = [n for n in cfg.stmt_nodes() if n.kind == 'stmt' and not
             isinstance(n.stmt, (ast.If, ast.For, ast.While, ast.Try,
                                 ast.With)) and any(
             isinstance(c, ast.Call) and (call_name(c) or '').split('.')[-1]
             == 'compute_counts_per_sample_stats'
             for c in ast.walk(n.stmt))]
    if not orient or not stats:
        col.unknown(rule, rel, q, 'shape', fn,
                    'transpose / statistics call not found')
        return
    for k, s_ in enumerate(stats):
        late = [o for o in orient if cfg.path_avoiding(s_, o, set())]
        col.check(not late, rule, rel, q, 'stats-after-orient#%d' % (k + 1),
                  s_.stmt, 'computed on the oriented table',
                  'the statistics are computed before `%s`: with '
                  '--observations the report shows per-sample figures '
                  'under a header that describes observations'
                  % (unparse(late[0].stmt, 50) if late else ''))


def rule_convert_writes_asis(repo, col):
    rule = 'TA-WRITEASIS'
    rel = 'biom/cli/table_converter.py'
    q = '_convert'
    if not repo.has_func(rel, q):
        return
    fn = repo.func(rel, q)
    n = 0
    for c in body_walk(fn):
        if isinstance(c, ast.Call) and isinstance(c.func, ast.Attribute) and \
                c.func.attr == 'write' and c.args:
            n += 1
            a = c.args[0]
            cut = [x for x in ast.walk(a) if isinstance(x, ast.Call) and
                   isinstance(x.func, ast.Attribute) and x.func.attr in (
                       'strip', 'rstrip', 'lstrip', 'splitlines',
                       'expandtabs', 'removesuffix', 'replace')]
            col.check(not cut, rule, rel, q, 'write@%d' % n, c,
                      'the text is written as produced',
                      '`%s` edits the text before writing it: a trailing '
                      'tab (an empty last field) of the last line is lost '
                      'and that line no longer parses back to the same '
                      'row' % unparse(c, 50))
    col.ok(rule, rel, q, 'scan', fn, '%d writes' % n)


def rule_sparse_ordinal(repo, col, rels=(TABLE,)):
    rule = 'TA-SPARSEPOS'
    n = 0
    for rel, q, fn in repo.all_functions():
        if rel not in rels or isinstance(fn, ast.Lambda):
            continue
        for lp in body_walk(fn):
            gens = []
            if isinstance(lp, ast.For):
                gens = [(lp.target, lp.iter, lp)]
            elif isinstance(lp, (ast.ListComp, ast.GeneratorExp,
                                 ast.DictComp, ast.SetComp)):
                gens = [(g.target, g.iter, lp) for g in lp.generators]
            for tgt, it, scope in gens:
                if not (isinstance(it, ast.Call) and call_name(it) ==
                        'enumerate' and it.args and isinstance(
                        it.args[0], ast.Attribute) and
                        it.args[0].attr == 'data' and isinstance(
                        tgt, ast.Tuple) and isinstance(tgt.elts[0],
                                                       ast.Name)):
                    continue
                owner = it.args[0].value
                # only objects that also expose .indices in this function
                # (a sparse vector), or whose .data is enumerated at all
                n += 1
                i = tgt.elts[0].id
                used = [x for x in ast.walk(scope) if isinstance(
                    x, ast.Subscript) and any(
                    isinstance(y, ast.Name) and y.id == i
                    for y in ast.walk(x.slice)) and dotted(
                    x.value) != dotted(owner) + '.data' and dotted(
                    x.value) != dotted(owner) + '.indices']
                col.check(not used, rule, rel, q, 'ordinal-as-position',
                          used[0] if used else it,
                          'the ordinal only indexes the stored arrays',
                          '`%s` uses the ordinal of a stored value of `%s` '
                          'as a position: the k-th stored value sits at '
                          'indices[k]' % (unparse(used[0], 50) if used
                                          else '', unparse(owner, 30)))
    col.ok(rule, TABLE, '<file>', 'scan', None,
           '%d enumerations of stored values' % n)
