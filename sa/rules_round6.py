"""Rules added after the fifth round's documented misses and the sixth round
of independent seeded changes."""
import ast

from .astutil import body_walk, call_name, dotted, unparse

TABLE = 'biom/table.py'
PARSE = 'biom/parse.py'

RULE_TEXT = {
    'SB-ACCDROP': 'What a loop appended to an accumulator once per element '
                  'is only replaced by a constant under a test of the '
                  'accumulator itself or of the number of elements, never '
                  'under a flag that the loop sets for some elements only.',
    'SB-SELNARROW': 'A selection computed from membership in the requested '
                    'ids is not narrowed afterwards by anything else.',
}


def _names(e):
    return {n.id for n in ast.walk(e) if isinstance(n, ast.Name)}


def _own_functions(fn):
    """fn and the functions nested in it."""
    return [x for x in ast.walk(fn)
            if isinstance(x, (ast.FunctionDef, ast.AsyncFunctionDef))]


def _stmts_in_order(fn):
    """Statements of fn (not of nested functions) in source order."""
    out = []

    def rec(body):
        for s in body:
            out.append(s)
            if isinstance(s, (ast.FunctionDef, ast.AsyncFunctionDef,
                              ast.ClassDef)):
                continue
            for fld in ('body', 'orelse', 'finalbody'):
                b = getattr(s, fld, None)
                if isinstance(b, list):
                    rec(b)
            for h in getattr(s, 'handlers', []) or []:
                rec(h.body)
    rec(fn.body)
    return out


# ---------------------------------------------------------------------------
def rule_accumulator_drop(repo, col, targets=((TABLE, 'Table.to_json'),)):
    """SB-ACCDROP.  Pattern (all parts resolved, otherwise nothing is said):

        acc = [<literal>]                      # before the loop
        for ... in <elements>:                 # L
            acc.append(...)                    # on every iteration of L
            ...
            if <data condition>: flag = True   # some iterations only
        if G: acc = [<literal>]                # after L

    G must not be decided by such flags alone."""
    rule = 'SB-ACCDROP'
    n = 0
    for rel, q in targets:
        if not repo.has_func(rel, q):
            col.unknown(rule, rel, q, 'anchor', None, 'function not found')
            continue
        fn = repo.func(rel, q)
        stmts = _stmts_in_order(fn)
        top = list(fn.body)
        for li, loop in enumerate(top):
            if not isinstance(loop, ast.For):
                continue
            # accumulators appended at the loop's top level (every iteration;
            # an if/else that appends in both arms counts)
            def appends(body):
                acc = set()
                for s in body:
                    if isinstance(s, ast.Expr) and isinstance(
                            s.value, ast.Call) and isinstance(
                            s.value.func, ast.Attribute) and \
                            s.value.func.attr in ('append', 'extend') and \
                            isinstance(s.value.func.value, ast.Name):
                        acc.add(s.value.func.value.id)
                    elif isinstance(s, ast.If) and s.orelse:
                        acc |= appends(s.body) & appends(s.orelse)
                return acc
            accs = appends(loop.body)
            if not accs:
                continue
            # flags: names assigned a constant under a condition inside the
            # loop body and nowhere at the loop's top level
            top_assigned = {t.id for s in loop.body
                            if isinstance(s, ast.Assign)
                            for t in s.targets if isinstance(t, ast.Name)}
            flags = set()
            for s in loop.body:
                if isinstance(s, (ast.If, ast.For, ast.While, ast.Try)):
                    for x in ast.walk(s):
                        if isinstance(x, ast.Assign) and isinstance(
                                x.value, ast.Constant):
                            flags |= {t.id for t in x.targets
                                      if isinstance(t, ast.Name)}
            flags -= top_assigned
            # replacements after the loop
            for s in top[li + 1:]:
                if not isinstance(s, ast.If):
                    continue
                repl = [x for x in body_walk_list(s.body)
                        if isinstance(x, ast.Assign) and any(
                            isinstance(t, ast.Name) and t.id in accs
                            for t in x.targets) and isinstance(
                            x.value, (ast.List, ast.Tuple, ast.Constant))]
                if not repl:
                    continue
                n += 1
                gn = _names(s.test)
                role = 'replace:%s' % sorted(
                    t.id for t in repl[0].targets
                    if isinstance(t, ast.Name))[0]
                if gn and gn <= flags:
                    col.bad(rule, rel, q, role, s,
                            'the accumulated entries are replaced by a '
                            'constant when `%s` holds, and `%s` is only set '
                            'for some iterations of the loop that fills '
                            'them: a table whose vectors exist but, e.g., '
                            'hold no non-zero cell loses all its ids'
                            % (unparse(s.test, 50), ', '.join(sorted(gn))))
                elif gn & accs or not (gn & flags):
                    col.ok(rule, rel, q, role, s,
                           'guard reads the accumulator / the element count')
                else:
                    col.unknown(rule, rel, q, role, s,
                                'guard mixes flags and other names')
    col.ok(rule, 'biom', '<package>', 'scan', None,
           '%d guarded replacements' % n)


def body_walk_list(body):
    for s in body:
        for x in ast.walk(s):
            yield x


# ---------------------------------------------------------------------------
def _membership_of(e, requested):
    """Does expression `e` select by membership in one of `requested`?"""
    for x in ast.walk(e):
        if isinstance(x, ast.Compare) and any(
                isinstance(o, (ast.In, ast.NotIn)) for o in x.ops) and any(
                isinstance(c, ast.Name) and c.id in requested
                for c in x.comparators):
            return True
        if isinstance(x, ast.Call) and (call_name(x) or '').split('.')[-1] \
                in ('isin', 'in1d', 'intersect1d') and any(
                isinstance(a, ast.Name) and a.id in requested
                for a in x.args):
            return True
    return False


def rule_selection_narrowed(repo, col):
    """SB-SELNARROW over the subset readers (from_hdf5 with its nested
    functions, the JSON slicers)."""
    rule = 'SB-SELNARROW'
    n = 0
    sites = [(TABLE, 'Table.from_hdf5', {'ids'}),
             (PARSE, 'get_axis_indices', {'to_keep'}),
             (PARSE, 'direct_slice_data', {'to_keep'})]
    for rel, q, requested in sites:
        if not repo.has_func(rel, q):
            continue
        for fn in _own_functions(repo.func(rel, q)):
            sel = {}
            for s in _stmts_in_order(fn):
                if not isinstance(s, ast.Assign) or len(s.targets) != 1 or \
                        not isinstance(s.targets[0], ast.Name):
                    continue
                name = s.targets[0].id
                if name in sel and name in _names(s.value):
                    # re-bound from itself: a filter of the selection?
                    narrowing = any(
                        (isinstance(x, ast.Subscript) and dotted(x.value) ==
                         name and not isinstance(x.slice, (ast.Constant,
                                                           ast.Slice))) or
                        (isinstance(x, (ast.ListComp, ast.GeneratorExp,
                                        ast.SetComp)) and any(
                            g.ifs and name in _names(g.iter)
                            for g in x.generators)) or
                        (isinstance(x, ast.Call) and (call_name(x) or '')
                         .split('.')[-1] in ('compress', 'extract', 'filter',
                                             'delete', 'setdiff1d'))
                        for x in ast.walk(s.value))
                    if narrowing and not _membership_of(s.value, requested):
                        col.bad(rule, rel, q, 'narrowed:%s' % name, s,
                                'the selection `%s`, computed from the '
                                'requested ids, is filtered again by `%s`: '
                                'requested ids that fail the second test '
                                '(e.g. vectors without stored entries) are '
                                'missing from the subset although reading '
                                'everything and filtering keeps them'
                                % (name, unparse(s.value, 60)))
                    continue
                if _membership_of(s.value, requested):
                    sel[name] = s
                    n += 1
                    col.ok(rule, rel, q, 'selection:%s' % name, s,
                           'selected by membership in the requested ids')
    col.ok(rule, 'biom', '<subset readers>', 'scan', None,
           '%d selections' % n)
    return n


# ---------------------------------------------------------------------------
RULE_TEXT['TA-WSSPLIT'] = (
    'Text that carries ids or metadata is split on its declared delimiter '
    '(tab / the configured one); a split on any whitespace cuts ids that '
    'contain a space. Whitespace splits stay in the formats that are '
    'whitespace-delimited by definition (uc records, fasta headers, the '
    'config file).')

WS_SPLIT_ALLOWED = {
    (PARSE, 'parse_uc'): 'uc: the label is the text before the first space',
    ('biom/util.py', 'parse_biom_config_files'): 'config file: key value',
    ('biom/cli/uc_processor.py', '_id_map_from_fasta'):
        'fasta header: two space-separated fields',
}


def rule_whitespace_split(repo, col, rels=None):
    rule = 'TA-WSSPLIT'
    n = 0
    for rel, q, fn in repo.all_functions():
        if '/tests/' in rel or isinstance(fn, ast.Lambda):
            continue
        if rels is not None and rel not in rels:
            continue
        for c in body_walk(fn):
            if not (isinstance(c, ast.Call) and isinstance(
                    c.func, ast.Attribute) and c.func.attr in (
                    'split', 'rsplit')):
                continue
            if dotted(c.func.value) in ('re', 'os.path', 'np.char'):
                continue
            sep = c.args[0] if c.args else next(
                (k.value for k in c.keywords if k.arg == 'sep'), None)
            if sep is not None and not (isinstance(sep, ast.Constant) and
                                        sep.value is None):
                continue
            n += 1
            if (rel, q) in WS_SPLIT_ALLOWED:
                col.ok(rule, rel, q, 'ws-split@%d' % n, c,
                       WS_SPLIT_ALLOWED[(rel, q)])
            else:
                col.bad(rule, rel, q, 'ws-split', c,
                        '`%s` splits on any whitespace: an id such as '
                        '"Sample 1" is cut at the space (the declared '
                        'delimiter of this text is the tab / the configured '
                        'one)' % unparse(c, 50))
    col.ok(rule, 'biom', '<package>', 'scan', None,
           '%d whitespace splits' % n)


# ---------------------------------------------------------------------------
RULE_TEXT['SB-SNIFFAGREE'] = (
    'The look-ahead of the classic-text reader that decides whether the '
    'last column is metadata examines exactly the lines the data loop will '
    'parse: every line the data loop skips (blank, comment) is skipped by '
    'the look-ahead as well.')


class _Rename(ast.NodeTransformer):
    def __init__(self, name):
        self.name = name

    def visit_Name(self, node):
        if node.id == self.name:
            return ast.copy_location(ast.Name(id='L', ctx=node.ctx), node)
        return node


def _keeps(test, var, negate=False):
    """Set of (text, polarity) a line must satisfy, from a filter `test`
    (negate=False) or from a skip guard (negate=True)."""
    import copy
    if isinstance(test, ast.UnaryOp) and isinstance(test.op, ast.Not):
        return _keeps(test.operand, var, not negate)
    if isinstance(test, ast.BoolOp):
        conj = isinstance(test.op, ast.And)
        if conj != negate:      # and-filter, or or-skip: all parts required
            out = set()
            for v in test.values:
                out |= _keeps(v, var, negate)
            return out
        return set()            # a disjunction guarantees no single part
    t = _Rename(var).visit(copy.deepcopy(test))
    return {(unparse(t, 200), not negate)}


def rule_sniff_agrees(repo, col):
    rule = 'SB-SNIFFAGREE'
    q = 'Table._extract_data_from_tsv'
    if not repo.has_func(TABLE, q):
        col.unknown(rule, TABLE, q, 'anchor', None, 'function not found')
        return
    fn = repo.func(TABLE, q)
    # the data loop: a `for` that appends the first field to the id list
    parse = None
    for s in body_walk(fn):
        if isinstance(s, ast.For) and isinstance(s.target, (ast.Name,
                                                            ast.Tuple)):
            if any(isinstance(c, ast.Call) and isinstance(
                    c.func, ast.Attribute) and c.func.attr == 'append' and
                    'ids' in (dotted(c.func.value) or '')
                    for b in s.body for c in ast.walk(b)):
                parse = s
    # the look-ahead: a comprehension taking the last field of each line
    sniff = None
    for c in body_walk(fn):
        if isinstance(c, (ast.ListComp, ast.GeneratorExp)) and any(
                isinstance(x, ast.Call) and isinstance(x.func, ast.Attribute)
                and x.func.attr in ('rsplit', 'split')
                for x in ast.walk(c.elt)) and any(
                isinstance(x, ast.Subscript) and isinstance(
                    x.slice, ast.UnaryOp) for x in ast.walk(c.elt)):
            sniff = c
    if parse is None or sniff is None:
        col.unknown(rule, TABLE, q, 'shape', fn,
                    'data loop or look-ahead not recognised')
        return
    lv = parse.target.id if isinstance(parse.target, ast.Name) else next(
        (e.id for e in reversed(parse.target.elts)
         if isinstance(e, ast.Name)), None)
    need = set()
    for s in parse.body:
        if isinstance(s, ast.If) and len(s.body) == 1 and isinstance(
                s.body[0], ast.Continue) and not s.orelse:
            need |= _keeps(s.test, lv, negate=True)
    gen = sniff.generators[0]
    sv = gen.target.id if isinstance(gen.target, ast.Name) else None
    have = set()
    for t in gen.ifs:
        have |= _keeps(t, sv)
    # filters applied where the examined lines are collected
    if isinstance(gen.iter, ast.Name):
        defs = [a for a in body_walk(fn) if isinstance(a, ast.Assign) and any(
            isinstance(t, ast.Name) and t.id == gen.iter.id
            for t in a.targets)]
        common = None
        for a in defs:
            k = set()
            if isinstance(a.value, (ast.ListComp, ast.GeneratorExp)):
                g = a.value.generators[0]
                if isinstance(g.target, ast.Name):
                    for t in g.ifs:
                        k |= _keeps(t, g.target.id)
            common = k if common is None else common & k
        have |= common or set()
    missing = need - have
    col.check(not missing, rule, TABLE, q, 'same-lines', sniff,
              'the look-ahead filters %d skip condition(s) of the data loop'
              % len(need),
              'the data loop skips lines unless %s, the look-ahead that '
              'decides whether the last column is metadata does not: a '
              'blank or comment line among the data lines makes the last '
              'sample column "non-numeric" and it is imported as metadata'
              % ' and '.join('%s%s' % ('' if p else 'not ', t)
                             for t, p in sorted(missing)))
