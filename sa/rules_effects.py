"""Effect / ownership rules (C07, and clauses of C05, C11, C12, C13, C18)."""
import ast

from .astutil import (body_walk, call_name, dotted, kwarg, param_default,
                      param_names, unparse)
from .effects import (Effects, FuncEffects, find_bind, KERNELS, TABLE,
                      INPLACE_METHODS_HINT)
from .source import AnalysisError

_CACHE = {}

NEW_TABLE_OPS = ['sort', 'sort_order', 'transpose', 'copy', 'head',
                 'subsample', 'partition', 'collapse', 'merge',
                 '_fast_merge', 'concat', 'align_to', 'align_to_dataframe',
                 'align_tree']
# the enumerated mutators: everything else on Table must be pure
MUTATORS = {'__init__', 'filter', 'transform', 'norm', 'pa', 'rankdata',
            'remove_empty', 'update_ids', 'add_metadata', 'del_metadata',
            'add_group_metadata', '_cast_metadata', '_index_ids'}
METADATA_FIELDS = {'_sample_metadata', '_observation_metadata',
                   '_sample_group_metadata', '_observation_group_metadata',
                   '_metadata'}


def effects(repo):
    key = repo.digest()
    if key not in _CACHE:
        _CACHE[key] = Effects(repo)
    return _CACHE[key]


def inplace_methods(repo):
    out = []
    for rel, q, f in repo.all_functions():
        if rel == TABLE and q.startswith('Table.') and q.count('.') == 1 \
                and 'inplace' in param_names(f):
            out.append(q.split('.', 1)[1])
    return out


def _inplace_value(c):
    """Value of the inplace= argument of a method call record when it is
    decidable for a receiver that *is* self: a constant, or the idiom
    `inplace=recv is not self` (in place only on a copy)."""
    ip = c['inplace']
    if isinstance(ip, ast.Constant):
        return bool(ip.value)
    node = c.get('node')
    if isinstance(ip, ast.Compare) and len(ip.ops) == 1 and isinstance(
            node, ast.Call) and isinstance(node.func, ast.Attribute):
        recv = dotted(node.func.value)
        sides = {dotted(ip.left), dotted(ip.comparators[0])}
        if recv and sides == {recv, 'self'} and c['table'] == 'self':
            if isinstance(ip.ops[0], ast.IsNot):
                return False
            if isinstance(ip.ops[0], ast.Is):
                return True
    return None


def rule_ef_bind(repo, col, only=None):
    """A method with an ``inplace`` parameter binds one name to
    self-or-a-copy as a function of ``inplace``, performs every observable
    write and kernel call through that name (never through ``self``), has no
    other branch on ``inplace`` that writes, and returns that name on every
    normal path; or it forwards ``inplace`` to such a method and returns its
    result."""
    rule = 'EF-BIND'
    E = effects(repo)
    meths = inplace_methods(repo)
    if len(meths) < 5:
        raise AnalysisError('only %d methods with an inplace parameter '
                            'found' % len(meths))
    for m in meths:
        if only is not None and m not in only:
            continue
        q = 'Table.%s' % m
        fe = E.method(m)
        f = fe.func
        if fe.bind is None:
            # forwarding wrapper?
            rets = [n for n in body_walk(f) if isinstance(n, ast.Return)]
            fw = None
            if len(rets) == 1 and isinstance(rets[0].value, ast.Call) and \
                    isinstance(rets[0].value.func, ast.Attribute) and \
                    dotted(rets[0].value.func.value) == 'self':
                c = rets[0].value
                ip = kwarg(c, 'inplace')
                callee = c.func.attr
                if isinstance(ip, ast.Name) and ip.id == 'inplace' and \
                        callee in meths:
                    fw = callee
            if fw:
                direct = [w for w in fe.writes if w['kind'] == 'observable'
                          and w['table'] == 'self']
                col.check(not direct, rule, TABLE, q, 'forwards-inplace',
                          rets[0], 'forwards inplace to %s and returns its '
                          'result' % fw, 'forwards inplace but also writes '
                          'self directly (line %s)'
                          % (direct[0]['node'].lineno if direct else ''))
            else:
                col.bad(rule, TABLE, q, 'bind', f,
                        'neither binds `X = self if inplace else '
                        'self.copy()` nor forwards inplace= to a method '
                        'that does: with inplace=False the receiver is '
                        'modified, or inplace is ignored')
            continue
        col.ok(rule, TABLE, q, 'bind', fe.bind_node,
               '%s = self if inplace else self.copy()' % fe.bind)
        # writes through self
        direct = [w for w in fe.writes if w['kind'] == 'observable' and
                  w['table'] == 'self']
        col.check(not direct, rule, TABLE, q, 'no-write-through-self',
                  direct[0]['node'] if direct else f,
                  'every observable write goes through %s' % fe.bind,
                  'an observable write (%s of %s) goes through self, not '
                  'through %s: the receiver changes even with inplace=False'
                  % (direct[0]['how'] if direct else '',
                     direct[0]['field'] if direct else '', fe.bind))
        # mutating method calls on self
        bad_calls = []
        for c in fe.method_calls:
            if c['table'] == 'self':
                val = _inplace_value(c)
                if E.mutates_receiver(c['method'], val):
                    bad_calls.append(c)
        col.check(not bad_calls, rule, TABLE, q, 'no-mutating-call-on-self',
                  bad_calls[0]['node'] if bad_calls else f,
                  'no mutating method is invoked on self',
                  'self.%s(...) mutates the receiver regardless of inplace'
                  % (bad_calls[0]['method'] if bad_calls else ''))
        # kernel arrays rooted at the bound name
        for k in fe.kernel_calls:
            tabs = {t for kind, t, fld in k['roots'] if kind == 'array'}
            col.check(bool(tabs) and tabs <= {'B', 'fresh'}, 'EF-KROOT',
                      TABLE, q, 'kernel:%s' % k['kernel'], k['node'],
                      'the array mutated by %s is rooted at %s'
                      % (k['kernel'], fe.bind),
                      'the array handed to the in-place kernel %s is rooted '
                      'at %s: the receiver\'s matrix is mutated even with '
                      'inplace=False' % (k['kernel'],
                                         sorted(tabs) or 'an unknown object'))
        # returns
        rets = [n for n in body_walk(f) if isinstance(n, ast.Return)]
        badr = [r for r in rets if not (isinstance(r.value, ast.Name) and
                                        r.value.id == fe.bind)]
        col.check(bool(rets) and not badr, rule, TABLE, q, 'returns-bound',
                  badr[0] if badr else (rets[0] if rets else f),
                  'returns %s on every path' % fe.bind,
                  'a return does not return %s (in-place must return the '
                  'receiver itself, non-in-place the copy)' % fe.bind)
        # other branches on inplace may only raise
        others = []
        for n in body_walk(f):
            if isinstance(n, ast.If) and n is not fe.bind_node and any(
                    isinstance(x, ast.Name) and x.id == 'inplace'
                    for x in ast.walk(n.test)):
                writes = [w for w in fe.writes
                          if any(w['node'] is x for x in ast.walk(n))]
                calls = [c for c in fe.method_calls
                         if any(c['node'] is x for x in ast.walk(n)) and
                         E.mutates_receiver(c['method'])]
                if writes or calls:
                    others.append(n)
        col.check(not others, rule, TABLE, q, 'single-path', others[0]
                  if others else f, 'no other branch on inplace writes',
                  'a second branch on inplace performs writes: the in-place '
                  'and non-in-place variants follow different code paths')
        # the copy is made before anything is written
        # (bind statement dominates all writes: it is at function level and
        # precedes them in the body)
        first_write = min([w['node'].lineno for w in fe.writes] +
                          [10 ** 9])
        col.check(fe.bind_node.lineno < first_write, rule, TABLE, q,
                  'bind-first', fe.bind_node, 'bound before the first write',
                  'a write precedes the binding of %s' % fe.bind)


def rule_ef_new(repo, col, only=None):
    """Methods documented to return a new table, and every accessor (every
    Table method not in the enumerated mutator table), have only
    representation-only write effects on ``self`` and on Table-typed
    arguments."""
    rule = 'EF-NEW'
    E = effects(repo)
    n = 0
    for (rel, q), fe in sorted(E.funcs.items()):
        if rel != TABLE or not q.startswith('Table.'):
            continue
        m = q.split('.', 1)[1]
        if m in MUTATORS:
            continue
        if only is not None and m not in only:
            continue
        n += 1
        role = 'new-table' if m in NEW_TABLE_OPS else 'accessor'
        obs = [w for w in fe.writes if w['kind'] == 'observable' and
               (w['table'] == 'self' or w['table'].startswith('param:'))]
        calls = []
        for c in fe.method_calls:
            if c['table'] == 'self' or c['table'].startswith('param:'):
                val = _inplace_value(c)
                if E.mutates_receiver(c['method'], val):
                    calls.append(c)
        if obs:
            w = obs[0]
            col.bad(rule, TABLE, q, role, w['node'],
                    '%s writes %s of %s (%s): a %s must leave its receiver '
                    'and argument tables unchanged'
                    % (q, w['field'], w['table'], w['how'],
                       'new-table operation' if role == 'new-table'
                       else 'read accessor'))
        elif calls:
            c = calls[0]
            col.bad(rule, TABLE, q, role, c['node'],
                    '%s calls the mutating %s(...) on %s'
                    % (q, c['method'], c['table']))
        else:
            col.ok(rule, TABLE, q, role, fe.func,
                   'no observable write through self or argument tables '
                   '(%d representation-only)' % sum(
                       1 for w in fe.writes if w['kind'] == 'repr'))
        for k in fe.kernel_calls:
            tabs = {t for kind, t, fld in k['roots'] if kind == 'array'}
            col.check(bool(tabs) and tabs <= {'fresh'}, 'EF-KROOT', TABLE, q,
                      'kernel:%s' % k['kernel'], k['node'],
                      'the in-place kernel runs on a fresh table\'s matrix',
                      'the in-place kernel %s is handed an array rooted at '
                      '%s' % (k['kernel'], sorted(tabs) or 'unknown'))
    if only is None and n < 40:
        raise AnalysisError('EF-NEW: only %d Table methods analysed' % n)


def rule_ef_fresh(repo, col):
    """The matrix that becomes a new table's ``_data`` is the constructor's
    own copy (copying ``astype``), per-id metadata mappings are rebuilt by
    ``_cast_metadata`` in the constructor, and ``copy()`` copies ids and
    metadata."""
    rule = 'EF-FRESH'
    init = repo.func(TABLE, 'Table.__init__')
    copies = None
    for n in body_walk(init):
        if isinstance(n, ast.Assign) and dotted(n.targets[0]) == 'self._data' \
                and isinstance(n.value, ast.Call) and isinstance(
                n.value.func, ast.Attribute) and \
                n.value.func.attr in ('astype', 'copy'):
            cp = kwarg(n.value, 'copy')
            copies = n if cp is None or (isinstance(cp, ast.Constant) and
                                         cp.value is True) else False
            # the copy only protects every caller when it is made on
            # every path
            if copies is not False and n not in init.body:
                copies = False
    ctor_copies = copies not in (None, False)
    # per call site
    n_sites = 0
    for rel, q, f in repo.all_functions():
        if rel.endswith('.pyx'):
            continue
        for c in body_walk(f):
            if isinstance(c, ast.Call) and (
                    call_name(c) in ('Table', 'cls') or
                    (call_name(c) or '').endswith('.__class__')) and c.args:
                if call_name(c) == 'cls' and not q.startswith('Table.'):
                    continue
                n_sites += 1
                fe = FuncEffects(repo, rel, q, f)
                roots = fe.root_of(c.args[0])
                aliased = {t for k, t, fld in roots if k == 'array'}
                site_fresh = not aliased
                role = 'ctor-data@%s' % _site_ordinal(f, c)
                if site_fresh or ctor_copies:
                    col.ok(rule, rel, q, role, c,
                           'matrix is fresh at the call site' if site_fresh
                           else 'matrix may alias %s._data but the '
                           'constructor copies (astype)' % sorted(aliased))
                else:
                    col.bad(rule, rel, q, role, c,
                            'the new table shares its matrix with %s: the '
                            'constructor does not copy and the call site '
                            'passes an alias; later in-place changes show '
                            'through' % sorted(aliased))
    if n_sites < 15:
        col.unknown(rule, TABLE, 'Table', 'ctor-sites', None,
                    'only %d constructor sites found' % n_sites)
    # _cast_metadata rebuilds the mappings
    cm = repo.func(TABLE, 'Table._cast_metadata')
    rebuilds = False
    for n in ast.walk(cm):
        if isinstance(n, ast.For):
            news = [x for x in ast.walk(n) if isinstance(x, ast.Assign) and
                    isinstance(x.value, ast.Call) and call_name(x.value) in (
                        'defaultdict', 'dict')]
            appends = [x for x in ast.walk(n) if isinstance(x, ast.Call) and
                       isinstance(x.func, ast.Attribute) and
                       x.func.attr == 'append' and x.args and news and
                       dotted(x.args[0]) == dotted(news[0].targets[0])]
            if news and appends:
                rebuilds = True
    called = any(isinstance(n, ast.Call) and
                 dotted(n.func) == 'self._cast_metadata'
                 for n in body_walk(init))
    col.check(rebuilds and called, rule, TABLE, 'Table.__init__',
              'metadata-rebuilt', cm, 'the constructor rebuilds every per-id '
              'metadata mapping (new dict per entry)',
              'per-id metadata mappings are not rebuilt by the constructor: '
              'tables built from another table\'s metadata share its dicts')
    # copy()
    cp = repo.func(TABLE, 'Table.copy')
    calls = [n for n in body_walk(cp) if isinstance(n, ast.Call) and (
        call_name(n) or '').endswith('__class__')]
    if len(calls) != 1:
        col.unknown(rule, TABLE, 'Table.copy', 'copy', cp,
                    'constructor call not found')
    else:
        c = calls[0]
        from .astutil import local_assignments
        las = local_assignments(cp)

        def res(e):
            if isinstance(e, ast.Name) and e.id in las and \
                    len(las[e.id]) == 1 and las[e.id][0][0] is not None:
                return las[e.id][0][0]
            return e
        import copy as _copy
        c = _copy.copy(c)
        c.args = [res(a) for a in c.args]
        c.keywords = [ast.keyword(arg=k.arg, value=res(k.value))
                      for k in c.keywords]
        data_fresh = isinstance(c.args[0], ast.Call) and isinstance(
            c.args[0].func, ast.Attribute) and \
            c.args[0].func.attr == 'copy'
        col.check(data_fresh or ctor_copies, rule, TABLE, 'Table.copy',
                  'copy-data', c, 'the matrix is copied (call site and/or '
                  'constructor)', 'copy() shares the matrix with the '
                  'original')
        for i, what in ((1, 'observation ids'), (2, 'sample ids')):
            a = c.args[i] if len(c.args) > i else None
            ok = isinstance(a, ast.Call) and isinstance(
                a.func, ast.Attribute) and a.func.attr == 'copy' or (
                isinstance(a, ast.Call) and call_name(a) in ('deepcopy',
                                                             'np.array'))
            col.check(bool(ok), rule, TABLE, 'Table.copy',
                      'copy-%s' % what.replace(' ', '-'), a or c,
                      '%s are copied' % what,
                      '%s of the copy alias the original\'s array' % what)
        for i, what in ((3, 'observation metadata'),
                        (4, 'sample metadata')):
            a = c.args[i] if len(c.args) > i else None
            ok = isinstance(a, ast.Call) and call_name(a) in (
                'deepcopy', 'copy.deepcopy')
            col.check(bool(ok), rule, TABLE, 'Table.copy',
                      'copy-%s' % what.replace(' ', '-'), a or c,
                      '%s is deep-copied' % what,
                      '%s is not deep-copied: nested values (lists) are '
                      'shared with the original' % what)
        ty = kwarg(c, 'type')
        col.check(ty is not None and dotted(ty) == 'self.type', rule, TABLE,
                  'Table.copy', 'copy-type', c, 'type is carried over',
                  'the copy loses the table type')


def _site_ordinal(func, node):
    sites = sorted((n.lineno, n.col_offset) for n in body_walk(func)
                   if isinstance(n, ast.Call) and (
                       call_name(n) in ('Table', 'cls') or
                       (call_name(n) or '').endswith('.__class__')))
    return sites.index((node.lineno, node.col_offset)) + 1


_POSITIVE_NOMUT = '''
class Table:
    def f(self, axis):
        ids = self.ids(axis=axis)
        ids[0] = 'x'
'''


def rule_ef_nomut(repo, col):
    """No in-place element write / in-place mutating call on any expression
    aliasing a table's id array or index dict (this is what makes the many
    ``ids[:]`` views and shared index dicts harmless)."""
    rule = 'EF-NOMUT'
    # positive control
    tree = ast.parse(_POSITIVE_NOMUT)
    pf = tree.body[0].body[0]

    class _R:
        def func(self, rel, q):
            raise AnalysisError('x')
    fe = FuncEffects(_R(), 'x', 'Table.f', pf)
    if not any(w['field'] == '_ids' and w['how'] == 'element'
               for w in fe.writes):
        raise AnalysisError('EF-NOMUT positive control did not fire')
    E = effects(repo)
    n_funcs = 0
    bad = []
    for (rel, q), fe in sorted(E.funcs.items()):
        n_funcs += 1
        for w in fe.writes:
            if w['field'] in ('_ids', '_sample_ids', '_observation_ids',
                              '_index', '_sample_index', '_obs_index') and \
                    w['how'] not in ('store',) and w['kind'] == 'observable':
                if w['table'] == 'fresh':
                    continue
                bad.append((rel, q, w))
    for rel, q, w in bad:
        col.bad(rule, rel, q, '%s:%s' % (w['how'], w['field']), w['node'],
                'in-place %s on an object that aliases %s of table %s: id '
                'arrays and index dicts are shared between tables (views, '
                'copies of references), so this shows through in other '
                'tables' % (w['how'], w['field'], w['table']))
    col.check(True, rule, TABLE, '<package>', 'scan', None,
              '%d functions scanned, %d in-place writes on id arrays / '
              'index dicts' % (n_funcs, len(bad)), '')
    # shuffling in subsample acts on a copy
    fe = E.method('subsample')
    sh = [n for n in body_walk(fe.func) if isinstance(n, ast.Call) and
          (call_name(n) or '').endswith('.shuffle') and n.args]
    for n in sh:
        roots = fe.root_of(n.args[0])
        col.check(not roots, rule, TABLE, 'Table.subsample', 'shuffle', n,
                  'the shuffled id array is a private copy',
                  'ids are shuffled in place on an array that aliases %s'
                  % sorted(roots))


def rule_ef_meta(repo, col):
    """add_metadata / del_metadata / _cast_metadata / add_group_metadata
    write only metadata fields: never ids, lookups or the matrix."""
    rule = 'EF-META'
    E = effects(repo)
    for m in ('add_metadata', 'del_metadata', '_cast_metadata',
              'add_group_metadata'):
        q = 'Table.%s' % m
        fe = E.method(m)
        if fe is None:
            raise AnalysisError('%s not found' % q)
        other = [w for w in fe.writes
                 if w['field'] not in METADATA_FIELDS and
                 w['kind'] == 'observable']
        col.check(not other, rule, TABLE, q, 'fields', other[0]['node']
                  if other else fe.func, 'writes metadata fields only',
                  '%s writes %s' % (q, other[0]['field'] if other else ''))
        calls = [c for c in fe.method_calls
                 if c['table'] == 'self' and
                 c['method'] not in ('_cast_metadata', 'metadata', 'ids',
                                     'exists', 'index') and
                 E.mutates_receiver(c['method'])]
        col.check(not calls, rule, TABLE, q, 'calls', calls[0]['node']
                  if calls else fe.func, 'calls no other mutator',
                  '%s calls the mutator %s' % (
                      q, calls[0]['method'] if calls else ''))
        col.check(not fe.kernel_calls, rule, TABLE, q, 'kernels', fe.func,
                  'no kernel call', 'calls a matrix kernel')


RULE_TEXT = {
    'EF-BIND': rule_ef_bind.__doc__,
    'EF-KROOT': 'arrays handed to the in-place kernels _filter / _transform '
                '/ subsample are rooted at the inplace-bound name or a '
                'fresh table, never at self / arguments of a non-in-place '
                'path',
    'EF-NEW': rule_ef_new.__doc__,
    'EF-FRESH': rule_ef_fresh.__doc__,
    'EF-NOMUT': rule_ef_nomut.__doc__,
    'EF-META': rule_ef_meta.__doc__,
}
