"""Write effects and ownership of Table methods (EF-* rules).

For every function: which table (``self``, a Table-typed parameter, a fresh
table) each local name may alias, which arrays alias a table's fields, and
which writes happen through which root.  Effects are *observable* or
*representation-only* (format conversions of ``_data``, ``eliminate_zeros``,
``sort_indices`` -- value-preserving by scipy's contract).
"""
import ast

from .astutil import (body_walk, call_name, dotted, kwarg, param_default,
                      param_names, target_names, unparse, walk_shallow)

TABLE = 'biom/table.py'

FIELDS = ('_data', '_sample_ids', '_observation_ids', '_sample_metadata',
          '_observation_metadata', '_sample_index', '_obs_index',
          '_sample_group_metadata', '_observation_group_metadata', 'type',
          'table_id', 'create_date', 'generated_by', 'format_version')
MAYALIAS_CONV = {'tocsr', 'tocsc', 'asformat', 'tocoo', 'view'}
FRESH_CONV = {'copy', 'astype', 'transpose', 'toarray', 'todense', 'tolist',
              'getrow', 'getcol', 'sum', 'tolil', 'todok'}
REPR_ONLY_CALLS = {'eliminate_zeros', 'sort_indices', 'sum_duplicates',
                   'sorted_indices', 'has_sorted_indices'}
MUTATING_CALLS = {'update', 'pop', 'popitem', 'clear', 'setdefault',
                  'append', 'extend', 'insert', 'remove', 'sort', 'reverse',
                  'fill', 'put', 'resize', 'itemset', '__setitem__',
                  'setflags', 'partition'}
KERNELS = {'_filter': 0, '_transform': 0, 'subsample': 0}
TABLE_FACTORIES = {'copy', 'sort_order', 'sort', 'transpose', 'head',
                   'subsample', 'collapse', 'merge', '_fast_merge', 'concat',
                   'align_to'}
INPLACE_METHODS_HINT = ('filter', 'transform', 'norm', 'pa', 'rankdata',
                        'remove_empty', 'update_ids')
TABLE_PARAMS = {'other', 'table', 't', 'tab'}


class Root:
    """What a name/expression may refer to."""
    __slots__ = ('kind', 'table', 'field')

    def __init__(self, kind, table=None, field=None):
        self.kind = kind        # 'table' | 'array' | 'fresh' | 'other'
        self.table = table      # 'self' | 'param:<n>' | 'fresh' | 'B'
        self.field = field

    def __repr__(self):
        return '<%s %s %s>' % (self.kind, self.table, self.field)

    def key(self):
        return (self.kind, self.table, self.field)


def find_bind(func):
    """``B = self if inplace else self.copy()`` (conditional expression or
    if/else) -> (B, node) or None."""
    def is_self(e):
        return isinstance(e, ast.Name) and e.id == 'self'

    def is_copy(e):
        return isinstance(e, ast.Call) and isinstance(
            e.func, ast.Attribute) and e.func.attr in ('copy', '__copy__',
                                                       '__deepcopy__') and \
            is_self(e.func.value) or (
                isinstance(e, ast.Call) and call_name(e) in (
                    'deepcopy', 'copy.deepcopy', 'copy.copy') and e.args and
                is_self(e.args[0]))

    def is_inplace(t):
        return isinstance(t, ast.Name) and t.id == 'inplace'
    for n in body_walk(func):
        if isinstance(n, ast.Assign) and isinstance(n.targets[0], ast.Name) \
                and isinstance(n.value, ast.IfExp):
            v = n.value
            if is_inplace(v.test) and is_self(v.body) and is_copy(v.orelse):
                return n.targets[0].id, n
            if isinstance(v.test, ast.UnaryOp) and isinstance(
                    v.test.op, ast.Not) and is_inplace(v.test.operand) and \
                    is_copy(v.body) and is_self(v.orelse):
                return n.targets[0].id, n
        if isinstance(n, ast.If) and is_inplace(n.test) and \
                n.body and n.orelse:
            # the branches may do more (e.g. a check that only concerns the
            # in-place case) as long as each binds the same name, to self
            # and to a copy
            def binding(blk, pred):
                for st in blk:
                    if isinstance(st, ast.Assign) and isinstance(
                            st.targets[0], ast.Name) and pred(st.value):
                        return st.targets[0].id
                return None
            a = binding(n.body, is_self)
            b = binding(n.orelse, is_copy)
            if a and a == b:
                return a, n
    return None


class FuncEffects:
    def __init__(self, repo, rel, qual, func, table_like_params=(),
                 seed_roots=None, depth=0):
        bind = find_bind(func) if 'inplace' in param_names(func) else None
        self.bind = bind[0] if bind else None
        self.bind_node = bind[1] if bind else None
        self.repo = repo
        self.rel = rel
        self.qual = qual
        self.func = func
        self.params = param_names(func)
        self.roots = {}              # name -> set of Root keys
        self.holds = {}              # local container -> roots of what it holds
        self.writes = []             # dict(node, table, field, kind, how)
        self.kernel_calls = []       # dict(node, kernel, table, roots)
        self.method_calls = []       # dict(node, table, method, inplace)
        self.table_like = set(table_like_params)
        self.depth = depth
        for k_, v_ in (seed_roots or {}).items():
            self.roots[k_] = set(v_)
        self._analyse()

    # ---- aliasing -----------------------------------------------------
    def root_of(self, e):
        """Set of root keys an expression may alias."""
        if e is None:
            return set()
        if isinstance(e, ast.Name):
            if e.id == 'self':
                return {('table', 'self', None)}
            if self.bind and e.id == self.bind:
                return {('table', 'B', None)}
            if e.id in self.roots:
                return set(self.roots[e.id])
            if e.id in self.table_like:
                return {('table', 'param:%s' % e.id, None)}
            return set()
        if isinstance(e, ast.Attribute):
            base = self.root_of(e.value)
            out = set()
            for k, t, f in base:
                if k == 'table' and e.attr in FIELDS:
                    out.add(('array', t, e.attr))
                elif k == 'table' and e.attr == 'matrix_data':
                    out.add(('array', t, '_data'))
                elif k == 'array' and e.attr in ('T', 'data', 'indices',
                                                 'indptr', 'row', 'col'):
                    out.add(('array', t, f))
            return out
        if isinstance(e, ast.Subscript):
            base = self.root_of(e.value)
            out = set()
            if isinstance(e.value, ast.Name) and e.value.id in self.holds \
                    and not isinstance(e.slice, ast.Slice):
                # element of a local container that holds aliases
                out |= self.holds[e.value.id]
            for k, t, f in base:
                if k == 'array':
                    # basic slicing returns a view; fancy indexing copies
                    sl = e.slice
                    if isinstance(sl, ast.Slice) or (
                            isinstance(sl, ast.Tuple) and all(
                                isinstance(x, ast.Slice) for x in sl.elts)):
                        out.add((k, t, f))
                    elif f and 'metadata' in f:
                        # element of a metadata tuple: the per-id dict
                        out.add(('array', t, f))
            return out
        if isinstance(e, ast.IfExp):
            return self.root_of(e.body) | self.root_of(e.orelse)
        if isinstance(e, ast.BinOp) and isinstance(e.op, ast.Add):
            # [self] + others : a list holding both
            return self.root_of(e.left) | self.root_of(e.right)
        if isinstance(e, (ast.List, ast.Tuple)):
            out = set()
            for x in e.elts:
                out |= self.root_of(x)
            return out
        if isinstance(e, ast.Call):
            name = call_name(e) or ''
            if isinstance(e.func, ast.Attribute):
                recv = self.root_of(e.func.value)
                attr = e.func.attr
                out = set()
                if isinstance(e.func.value, ast.Name) and \
                        e.func.value.id in self.holds and attr in (
                            'get', 'pop', 'setdefault', '__getitem__'):
                    out |= self.holds[e.func.value.id]
                for k, t, f in recv:
                    if k == 'table':
                        if attr in ('ids',):
                            ax = kwarg(e, 'axis') or (e.args[0] if e.args
                                                      else None)
                            out.add(('array', t, '_ids'))
                        elif attr == 'metadata':
                            out.add(('array', t, '_metadata'))
                        elif attr == '_index':
                            out.add(('array', t, '_index'))
                        elif attr == '_get_sparse_data':
                            out.add(('array', t, '_data'))
                        elif attr in ('_get_row', '_get_col', 'data'):
                            pass        # fresh vectors
                        elif attr in TABLE_FACTORIES:
                            out.add(('table', 'fresh', None))
                        elif attr in INPLACE_METHODS_HINT:
                            ip = kwarg(e, 'inplace')
                            dflt = self._inplace_default(attr)
                            if ip is None:
                                val = dflt
                            elif isinstance(ip, ast.Constant):
                                val = bool(ip.value)
                            else:
                                val = None
                            if val is False:
                                out.add(('table', 'fresh', None))
                            elif val is True:
                                out.add((k, t, f))
                            else:
                                out.add((k, t, f))
                                out.add(('table', 'fresh', None))
                    elif k == 'array':
                        if attr in MAYALIAS_CONV:
                            out.add((k, t, f))
                        elif attr == 'astype' and not (
                                kwarg(e, 'copy') is None or (
                                    isinstance(kwarg(e, 'copy'),
                                               ast.Constant) and
                                    kwarg(e, 'copy').value is True)):
                            # astype(copy=False) returns the array itself
                            # when the dtype already matches
                            out.add((k, t, f))
                        elif attr in ('reshape', 'ravel', 'squeeze'):
                            out.add((k, t, f))
                        elif attr == 'get':
                            out.add((k, t, f))
                return out
            if name in ('Table', 'cls') or name.endswith('.__class__'):
                return {('table', 'fresh', None)}
            if name in ('np.asarray', 'asarray', 'np.asanyarray') and \
                    e.args:
                return self.root_of(e.args[0])    # no copy for ndarray
            if name in ('np.array', 'array') and e.args and isinstance(
                    kwarg(e, 'copy'), ast.Constant) and \
                    kwarg(e, 'copy').value is False:
                return self.root_of(e.args[0])
            if name in ('_filter',) and e.args:
                return self.root_of(e.args[0])
            return set()
        return set()

    def _inplace_default(self, meth):
        try:
            f = self.repo.func(TABLE, 'Table.%s' % meth)
        except Exception:
            return None
        d = param_default(f, 'inplace')
        if isinstance(d, ast.Constant):
            return bool(d.value)
        return None

    def _analyse(self):
        f = self.func
        # lists of tables built from a table-typed parameter: others[:],
        # list(others), plus what is inserted / appended into them
        for n in body_walk(f):
            if isinstance(n, ast.Assign) and isinstance(n.targets[0],
                                                        ast.Name):
                v = n.value
                src = None
                if isinstance(v, ast.Subscript) and isinstance(
                        v.value, ast.Name):
                    src = v.value.id
                elif isinstance(v, ast.Call) and call_name(v) in (
                        'list', 'tuple') and v.args and isinstance(
                        v.args[0], ast.Name):
                    src = v.args[0].id
                elif isinstance(v, ast.Name):
                    src = v.id
                if src in self.table_like:
                    self.roots.setdefault(n.targets[0].id, set()).add(
                        ('table', 'param:%s' % src, None))
        for n in body_walk(f):
            if isinstance(n, ast.Call) and isinstance(n.func, ast.Attribute) \
                    and n.func.attr in ('insert', 'append') and isinstance(
                        n.func.value, ast.Name) and \
                    n.func.value.id in self.roots and n.args and isinstance(
                        n.args[-1], ast.Name) and n.args[-1].id == 'self':
                self.roots[n.func.value.id].add(('table', 'self', None))
        # fixpoint over simple assignments (flow-insensitive union)
        changed = True
        rounds = 0
        while changed and rounds < 10:
            changed = False
            rounds += 1
            for n in body_walk(f):
                pairs = []
                if isinstance(n, ast.Assign):
                    for t in n.targets:
                        if isinstance(t, ast.Name):
                            pairs.append((t.id, self.root_of(n.value)))
                        elif isinstance(t, (ast.Tuple, ast.List)):
                            if isinstance(n.value, ast.Call) and \
                                    call_name(n.value) == '_filter':
                                names = target_names(t)
                                if names:
                                    pairs.append((names[0],
                                                  self.root_of(
                                                      n.value.args[0])))
                            elif isinstance(n.value, (ast.Tuple, ast.List)) \
                                    and len(n.value.elts) == len(t.elts):
                                for te, ve in zip(t.elts, n.value.elts):
                                    if isinstance(te, ast.Name):
                                        pairs.append((te.id,
                                                      self.root_of(ve)))
                elif isinstance(n, (ast.For, ast.comprehension)):
                    it = n.iter
                    r = self.root_of(it)
                    # iterating a list of tables / metadata tuple
                    names = target_names(n.target)
                    if isinstance(it, ast.Name) and it.id in self.roots:
                        for nm in names:
                            pairs.append((nm, self.roots[it.id]))
                    elif isinstance(it, ast.Call) and \
                            call_name(it) == 'zip':
                        for te, a in zip(
                                n.target.elts if isinstance(
                                    n.target, (ast.Tuple, ast.List)) else [],
                                it.args):
                            if isinstance(te, ast.Name):
                                pairs.append((te.id, self.root_of(a)))
                    elif r:
                        for nm in names:
                            pairs.append((nm, r))
                # local containers filled with aliases (dict / list)
                hp = []
                if isinstance(n, ast.Assign):
                    for t in n.targets:
                        if isinstance(t, ast.Subscript) and isinstance(
                                t.value, ast.Name) and not self.root_of(
                                t.value):
                            hp.append((t.value.id, self.root_of(n.value)))
                        elif isinstance(t, ast.Name) and isinstance(
                                n.value, (ast.DictComp,)):
                            hp.append((t.id, self.root_of(n.value.value)))
                        elif isinstance(t, ast.Name) and isinstance(
                                n.value, ast.Dict):
                            r_ = set()
                            for x in n.value.values:
                                r_ |= self.root_of(x)
                            hp.append((t.id, r_))
                elif isinstance(n, ast.Call) and isinstance(
                        n.func, ast.Attribute) and isinstance(
                        n.func.value, ast.Name) and n.func.attr in (
                        'append', 'add', 'insert', 'setdefault') and \
                        n.args and not self.root_of(n.func.value):
                    hp.append((n.func.value.id, self.root_of(n.args[-1])))
                for name, r in hp:
                    r = {x for x in r if x[0] == 'array'}
                    if r - self.holds.get(name, set()):
                        self.holds.setdefault(name, set()).update(r)
                        changed = True
                if isinstance(n, (ast.For, ast.comprehension)):
                    it = n.iter
                    hn = None
                    pos = None
                    if isinstance(it, ast.Name) and it.id in self.holds:
                        hn = it.id
                    elif isinstance(it, ast.Call) and isinstance(
                            it.func, ast.Attribute) and isinstance(
                            it.func.value, ast.Name) and \
                            it.func.value.id in self.holds and \
                            it.func.attr in ('values', 'items'):
                        hn = it.func.value.id
                        pos = 1 if it.func.attr == 'items' else None
                    if hn is not None:
                        tg = n.target
                        if pos is not None and isinstance(
                                tg, (ast.Tuple, ast.List)) and \
                                len(tg.elts) == 2:
                            tg = tg.elts[1]
                        for nm in target_names(tg):
                            pairs.append((nm, self.holds[hn]))
                for name, r in pairs:
                    if name == self.bind:
                        continue
                    if r - self.roots.get(name, set()):
                        self.roots.setdefault(name, set()).update(r)
                        changed = True
        # lists of tables: others / all_tables
        for n in body_walk(f):
            if isinstance(n, ast.Assign) and isinstance(n.targets[0],
                                                        ast.Name):
                v = n.value
                if isinstance(v, ast.Subscript) and isinstance(
                        v.value, ast.Name) and v.value.id in self.table_like:
                    self.roots.setdefault(n.targets[0].id, set()).add(
                        ('table', 'param:%s' % v.value.id, None))
        # effects
        for n in body_walk(f):
            self._effects_of(n)

    def _reaching_roots(self, name, node, fallback):
        """Roots of `name` restricted to the assignments that reach `node`
        (flow-sensitive refinement of the union used elsewhere)."""
        try:
            from .cfg import CFG
            if not hasattr(self, '_cfg'):
                self._cfg = CFG(self.func)
            cfg = self._cfg
            here = [c for c in cfg.stmt_nodes() if c.kind == 'stmt' and any(
                x is node for x in ast.walk(c.stmt)) and not isinstance(
                c.stmt, (ast.For, ast.While, ast.If, ast.With, ast.Try))]
            if not here:
                return fallback
            defs = {}
            for c in cfg.stmt_nodes():
                st = c.stmt
                if c.kind == 'stmt' and isinstance(st, ast.Assign) and any(
                        isinstance(t, ast.Name) and t.id == name
                        for t in st.targets):
                    defs[c] = st.value
            if not defs:
                return fallback
            out = set()
            seen = set()
            stack = list(cfg.pred[here[0]])
            reached_entry = False
            while stack:
                c = stack.pop()
                if c in seen:
                    continue
                seen.add(c)
                if c in defs:
                    out |= self.root_of(defs[c])
                    continue
                if c is cfg.entry:
                    reached_entry = True
                stack.extend(cfg.pred[c])
            if reached_entry:
                return fallback        # may be a parameter / loop target
            return out
        except Exception:
            return fallback

    def _repr_only_store(self, target_field, value, owner_roots):
        """``X._data = X._data.tocsr()`` and the like."""
        if target_field != '_data':
            return False
        v = value
        while isinstance(v, ast.Call) and isinstance(v.func, ast.Attribute) \
                and v.func.attr in MAYALIAS_CONV | {'sorted_indices'}:
            v = v.func.value
        if isinstance(v, ast.Call) and isinstance(v.func, ast.Attribute) and \
                v.func.attr == '_get_sparse_data':
            return self.root_of(v.func.value) == owner_roots
        r = self.root_of(v)
        return bool(r) and all(k == 'array' and f == '_data'
                               for k, t, f in r) and \
            {t for k, t, f in r} == {t for k, t, f in owner_roots}

    def _effects_of(self, n):
        if isinstance(n, (ast.Assign, ast.AugAssign, ast.Delete)):
            targets = n.targets if not isinstance(n, ast.AugAssign) else \
                [n.target]
            for t in targets:
                if isinstance(t, ast.Attribute):
                    owners = self.root_of(t.value)
                    for k, tb, f in owners:
                        if k == 'table' and t.attr in FIELDS:
                            value = getattr(n, 'value', None)
                            repr_only = isinstance(n, ast.Assign) and \
                                self._repr_only_store(t.attr, value,
                                                      {(k, tb, f)})
                            self.writes.append({
                                'node': n, 'table': tb, 'field': t.attr,
                                'kind': 'repr' if repr_only else
                                'observable', 'how': 'store'})
                elif isinstance(t, ast.Subscript):
                    base = t.value
                    while isinstance(base, ast.Subscript):
                        base = base.value
                    for k, tb, f in self.root_of(base):
                        if k == 'array':
                            self.writes.append({
                                'node': n, 'table': tb, 'field': f,
                                'kind': 'observable', 'how': 'element'})
                elif isinstance(t, ast.Name) and isinstance(n,
                                                            ast.AugAssign):
                    for k, tb, f in self.root_of(t):
                        if k == 'array':
                            self.writes.append({
                                'node': n, 'table': tb, 'field': f,
                                'kind': 'observable', 'how': 'augassign'})
        if isinstance(n, ast.Call):
            name = call_name(n) or ''
            # numpy's out= writes the result into an existing array
            outk = kwarg(n, 'out')
            if outk is not None:
                for k, tb, f in self.root_of(outk):
                    if k == 'array':
                        self.writes.append({
                            'node': n, 'table': tb, 'field': f,
                            'kind': 'observable', 'how': 'out='})
            if name in KERNELS and n.args:
                roots = self.root_of(n.args[KERNELS[name]])
                self.kernel_calls.append({'node': n, 'kernel': name,
                                          'roots': roots})
                for k, tb, f in roots:
                    if k == 'array':
                        self.writes.append({'node': n, 'table': tb,
                                            'field': f, 'kind': 'observable',
                                            'how': 'kernel:%s' % name})
            if isinstance(n.func, ast.Attribute):
                attr = n.func.attr
                recv = self.root_of(n.func.value)
                if attr in MUTATING_CALLS and isinstance(n.func.value,
                                                         ast.Name):
                    # which assignments of the name can reach this call?
                    recv = self._reaching_roots(n.func.value.id, n, recv)
                for k, tb, f in recv:
                    if k == 'array' and attr in REPR_ONLY_CALLS:
                        self.writes.append({'node': n, 'table': tb,
                                            'field': f, 'kind': 'repr',
                                            'how': attr})
                    elif k == 'array' and attr in MUTATING_CALLS:
                        self.writes.append({'node': n, 'table': tb,
                                            'field': f, 'kind': 'observable',
                                            'how': attr})
                    elif k == 'table':
                        self.method_calls.append({
                            'node': n, 'table': tb, 'method': attr,
                            'inplace': kwarg(n, 'inplace')})
            self._helper_effects(n, name)
            # functions mutating their first argument
            if name.endswith('.shuffle') and n.args:
                for k, tb, f in self.root_of(n.args[0]):
                    if k == 'array':
                        self.writes.append({'node': n, 'table': tb,
                                            'field': f, 'kind': 'observable',
                                            'how': 'shuffle'})


    def _helper_effects(self, n, name):
        """A private helper that is handed an array of a table's state and
        changes it in place changes the table: the helper is analysed with
        its parameters bound to the caller's roots (depth <= 2)."""
        if self.depth >= 2:
            return
        callee = None
        if isinstance(n.func, ast.Attribute) and isinstance(
                n.func.value, ast.Name) and n.func.value.id in (
                'self', 'cls') and n.func.attr.startswith('_') and \
                not n.func.attr.startswith('__'):
            q = 'Table.%s' % n.func.attr
            if self.rel == TABLE and self.repo.has_func(TABLE, q):
                callee = (TABLE, q, self.repo.func(TABLE, q))
        elif isinstance(n.func, ast.Name) and n.func.id.startswith('_') \
                and n.func.id not in KERNELS and \
                self.repo.has_func(self.rel, n.func.id):
            callee = (self.rel, n.func.id,
                      self.repo.func(self.rel, n.func.id))
        if callee is None:
            return
        rel, q, fn = callee
        if isinstance(fn, ast.Lambda) or fn is self.func:
            return
        params = [p_ for p_ in param_names(fn) if p_ not in ('self', 'cls')]
        seeds = {}
        for p_, a_ in zip(params, n.args):
            if isinstance(a_, ast.Starred):
                break
            r = {x for x in self.root_of(a_) if x[0] == 'array'}
            if r:
                seeds[p_] = r
        for kw in n.keywords:
            if kw.arg in params:
                r = {x for x in self.root_of(kw.value) if x[0] == 'array'}
                if r:
                    seeds[kw.arg] = r
        if not seeds:
            return
        wanted = set()
        for r in seeds.values():
            wanted |= {(t, f) for k, t, f in r}
        try:
            sub = FuncEffects(self.repo, rel, q, fn, seed_roots=seeds,
                              depth=self.depth + 1)
        except Exception:
            return
        for w in sub.writes:
            if (w['table'], w['field']) in wanted and \
                    w['kind'] == 'observable':
                self.writes.append({
                    'node': n, 'table': w['table'], 'field': w['field'],
                    'kind': 'observable',
                    'how': '%s: %s' % (q.split('.')[-1], w['how'])})


class Effects:
    """Whole-class summaries with transitive method calls."""

    def __init__(self, repo):
        self.repo = repo
        self.funcs = {}
        for rel, q, f in repo.all_functions():
            if rel.endswith('.pyx') or q.count('.') > 1:
                continue
            tl = [p for p in param_names(f) if p in TABLE_PARAMS or
                  p == 'others']
            self.funcs[(rel, q)] = FuncEffects(repo, rel, q, f, tl)
        self._mut = {}

    def method(self, name):
        return self.funcs.get((TABLE, 'Table.%s' % name))

    def mutates_receiver(self, name, inplace=None, _stack=()):
        """Does Table.<name> (called with the given constant ``inplace``
        argument; None = unknown/default) write observably through self?"""
        key = (name, inplace)
        if key in self._mut:
            return self._mut[key]
        if key in _stack:
            return False
        fe = self.method(name)
        if fe is None:
            return False
        params = fe.params
        has_inplace = 'inplace' in params
        if has_inplace and inplace is None:
            d = param_default(fe.func, 'inplace')
            inplace = bool(d.value) if isinstance(d, ast.Constant) else True
        if has_inplace and inplace is False:
            # governed by EF-BIND: with inplace False the method works on a
            # copy (checked separately for the method itself)
            self._mut[key] = False
            return False
        res = False
        for w in fe.writes:
            if w['kind'] == 'observable' and w['table'] in ('self', 'B'):
                res = True
        for c in fe.method_calls:
            if c['table'] not in ('self', 'B'):
                continue
            ip = c['inplace']
            if ip is None:
                val = None
            elif isinstance(ip, ast.Constant):
                val = bool(ip.value)
            elif isinstance(ip, ast.Name) and ip.id == 'inplace':
                val = inplace
            else:
                val = None
            if self.mutates_receiver(c['method'], val,
                                     _stack + (key,)):
                res = True
        self._mut[key] = res
        return res
