"""Obligation records, known findings, evidence files, exit-code discipline."""
import json
import os
import time

from .astutil import unparse

VERIF = os.path.dirname(os.path.dirname(os.path.abspath(__file__)))
KNOWN_FINDINGS = os.path.join(VERIF, 'known_findings.json')

DISCHARGED, VIOLATED, UNKNOWN, INFO = 'discharged', 'violated', 'unknown', \
    'info'


class Obligation:
    __slots__ = ('rule', 'file', 'func', 'role', 'construct', 'line',
                 'status', 'why')

    def __init__(self, rule, file, func, role, node, status, why):
        self.rule = rule
        self.file = file
        self.func = func
        self.role = role
        if node is None:
            self.construct, self.line = '', 0
        elif isinstance(node, str):
            self.construct, self.line = node, 0
        else:
            self.construct = unparse(node)
            self.line = getattr(node, 'lineno', 0)
        self.status = status
        self.why = why

    def key(self):
        return (self.rule, self.file, self.func, self.role)

    def to_json(self):
        return {'rule': self.rule, 'file': self.file, 'function': self.func,
                'role': self.role, 'construct': self.construct,
                'line': self.line, 'status': self.status, 'why': self.why}

    def __repr__(self):
        return '%s %s:%s [%s] L%d %s -- %s (%s)' % (
            self.rule, self.file, self.func, self.role, self.line,
            self.status, self.construct, self.why)


class Collector:
    """Receives obligations from the rules of one property."""

    def __init__(self, prop):
        self.prop = prop
        self.obs = []
        self.analysed_functions = set()
        self.notes = []
        # rule -> predicate(function name): obligations of a shared rule
        # that concern functions outside this property's scope are not
        # this property's business
        self.scope = {}
        self.out_of_scope = 0

    def add(self, rule, file, func, role, node, status, why=''):
        o = Obligation(rule, file, func, role, node, status, why)
        pred = self.scope.get(rule)
        if pred is not None and func and not func.startswith('<') and \
                not pred(func):
            self.out_of_scope += 1
            return o
        self.obs.append(o)
        if func:
            self.analysed_functions.add('%s:%s' % (file, func))
        return o

    def ok(self, rule, file, func, role, node, why=''):
        return self.add(rule, file, func, role, node, DISCHARGED, why)

    def bad(self, rule, file, func, role, node, why=''):
        return self.add(rule, file, func, role, node, VIOLATED, why)

    def unknown(self, rule, file, func, role, node, why=''):
        return self.add(rule, file, func, role, node, UNKNOWN, why)

    def info(self, rule, file, func, role, node, why=''):
        return self.add(rule, file, func, role, node, INFO, why)

    def check(self, cond, rule, file, func, role, node, why_ok='',
              why_bad=''):
        return self.add(rule, file, func, role, node,
                        DISCHARGED if cond else VIOLATED,
                        why_ok if cond else why_bad)

    def soft(self, cond, rule, file, func, role, node, why_ok='',
             why_unknown=''):
        """For shape-recognition checks: a mismatch means the construct
        was not recognised (unknown), never a violation."""
        return self.add(rule, file, func, role, node,
                        DISCHARGED if cond else UNKNOWN,
                        why_ok if cond else 'shape not recognised: ' +
                        why_unknown)

    def by_rule(self):
        out = {}
        for o in self.obs:
            d = out.setdefault(o.rule, {DISCHARGED: 0, VIOLATED: 0,
                                        UNKNOWN: 0, INFO: 0})
            d[o.status] += 1
        return out

    def resolved(self, rule):
        return sum(1 for o in self.obs if o.rule == rule and
                   o.status in (DISCHARGED, VIOLATED))


def load_known_findings():
    if not os.path.exists(KNOWN_FINDINGS):
        return {'findings': [], 'fixed': []}
    with open(KNOWN_FINDINGS) as f:
        return json.load(f)


def match_known(prop, ob, known):
    for k in known.get('findings', []):
        if k['property'] == prop and k['rule'] == ob.rule and \
                k['file'] == ob.file and k['function'] == ob.func and \
                k['role'] == ob.role:
            return k
    return None


def write_evidence(prop, tier, seed, col, known_matched, violations,
                   wall, rule_texts, minima, trusted, assumptions,
                   extra=None, path=None):
    obs = [o for o in col.obs if o.status != INFO]
    resolved = [o for o in obs if o.status in (DISCHARGED, VIOLATED)]
    # book-keeping obligations (scope scans, positive controls, instance
    # counts) are evaluated but are not counted as non-trivial cases
    distinct = {o.key() + (o.construct,) for o in resolved
                if not (o.func or '').startswith('<') and
                not (o.role or '').endswith(('scan', 'instances',
                                             'positive-control'))}
    by_rule = col.by_rule()
    samples = []
    seen_rules = set()
    for o in col.obs:
        if o.rule not in seen_rules and o.status in (DISCHARGED, VIOLATED):
            seen_rules.add(o.rule)
            samples.append(o.to_json())
    for o in col.obs:
        if o.status == VIOLATED and o.to_json() not in samples:
            samples.append(o.to_json())
    samples = samples[:60]
    cov = {
        'explanation': (
            'Static analysis of /repo working tree (ast of biom/**/*.py, '
            'de-cythonised biom/*.pyx, doc/.../biom-2.1.rst); no repository '
            'code is imported or executed. Each obligation is a structural '
            'clause (a necessary condition) of property %s decided on every '
            'path of the analysed function; unknown = participant not '
            'resolved, never an alarm.' % prop),
        'obligations': len(obs),
        'discharged': sum(1 for o in obs if o.status == DISCHARGED),
        'violated': sum(1 for o in obs if o.status == VIOLATED),
        'unknown': sum(1 for o in obs if o.status == UNKNOWN),
        'evaluations': len(obs),
        'distinct_nontrivial': len(distinct),
        'rule': 'one obligation per (rule, function, role) instance found in '
                'the current source; non-trivial = every participant '
                'resolved (status discharged or violated) and the '
                'obligation concerns a construct of the repository (scope '
                'scans, instance counts and embedded positive controls are '
                'evaluated but not counted); distinct by (rule, file, '
                'function, role, construct)',
        'samples': samples,
        'by_rule': by_rule,
        'rules': rule_texts,
        'vacuity_minima': minima,
        'functions_analysed': sorted(col.analysed_functions),
        'known_findings_matched': known_matched,
        'unknowns': [o.to_json() for o in col.obs
                     if o.status == UNKNOWN][:40],
        'informational': [o.to_json() for o in col.obs
                          if o.status == INFO][:40],
        'checker_cmd': '/venv/bin/python sa/run.py %s --tier %s'
                       % (prop, tier),
        'trusted_base': trusted,
        'exhaustive': False,
        'exhaustive_note': 'each obligation is decided over every path of '
                           'the function it concerns (no sampling); the '
                           'property as a behaviour is not exhausted: only '
                           'the structural clauses named by the rules are',
        'notes': col.notes,
    }
    if extra:
        cov.update(extra)
    ev = {
        'property_id': prop,
        'tier': tier,
        'seed': seed,
        'level': 'other',
        'coverage': cov,
        'assumptions': assumptions,
        'wall_s': round(wall, 3),
        'violations': violations,
    }
    path = path or os.path.join(VERIF, 'evidence', '%s.json' % prop)
    os.makedirs(os.path.dirname(path), exist_ok=True)
    tmp = path + '.tmp'
    with open(tmp, 'w') as f:
        json.dump(ev, f, indent=1, sort_keys=True)
        f.write('\n')
    os.replace(tmp, path)
    return ev
