"""Scope-wide necessary-condition rules.

Unlike the rules anchored at one construct, these walk every function that
is reachable (over the package call graph, resolved by name) from a
property's anchor functions and report constructs that cannot appear on an
exact data path:

TA-NUMLOSS   tolerance comparisons / rounding / narrowing of matrix values
AX-DEFAULT   an axis-parametrised function calling an axis-taking Table
             accessor with the default axis outside an axis-conditioned branch
AG-SHAPEFWD  a converter that accepts ``shape`` builds or delegates the matrix
             without it
SB-EMPTYSCAN a vectorised emptiness filter that is sign-sensitive
AG-FIELDCONST a written header field is re-assigned to something else than
             the constant the writer is specified to emit
"""
import ast

from .astutil import (body_walk, call_name, dotted, kwarg, local_assignments,
                      unparse)

TABLE = 'biom/table.py'
LIB = ('biom/table.py', 'biom/parse.py', 'biom/util.py', 'biom/err.py',
       'biom/__init__.py', 'biom/_filter.pyx', 'biom/_transform.pyx',
       'biom/_subsample.pyx')

RULE_TEXT = {
    'TA-NUMLOSS': 'No function on the data path of the property applies a '
                  'tolerance comparison (isclose/allclose), rounding '
                  '(round/around/rint/floor/ceil/trunc/fix/clip/nan_to_num) '
                  'or a narrowing dtype (float32/float16/intN casts) outside '
                  'the enumerated kernels whose specification is to produce '
                  'integer counts.',
    'AX-DEFAULT': 'Inside a function that takes an `axis` argument, every '
                  'call of an axis-taking Table accessor on a table receiver '
                  'either passes an axis or sits in a branch that is '
                  'conditioned on the axis.',
    'AG-SHAPEFWD': 'A converter with a `shape` parameter hands a value '
                   'derived from it to every matrix constructor / converter '
                   'it builds its result with.',
    'SB-EMPTYSCAN': 'A filter whose selector is computed from per-vector '
                    'sums decides emptiness sign-insensitively.',
    'AG-FIELDCONST': 'Table.format_version is only ever assigned the '
                     'package constant the HDF5 writer is specified to emit.',
}

# methods also defined by numpy/scipy/python containers: an attribute call
# with one of these names on an unresolved receiver is not a Table call
AMBIG = {'sum', 'copy', 'min', 'max', 'transpose', 'sort', 'nonzero',
         'reduce', 'filter', 'index', 'data', 'update', 'items', 'keys',
         'values', 'get', 'append', 'extend', 'iter', 'head', 'concat',
         'merge', 'transform', 'norm', 'T', 'shape', 'dtype', 'astype',
         'pa', 'length', 'ids', 'metadata', 'exists', 'collapse',
         'partition'}
TABLE_NAMES = {'self', 'cls', 'Table', 'table', 'other', 't', 'tab',
               'tmp_table', 'result', 'new_table', 'table_obj'}


def _table_methods(repo):
    cls = repo.cls(TABLE, 'Table')
    return {n.name for n in cls.body if isinstance(n, ast.FunctionDef)}


def _module_funcs(repo, rel):
    m = repo.mod(rel)
    return {n.name for n in m.tree.body if isinstance(n, ast.FunctionDef)}


def _imports(repo, rel):
    """local name -> (rel, name) for `from biom.x import name` in module."""
    out = {}
    m = repo.mod(rel)
    for n in ast.walk(m.tree):
        if isinstance(n, ast.ImportFrom) and n.module:
            mod = n.module
            if n.level:
                base = rel.rsplit('/', 1)[0].replace('/', '.')
                for _ in range(n.level - 1):
                    base = base.rsplit('.', 1)[0]
                mod = base + ('.' + mod if mod else '')
            for cand in (mod.replace('.', '/') + '.py',
                         mod.replace('.', '/') + '.pyx'):
                if cand in repo.modules:
                    for a in n.names:
                        out[a.asname or a.name] = (cand, a.name)
    return out


_CLOSURE_CACHE = {}


def closure(repo, roots, max_depth=6):
    key = (id(repo), repo.digest(), tuple(roots), max_depth)
    if key not in _CLOSURE_CACHE:
        _CLOSURE_CACHE[key] = _closure(repo, roots, max_depth)
    return _CLOSURE_CACHE[key]


def _closure(repo, roots, max_depth=6):
    """Functions reachable from ``roots`` [(rel, qual)] over name-resolved
    calls inside the package (over-approximate on method names that only
    Table defines; ambiguous names need a table-looking receiver)."""
    tm = _table_methods(repo)
    seen = {}
    work = [(r, q, 0) for r, q in roots if repo.has_func(r, q)]
    while work:
        rel, q, d = work.pop()
        if (rel, q) in seen:
            continue
        fn = repo.func(rel, q)
        seen[(rel, q)] = fn
        if d >= max_depth:
            continue
        mf = _module_funcs(repo, rel)
        imp = _imports(repo, rel)
        for n in ast.walk(fn):
            if not isinstance(n, ast.Call):
                continue
            f = n.func
            if isinstance(f, ast.Name):
                if f.id in mf:
                    work.append((rel, f.id, d + 1))
                elif f.id in imp and repo.has_func(*imp[f.id]):
                    work.append(imp[f.id] + (d + 1,))
                elif f.id == 'Table':
                    work.append((TABLE, 'Table.__init__', d + 1))
            elif isinstance(f, ast.Attribute) and f.attr in tm:
                recv = f.value
                base = recv.id if isinstance(recv, ast.Name) else None
                if base in TABLE_NAMES or f.attr not in AMBIG:
                    work.append((TABLE, 'Table.' + f.attr, d + 1))
    return seen


# ---------------------------------------------------------------------------
TOL = {'isclose', 'allclose', 'assert_allclose', 'assert_almost_equal'}
ROUND = {'around', 'round', 'round_', 'rint', 'floor', 'ceil', 'trunc',
         'fix', 'clip', 'nan_to_num'}
# ufunc.reduceat returns the *next* element for an empty segment
SEGMENT = {'reduceat'}
# squaring under/overflows: |x| < 1.5e-162 squares to 0, |x| > 1.3e154 to inf
SQUARE = {'norm', 'square', 'hypot'}
NARROW = {'float32', 'float16', 'half', 'single', 'int8', 'int16', 'int32',
          'int64', 'uint8', 'uint16', 'uint32', 'uint64', 'intc', 'intp',
          'int_', 'int'}
# enumerated exceptions: (file, function, construct) with the reason
NUMLOSS_ALLOWED = {
    ('biom/_subsample.pyx', '_subsample_with_replacement', 'ceil'):
        'documented: with-replacement probabilities use ceil(counts)',
    ('biom/_subsample.pyx', '_subsample_without_replacement', 'astype:int64'):
        'documented: without-replacement draws over integer unit counts',
}


def _dtype_word(e):
    if e is None:
        return None
    if isinstance(e, ast.Constant) and isinstance(e.value, str):
        w = e.value.lower()
        if w.startswith(('int', 'uint', 'i', 'u', 'f4', 'f2', 'float32',
                         'float16', '<i', '<u', '<f4')):
            return w
        return None
    d = dotted(e)
    if d:
        last = d.split('.')[-1]
        if last in NARROW:
            return last
    return None


_POS_CALLS = {'searchsorted', 'argsort', 'arange', 'nonzero', 'flatnonzero',
              'argwhere', 'argmax', 'argmin', 'digitize', 'index', 'get_loc',
              'get_indexer', 'lexsort', 'range', 'len', 'cumsum_positions'}


def _is_position_expr(fn, e, depth=0, seen=None):
    """`e` denotes positions (row / column numbers, offsets), not matrix
    values: results of searchsorted / argsort / arange / nonzero / index,
    the index arrays of a compressed matrix, look-ups in an
    `{id: position}` dict built from enumerate, and arrays built from
    those."""
    seen = seen if seen is not None else set()
    if depth > 6 or e is None:
        return False
    if isinstance(e, ast.Attribute):
        if e.attr in ('indices', 'indptr', 'row', 'col'):
            return True
        return False
    if isinstance(e, ast.Name):
        if e.id in seen:
            return True        # x = x.astype(...): decided by the other defs
        seen.add(e.id)
        defs = [n.value for n in ast.walk(fn) if isinstance(n, ast.Assign)
                and any(isinstance(t, ast.Name) and t.id == e.id
                        for t in n.targets)]
        # x, inverse = np.unique(a, return_inverse=True): the second and
        # later results are positions / counts
        tuple_defs = []
        for n in ast.walk(fn):
            if isinstance(n, ast.Assign) and len(n.targets) == 1 and \
                    isinstance(n.targets[0], ast.Tuple):
                names = [t.id if isinstance(t, ast.Name) else None
                         for t in n.targets[0].elts]
                if e.id in names:
                    tuple_defs.append((names.index(e.id), n.value))
        if tuple_defs and not defs:
            return all(k > 0 and isinstance(v, ast.Call) and (
                call_name(v) or '').split('.')[-1] == 'unique' and any(
                kw.arg in ('return_inverse', 'return_index',
                           'return_counts') for kw in v.keywords)
                for k, v in tuple_defs)
        # loop / comprehension index of enumerate
        for n in ast.walk(fn):
            gens = []
            if isinstance(n, ast.For):
                gens = [(n.target, n.iter)]
            elif isinstance(n, (ast.ListComp, ast.GeneratorExp, ast.SetComp,
                                ast.DictComp)):
                gens = [(g.target, g.iter) for g in n.generators]
            for tgt, it in gens:
                if isinstance(it, ast.Call) and call_name(it) == 'enumerate' \
                        and isinstance(tgt, ast.Tuple) and tgt.elts and \
                        isinstance(tgt.elts[0], ast.Name) and \
                        tgt.elts[0].id == e.id:
                    return True
        return bool(defs) and all(_is_position_expr(fn, d, depth + 1, seen)
                                  for d in defs)
    if isinstance(e, ast.Call):
        name = (call_name(e) or '').split('.')[-1]
        if name in _POS_CALLS:
            return True
        if name in ('array', 'asarray', 'fromiter', 'list', 'tuple',
                    'concatenate', 'hstack', 'repeat', 'tile') and e.args:
            return _is_position_expr(fn, e.args[0], depth + 1, seen)
        if name in ('astype', 'copy', 'ravel', 'flatten') and isinstance(
                e.func, ast.Attribute):
            return _is_position_expr(fn, e.func.value, depth + 1, seen)
        return False
    if isinstance(e, (ast.ListComp, ast.GeneratorExp)):
        return _is_position_expr(fn, e.elt, depth + 1, seen)
    if isinstance(e, (ast.List, ast.Tuple)):
        return bool(e.elts) and all(_is_position_expr(fn, x, depth + 1, seen)
                                    for x in e.elts)
    if isinstance(e, ast.Subscript):
        # look-up in an {id: position} dict built from enumerate
        if isinstance(e.value, ast.Name):
            for n in ast.walk(fn):
                if isinstance(n, ast.Assign) and any(
                        isinstance(t, ast.Name) and t.id == e.value.id
                        for t in n.targets) and isinstance(
                        n.value, ast.DictComp):
                    g = n.value.generators[0]
                    if isinstance(g.iter, ast.Call) and call_name(
                            g.iter) == 'enumerate' and isinstance(
                            g.target, ast.Tuple) and isinstance(
                            n.value.value, ast.Name) and isinstance(
                            g.target.elts[0], ast.Name) and \
                            n.value.value.id == g.target.elts[0].id:
                        return True
        return _is_position_expr(fn, e.value, depth + 1, seen)
    if isinstance(e, ast.BinOp):
        return _is_position_expr(fn, e.left, depth + 1, seen) or \
            _is_position_expr(fn, e.right, depth + 1, seen)
    return False


def rule_numloss(repo, col, roots=(), skip_files=()):
    rule = 'TA-NUMLOSS'
    fns = closure(repo, roots)
    n_sites = 0
    for (rel, q), fn in sorted(fns.items()):
        if rel in skip_files:
            continue
        asserts = set()
        for n in ast.walk(fn):
            if isinstance(n, ast.Assert):
                asserts.update(id(x) for x in ast.walk(n))
        # `from m import f as g`: g(...) is f(...)
        imported = {}
        m_ = repo.modules.get(rel)
        for imp in (ast.walk(m_.tree) if m_ is not None and
                    getattr(m_, 'tree', None) is not None else ()):
            if isinstance(imp, ast.ImportFrom):
                for al in imp.names:
                    imported[al.asname or al.name] = al.name
        for n in ast.walk(fn):
            if not isinstance(n, ast.Call) or id(n) in asserts:
                continue
            f = n.func
            last = f.attr if isinstance(f, ast.Attribute) else (
                imported.get(f.id, f.id) if isinstance(f, ast.Name)
                else None)
            if last is None:
                continue
            what = None
            if last in TOL:
                what = last
            elif last in ROUND and (isinstance(f, ast.Name) or (
                    dotted(f.value) in ('np', 'numpy', 'math'))):
                what = last
            elif last in SEGMENT:
                what = last
            elif last in SQUARE and (isinstance(f, ast.Name) or (
                    (dotted(f.value) or '').split('.')[-1] in (
                        'linalg', 'np', 'numpy', 'spla', 'sla', 'LA'))):
                what = last
            elif last == 'astype' and n.args:
                w = _dtype_word(n.args[0])
                if w:
                    what = 'astype:%s' % w
            if what is None:
                continue
            n_sites += 1
            if what.startswith('astype:') and isinstance(
                    f, ast.Attribute) and not rel.endswith('.pyx') and \
                    _is_position_expr(fn, f.value):
                col.ok(rule, rel, q, what, n, 'an array of positions, not '
                       'of matrix values')
                continue
            key = (rel, q.split('.')[-1] if rel.endswith('.pyx') else q,
                   what)
            if key in NUMLOSS_ALLOWED:
                col.ok(rule, rel, q, what, n, 'enumerated exception: '
                       + NUMLOSS_ALLOWED[key])
            else:
                col.bad(rule, rel, q, what, n,
                        'values on this data path pass through `%s`: a '
                        'tolerance / rounding / narrowing step changes or '
                        'drops values that are not exactly representable '
                        'after it' % unparse(n, 80))
    col.ok(rule, roots[0][0] if roots else TABLE, '<scope>', 'scan', None,
           '%d functions reachable from the anchors scanned, %d candidate '
           'sites' % (len(fns), n_sites))
    # positive control: the detector recognises the constructs
    probe = ast.parse('def p(a):\n    return a[np.isclose(a, 0)].astype('
                      'np.float32)\n').body[0]
    got = set()
    for n in ast.walk(probe):
        if isinstance(n, ast.Call) and isinstance(n.func, ast.Attribute):
            if n.func.attr in TOL:
                got.add('tol')
            if n.func.attr == 'astype' and _dtype_word(n.args[0]):
                got.add('narrow')
    col.check(got == {'tol', 'narrow'}, rule, 'sa/rules_generic.py',
              '<control>', 'positive-control', None,
              'the detector recognises isclose and astype(float32)',
              'positive control failed')


# ---------------------------------------------------------------------------
def _axis_methods(repo):
    """Table method -> positional index of `axis` for methods whose axis
    default is the literal 'sample'."""
    cls = repo.cls(TABLE, 'Table')
    out = {}
    for f in cls.body:
        if not isinstance(f, ast.FunctionDef):
            continue
        ps = [a.arg for a in f.args.args]
        if 'axis' not in ps:
            continue
        i = ps.index('axis')
        nd = len(ps) - len(f.args.defaults)
        if i < nd:
            continue
        dv = f.args.defaults[i - nd]
        if isinstance(dv, ast.Constant) and dv.value == 'sample':
            out[f.name] = i - 1
    return out


def _table_receivers(fn):
    """Names bound to a table inside ``fn`` (self, copies, constructor
    results, `self if inplace else self.copy()`)."""
    names = {'self'}
    assigns = local_assignments(fn)
    changed = True
    while changed:
        changed = False
        for nm, vals in assigns.items():
            if nm in names:
                continue
            for v, _ in vals:
                if v is None:
                    continue
                cands = [v]
                if isinstance(v, ast.IfExp):
                    cands = [v.body, v.orelse]
                ok = True
                for c in cands:
                    if isinstance(c, ast.Name) and c.id in names:
                        continue
                    if isinstance(c, ast.Call) and isinstance(
                            c.func, ast.Attribute) and isinstance(
                            c.func.value, ast.Name) and \
                            c.func.value.id in names and \
                            c.func.attr in ('copy', 'filter', 'sort_order',
                                            'sort', 'transpose',
                                            '__class__'):
                        continue
                    if isinstance(c, ast.Call) and call_name(c) in (
                            'Table', 'self.__class__', 'cls'):
                        continue
                    ok = False
                if ok:
                    names.add(nm)
                    changed = True
                    break
    for a in fn.args.args:
        if a.arg in ('other', 'table'):
            names.add(a.arg)
    return names


def _axis_derived(fn):
    """Names derived from the `axis` parameter (flow-insensitive)."""
    names = {'axis'}
    assigns = local_assignments(fn)
    changed = True
    while changed:
        changed = False
        for nm, vals in assigns.items():
            if nm in names:
                continue
            for v, _ in vals:
                if v is not None and any(
                        isinstance(x, ast.Name) and x.id in names
                        for x in ast.walk(v)):
                    names.add(nm)
                    changed = True
                    break
    return names


def rule_ax_default(repo, col, funcs=()):
    rule = 'AX-DEFAULT'
    axm = _axis_methods(repo)
    mod = repo.mod(TABLE)
    for q in sorted(funcs):
        if not repo.has_func(TABLE, q):
            continue
        fn = repo.func(TABLE, q)
        ps = [a.arg for a in fn.args.args]
        if 'axis' not in ps:
            continue
        recv = _table_receivers(fn)
        der = _axis_derived(fn)
        parents = {}
        for p in ast.walk(fn):
            for c in ast.iter_child_nodes(p):
                parents[id(c)] = p
        k = 0
        for n in body_walk(fn):
            if not (isinstance(n, ast.Call) and isinstance(
                    n.func, ast.Attribute) and n.func.attr in axm):
                continue
            r = n.func.value
            if not (isinstance(r, ast.Name) and r.id in recv):
                continue
            i = axm[n.func.attr]
            if kwarg(n, 'axis') is not None or len(n.args) > i or any(
                    kw.arg is None for kw in n.keywords):
                continue
            # conditioned on the axis?
            cur, cond = n, False
            while id(cur) in parents:
                par = parents[id(cur)]
                if isinstance(par, (ast.If, ast.IfExp, ast.While)) and \
                        cur is not par.test and any(
                            isinstance(x, ast.Name) and x.id in der
                            for x in ast.walk(par.test)):
                    cond = True
                    break
                cur = par
            if not cond:
                # an earlier axis-selected branch that always leaves
                # (`if axis in (...): ...; return`) makes what follows the
                # remaining-axis case
                cur = n
                while id(cur) in parents and not cond:
                    par = parents[id(cur)]
                    for fld in ('body', 'orelse', 'finalbody'):
                        blk = getattr(par, fld, None)
                        if isinstance(blk, list) and cur in blk:
                            for st in blk[:blk.index(cur)]:
                                if isinstance(st, ast.If) and any(
                                        isinstance(x, ast.Name) and
                                        x.id in der
                                        for x in ast.walk(st.test)) and \
                                        st.body and isinstance(
                                            st.body[-1],
                                            (ast.Return, ast.Raise,
                                             ast.Continue, ast.Break)):
                                    cond = True
                    cur = par
            k += 1
            role = 'default-axis:%s.%s' % (r.id, n.func.attr)
            # both axes are read side by side: X.m() next to
            # X.m(axis='observation')
            paired = any(
                isinstance(o, ast.Call) and isinstance(o.func, ast.Attribute)
                and o.func.attr == n.func.attr and
                dotted(o.func.value) == r.id and
                isinstance(kwarg(o, 'axis') or (
                    o.args[i] if len(o.args) > i else None), ast.Constant)
                and (kwarg(o, 'axis') or o.args[i]).value == 'observation'
                for o in body_walk(fn))
            if paired:
                col.ok(rule, TABLE, q, role, n, 'the sample-axis read is '
                       'paired with an explicit observation-axis read of '
                       'the same accessor')
            elif cond:
                col.ok(rule, TABLE, q, role, n, 'default axis used inside '
                       'a branch selected by the axis argument')
            else:
                col.bad(rule, TABLE, q, role, n,
                        '`%s` relies on the default axis (sample) although '
                        'the enclosing function is parametrised by `axis` '
                        'and this call is not in an axis-selected branch: '
                        'with axis=\'observation\' it reads the wrong axis'
                        % unparse(n, 80))
        col.ok(rule, TABLE, q, 'scan', fn, '%d default-axis accessor calls '
               'examined' % k)


# ---------------------------------------------------------------------------
CTORS = {'coo_matrix', 'csr_matrix', 'csc_matrix', 'lil_matrix',
         'dok_matrix'}


def rule_shape_forwarded(repo, col):
    rule = 'AG-SHAPEFWD'
    m = repo.mod(TABLE)
    convs = {n.name: n for n in m.tree.body if isinstance(n, ast.FunctionDef)
             and n.name.endswith('_to_sparse')}
    with_shape = {k for k, f in convs.items()
                  if 'shape' in [a.arg for a in f.args.args]}
    n_seen = 0
    for name in sorted(with_shape):
        fn = convs[name]
        # names derived from the shape parameter
        der = {'shape'}
        assigns = local_assignments(fn)
        changed = True
        while changed:
            changed = False
            for nm, vals in assigns.items():
                if nm in der:
                    continue
                for v, st in vals:
                    src = v if v is not None else getattr(st, 'value', None)
                    if src is not None and any(
                            isinstance(x, ast.Name) and x.id in der
                            for x in ast.walk(src)):
                        der.add(nm)
                        changed = True
                        break
        for n in body_walk(fn):
            if not isinstance(n, ast.Call):
                continue
            cn = (call_name(n) or '').split('.')[-1]
            if cn not in CTORS and cn not in with_shape:
                continue
            # constructors that only allocate from a shape tuple positional
            sh = kwarg(n, 'shape')
            cand = [sh] if sh is not None else []
            if cn in CTORS and n.args and isinstance(n.args[0], ast.Tuple) \
                    and len(n.args[0].elts) == 2 and not any(
                        isinstance(x, ast.Tuple) for x in n.args[0].elts):
                cand.append(n.args[0])      # M((n_rows, n_cols))
            if cn in with_shape and len(n.args) > 2:
                cand.append(n.args[2])
            n_seen += 1
            ok = any(isinstance(x, ast.Name) and x.id in der
                     for c in cand for x in ast.walk(c))
            col.check(ok, rule, TABLE, name, 'shape->%s' % cn, n,
                      'the requested shape reaches the matrix construction',
                      'the converter accepts `shape` but builds / delegates '
                      'the matrix without it: trailing all-zero rows or '
                      'columns of the requested shape are lost')
    col.soft(n_seen >= 2, rule, TABLE, '<converters>', 'instances', None,
             '%d construction sites in converters with a shape parameter'
             % n_seen, 'no construction site found in the converters that '
             'accept a shape')


# ---------------------------------------------------------------------------
EMPTY_ALLOWED = {
    'Table.subsample': 'subsampled counts are non-negative integers by '
                       'construction of the kernels',
}


def rule_emptiness_scan(repo, col, roots=(), direct=False):
    """Every `X.filter(selector, ...)` in scope whose selector is computed
    from `.sum(` compared with 0."""
    from .rules_table import classify_emptiness
    rule = 'SB-EMPTYSCAN'
    fns = {(r, q): repo.func(r, q) for r, q in roots
           if repo.has_func(r, q)} if direct else closure(repo, roots)
    n_f = 0
    for (rel, q), fn in sorted(fns.items()):
        assigns = local_assignments(fn)
        nested = {n.name: n for n in ast.walk(fn)
                  if isinstance(n, ast.FunctionDef) and n is not fn}
        for n in body_walk(fn):
            if not (isinstance(n, ast.Call) and isinstance(
                    n.func, ast.Attribute) and n.func.attr == 'filter'
                    and n.args):
                continue
            parts, seen, work = [n.args[0]], set(), [n.args[0]]
            while work:
                e = work.pop()
                for x in ast.walk(e):
                    if isinstance(x, ast.Name) and x.id not in seen:
                        seen.add(x.id)
                        for v, st in assigns.get(x.id, []):
                            if v is not None:
                                parts.append(v)
                                work.append(v)
                        if x.id in nested:
                            for st in nested[x.id].body:
                                parts.append(st)
                                work.append(st)
            kinds = {classify_emptiness(p) for p in parts} - {None}
            if not kinds:
                continue
            n_f += 1
            qq = q.split('.')[0] + '.' + q.split('.')[1] if q.count('.') \
                else q
            if 'sensitive' in kinds and qq in EMPTY_ALLOWED:
                col.ok(rule, rel, q, 'emptiness-filter', n,
                       'enumerated exception: ' + EMPTY_ALLOWED[qq])
            else:
                col.check('sensitive' not in kinds, rule, rel, q,
                          'emptiness-filter', n,
                          'vectors are kept iff some entry is non-zero',
                          'the filter keeps vectors whose sum is positive: '
                          'a vector whose entries cancel ([1,-1]) or are '
                          'negative is dropped although it is not empty')
    col.ok(rule, TABLE, '<scope>', 'scan', None,
           '%d functions scanned, %d emptiness filters' % (len(fns), n_f))


# ---------------------------------------------------------------------------
def rule_field_const(repo, col):
    """`format_version` is written by to_hdf5 as the file's format-version:
    every store to it must be the package constant."""
    from .consteval import ConstEval
    rule = 'AG-FIELDCONST'
    n = 0
    ce = None
    for rel in LIB:
        if rel not in repo.modules:
            continue
        m = repo.mod(rel)
        for node in ast.walk(m.tree):
            if not isinstance(node, (ast.Assign, ast.AugAssign)):
                continue
            tgts = node.targets if isinstance(node, ast.Assign) else [
                node.target]
            for t in tgts:
                if isinstance(t, ast.Attribute) and \
                        t.attr == 'format_version':
                    n += 1
                    fn = m.enclosing_function(node)
                    q = m.qual.get(fn, '<module>') if fn is not None else \
                        '<module>'
                    v = node.value
                    ok = isinstance(v, ast.Name) and \
                        v.id == '__format_version__'
                    if not ok:
                        try:
                            ce = ce or ConstEval(repo)
                            val = ce.ev(v, rel)
                            ref = ce.ev(ast.parse(
                                '__format_version__', mode='eval').body,
                                TABLE)
                            ok = val == ref and ref is not None
                        except Exception:
                            ok = False
                    col.check(ok, rule, rel, q, 'store:format_version',
                              node, 'assigned the package constant',
                              'Table.format_version is assigned `%s`; '
                              'to_hdf5 writes this field as the '
                              'format-version attribute, which must be the '
                              'version of the layout actually written'
                              % unparse(v, 60))
    col.check(n >= 1, rule, TABLE, 'Table.__init__', 'instances', None,
              '%d stores to format_version' % n,
              'no store to format_version found')


# ---------------------------------------------------------------------------
RULE_TEXT['TA-NUMTRUTH'] = (
    'A parameter that carries a number (numeric default, documented int / '
    'float, or compared with a number in the same function) is never used '
    'as a truth value: 0 is a legitimate value (seed 0, n 0, position 0).')


def _numeric_params(fn):
    import re
    ps = [a.arg for a in fn.args.args + fn.args.kwonlyargs]
    nd = len(fn.args.args) - len(fn.args.defaults)
    num = set()
    for i, a in enumerate(fn.args.args):
        if i >= nd:
            d = fn.args.defaults[i - nd]
            if isinstance(d, ast.Constant) and isinstance(
                    d.value, (int, float)) and not isinstance(d.value, bool):
                num.add(a.arg)
    doc = ast.get_docstring(fn) or ''
    for p in ps:
        if re.search(r'^\s*%s\s*:\s*(int|float|number)\b' % re.escape(p),
                     doc, re.M):
            num.add(p)
    for n in ast.walk(fn):
        if isinstance(n, ast.Compare) and len(n.ops) == 1 and isinstance(
                n.ops[0], (ast.Lt, ast.LtE, ast.Gt, ast.GtE)):
            for a, b in ((n.left, n.comparators[0]),
                         (n.comparators[0], n.left)):
                if isinstance(a, ast.Name) and a.id in ps and isinstance(
                        b, ast.Constant) and isinstance(
                        b.value, (int, float)) and not isinstance(
                        b.value, bool):
                    num.add(a.id)
    return num


def rule_numeric_truth(repo, col, roots=()):
    rule = 'TA-NUMTRUTH'
    fns = closure(repo, roots)
    n_params = 0
    for (rel, q), fn in sorted(fns.items()):
        if isinstance(fn, ast.Lambda):
            continue
        num = _numeric_params(fn)
        # a parameter re-bound in the body is no longer the caller's number
        rebound = {t.id for n in body_walk(fn) if isinstance(n, ast.Assign)
                   for t in n.targets if isinstance(t, ast.Name)}
        num -= rebound
        n_params += len(num)
        if not num:
            continue
        bad = []
        for n in body_walk(fn):
            tests = []
            if isinstance(n, (ast.If, ast.While, ast.IfExp)):
                tests.append(n.test)
            if isinstance(n, ast.BoolOp):
                tests += n.values
            if isinstance(n, ast.UnaryOp) and isinstance(n.op, ast.Not):
                tests.append(n.operand)
            for t in tests:
                if isinstance(t, ast.Name) and t.id in num:
                    bad.append(t)
        for p in sorted(num):
            mine = [b for b in bad if b.id == p]
            col.check(not mine, rule, rel, q, 'truth:%s' % p,
                      mine[0] if mine else fn,
                      'the number is only compared, never tested for truth',
                      '`%s` is a number and is used as a truth value: the '
                      'legitimate value 0 takes the branch meant for '
                      '"not given"' % p)
    col.ok(rule, roots[0][0] if roots else TABLE, '<scope>', 'scan', None,
           '%d functions scanned, %d numeric parameters' % (len(fns),
                                                           n_params))


# ---------------------------------------------------------------------------
RULE_TEXT['EF-ARGS'] = (
    'A function that is not an enumerated mutator performs no in-place '
    'change (mutating method, element store, in-place shuffle) on an object '
    'that is, on that path, one of its own arguments.')

ARG_MUTATORS = {'insert', 'append', 'extend', 'pop', 'remove', 'clear',
                'sort', 'reverse', 'update', 'setdefault', 'popitem', 'add',
                'discard', 'fill', 'put', 'resize', 'itemset'}
# Table methods that work in place unless told otherwise, called on an
# argument that is a table by name
TABLE_INPLACE_DEFAULT = {'filter', 'transform', 'norm', 'pa', 'rankdata',
                         'remove_empty', 'update_ids'}
TABLE_ARG_NAMES = {'table', 'other', 't', 'tab', 'biom_table'}
# functions whose contract is to change what they are handed
ARG_MUTATION_ALLOWED = {
    ('biom/_subsample.pyx', '_subsample_with_replacement'),
    ('biom/_subsample.pyx', '_subsample_without_replacement'),
    ('biom/_filter.pyx', '_remove_rows_csr'),
    ('biom/_transform.pyx', '_transform'),
    ('biom/cli/table_validator.py', 'TableValidator.run'),   # **kwargs
}


class _ArgAlias:
    """Flow-sensitive 'may this name be the caller's argument P here'."""

    def __init__(self, fn, on_mutation):
        self.fn = fn
        self.on_mutation = on_mutation
        ps = [a.arg for a in fn.args.args + fn.args.kwonlyargs
              if a.arg not in ('self', 'cls')]
        self.env0 = {p: {p} for p in ps}

    def alias_of(self, e, env):
        if isinstance(e, ast.Name):
            return set(env.get(e.id, ()))
        if isinstance(e, ast.IfExp):
            return self.alias_of(e.body, env) | self.alias_of(e.orelse, env)
        if isinstance(e, ast.BoolOp):
            out = set()
            for v in e.values:
                out |= self.alias_of(v, env)
            return out
        return set()

    helper_hook = None

    def scan_expr(self, node, env):
        for n in ast.walk(node):
            if isinstance(n, (ast.Lambda, ast.FunctionDef)):
                continue
            if isinstance(n, ast.Call) and self.helper_hook is not None:
                repo_, rel_, q_, cb = self.helper_hook
                callee = None
                f_ = n.func
                if isinstance(f_, ast.Name) and f_.id.startswith('_') and \
                        repo_.has_func(rel_, f_.id):
                    callee = repo_.func(rel_, f_.id)
                elif isinstance(f_, ast.Attribute) and f_.attr.startswith(
                        '_') and not f_.attr.startswith('__') and \
                        isinstance(f_.value, ast.Name) and '.' in q_:
                    cq = '%s.%s' % (q_.split('.')[0], f_.attr)
                    if f_.value.id in ('self', 'cls', q_.split('.')[0]) \
                            and repo_.has_func(rel_, cq):
                        callee = repo_.func(rel_, cq)
                if callee is not None and callee is not self.fn:
                    cb(n, callee, env)
            if isinstance(n, ast.Call):
                f = n.func
                if isinstance(f, ast.Attribute) and f.attr in ARG_MUTATORS \
                        and isinstance(f.value, ast.Name):
                    for p in env.get(f.value.id, ()):
                        self.on_mutation(n, p, '%s.%s()' % (f.value.id,
                                                            f.attr))
                if isinstance(f, ast.Attribute) and \
                        f.attr in TABLE_INPLACE_DEFAULT and isinstance(
                            f.value, ast.Name) and f.value.id in env and \
                        f.value.id in TABLE_ARG_NAMES:
                    ip = next((k.value for k in n.keywords
                               if k.arg == 'inplace'), None)
                    if ip is None or not (isinstance(ip, ast.Constant) and
                                          ip.value is False):
                        for p in env.get(f.value.id, ()):
                            self.on_mutation(
                                n, p, '%s.%s(...) [in place by default]'
                                % (f.value.id, f.attr))
                if isinstance(f, ast.Attribute) and f.attr == 'shuffle' \
                        and n.args and isinstance(n.args[0], ast.Name):
                    for p in env.get(n.args[0].id, ()):
                        self.on_mutation(n, p, 'shuffle(%s)' % n.args[0].id)

    def block(self, stmts, env):
        for st in stmts:
            env = self.stmt(st, env)
        return env

    @staticmethod
    def join(a, b):
        out = {}
        for k in set(a) | set(b):
            out[k] = set(a.get(k, ())) | set(b.get(k, ()))
        return out

    def stmt(self, st, env):
        if isinstance(st, (ast.FunctionDef, ast.ClassDef)):
            return env
        if isinstance(st, (ast.Assign, ast.AnnAssign, ast.AugAssign)):
            val = st.value
            if val is not None:
                self.scan_expr(val, env)
            tgts = st.targets if isinstance(st, ast.Assign) else [st.target]
            env = dict(env)
            for t in tgts:
                if isinstance(t, ast.Name):
                    if isinstance(st, ast.AugAssign):
                        # x += [...] mutates a list argument in place
                        for p in env.get(t.id, ()):
                            self.on_mutation(st, p, '%s %s= ...' % (
                                t.id, type(st.op).__name__))
                    else:
                        env[t.id] = self.alias_of(val, env) if val is not \
                            None else set()
                elif isinstance(t, ast.Subscript) and isinstance(
                        t.value, ast.Name):
                    for p in env.get(t.value.id, ()):
                        self.on_mutation(st, p, '%s[...] = ...' % t.value.id)
                elif isinstance(t, (ast.Tuple, ast.List)):
                    for x in ast.walk(t):
                        if isinstance(x, ast.Name):
                            env[x.id] = set()
            return env
        if isinstance(st, ast.Delete):
            for t in st.targets:
                if isinstance(t, ast.Subscript) and isinstance(
                        t.value, ast.Name):
                    for p in env.get(t.value.id, ()):
                        self.on_mutation(st, p, 'del %s[...]' % t.value.id)
            return env
        if isinstance(st, ast.If):
            self.scan_expr(st.test, env)
            a = self.block(st.body, dict(env))
            b = self.block(st.orelse, dict(env))
            return self.join(a, b)
        if isinstance(st, (ast.For, ast.While)):
            if isinstance(st, ast.For):
                self.scan_expr(st.iter, env)
                env = dict(env)
                # the items of an argument are the caller's objects too:
                # `for m in md: m[k] = v` changes the caller's mappings
                src = self.alias_of(st.iter, env) if isinstance(
                    st.iter, ast.Name) else set()
                elem = {p if p.endswith('[*]') else p + '[*]' for p in src}
                for x in ast.walk(st.target):
                    if isinstance(x, ast.Name):
                        env[x.id] = set(elem) if isinstance(
                            st.target, ast.Name) else set()
            else:
                self.scan_expr(st.test, env)
            out = self.block(st.body, dict(env))
            out = self.block(st.body, self.join(env, out))
            res = self.join(env, out)
            return self.block(st.orelse, res) if st.orelse else res
        if isinstance(st, ast.Try):
            a = self.block(st.body, dict(env))
            out = self.join(env, a)
            for h in st.handlers:
                out = self.join(out, self.block(h.body, dict(out)))
            out = self.block(st.orelse, out) if st.orelse else out
            return self.block(st.finalbody, out) if st.finalbody else out
        if isinstance(st, ast.With):
            for it in st.items:
                self.scan_expr(it.context_expr, env)
            return self.block(st.body, env)
        for child in ast.iter_child_nodes(st):
            if isinstance(child, ast.expr):
                self.scan_expr(child, env)
        return env

    def run(self):
        self.block(self.fn.body, dict(self.env0))


def rule_ef_args(repo, col, roots=()):
    from .rules_effects import MUTATORS
    rule = 'EF-ARGS'
    fns = closure(repo, roots)
    n_f = 0
    for (rel, q), fn in sorted(fns.items()):
        if isinstance(fn, ast.Lambda):
            continue
        short = q.split('.')[-1]
        # private helpers and nested functions may be written to fill what
        # they are handed; the contract concerns the public surface
        if short.startswith('_') and not short.startswith('__') or \
                q.count('.') > (1 if q.startswith(('Table.', 'MetadataMap.',
                                                   'TableValidator.',
                                                   'ErrorProfile.'))
                                else 0):
            continue
        if (rel, q) in ARG_MUTATION_ALLOWED or (
                q.startswith('Table.') and q.count('.') == 1 and
                short in MUTATORS and False):
            continue
        n_f += 1
        hits = []

        def via_helper(node, callee, env, _rel=rel, _hits=hits):
            # a private helper that changes, in place, the parameter it is
            # handed the caller's argument for
            sub = []
            _ArgAlias(callee, lambda n_, p_, how_: sub.append((p_, how_))
                      ).run()
            hp = [a.arg for a in callee.args.args if a.arg not in
                  ('self', 'cls')]
            for p_, how_ in sub:
                base = p_.split('[')[0]
                if base not in hp:
                    continue
                i = hp.index(base)
                arg = node.args[i] if len(node.args) > i else next(
                    (k.value for k in node.keywords if k.arg == base), None)
                if isinstance(arg, ast.Name):
                    for cp in env.get(arg.id, ()):
                        _hits.append((node, cp, '%s(...): %s' % (
                            callee.name, how_)))
        aa = _ArgAlias(fn, lambda node, p, how: hits.append((node, p, how)))
        aa.helper_hook = (repo, rel, q, via_helper)
        aa.run()
        seen = set()
        for node, p, how in hits:
            if (p, how) in seen:
                continue
            seen.add((p, how))
            col.bad(rule, rel, q, 'mutates:%s' % p, node,
                    '`%s` changes, in place, an object that is the '
                    'caller\'s argument `%s` on this path: the caller\'s '
                    'own list / mapping / array is modified by an '
                    'operation that is not documented to do so' % (how, p))
        if not hits:
            col.ok(rule, rel, q, 'no-argument-mutation', fn,
                   'no in-place change reaches an argument')
    col.ok(rule, roots[0][0] if roots else TABLE, '<scope>', 'scan', None,
           '%d functions scanned' % n_f)
    # positive control
    probe = ast.parse('def p(self, others):\n    t = others\n'
                      '    t.insert(0, self)\n').body[0]
    got = []
    _ArgAlias(probe, lambda n, p, h: got.append(p)).run()
    col.check(got == ['others'], rule, 'sa/rules_generic.py', '<control>',
              'positive-control', None, 'the detector sees an aliased '
              'insert', 'positive control failed')


# ---------------------------------------------------------------------------
RULE_TEXT['TA-LATEBIND'] = (
    'A lambda / nested function created inside a loop and kept for later '
    '(stored, registered, returned) does not read the loop variable as a '
    'free variable: every such closure would see the value of the last '
    'iteration.')


def rule_late_binding(repo, col, rels=None):
    rule = 'TA-LATEBIND'
    n_loops = n_cl = 0
    for rel, q, fn in repo.all_functions():
        if '/tests/' in rel or isinstance(fn, ast.Lambda):
            continue
        if rels is not None and rel not in rels:
            continue
        for loop in [n for n in body_walk(fn) if isinstance(n, ast.For)]:
            tnames = {x.id for x in ast.walk(loop.target)
                      if isinstance(x, ast.Name)}
            if not tnames:
                continue
            n_loops += 1
            par = {}
            for p in ast.walk(loop):
                for c in ast.iter_child_nodes(p):
                    par[id(c)] = p
            for st in loop.body:
                for n in ast.walk(st):
                    if not isinstance(n, (ast.Lambda, ast.FunctionDef)):
                        continue
                    a = n.args
                    own = {x.arg for x in a.args + a.kwonlyargs}
                    if a.vararg:
                        own.add(a.vararg.arg)
                    if a.kwarg:
                        own.add(a.kwarg.arg)
                    body = [n.body] if isinstance(n, ast.Lambda) else n.body
                    free = {x.id for b in body for x in ast.walk(b)
                            if isinstance(x, ast.Name) and
                            isinstance(x.ctx, ast.Load)} - own
                    cap = free & tnames
                    if not cap:
                        continue
                    n_cl += 1
                    # used immediately? (called / passed to a call that
                    # consumes it within the iteration: map, filter, sorted,
                    # min, max, Table.filter/transform/...)
                    p = par.get(id(n))
                    immediate = False
                    if isinstance(p, ast.Call) and p.func is n:
                        immediate = True
                    if isinstance(p, (ast.Call, ast.keyword)):
                        call = p if isinstance(p, ast.Call) else par.get(
                            id(p))
                        cn = call_name(call) or (
                            call.func.attr if isinstance(
                                call.func, ast.Attribute) else '')
                        last = (cn or '').split('.')[-1]
                        if last in ('map', 'filter', 'sorted', 'min', 'max',
                                    'sort', 'transform', 'reduce',
                                    'partition', 'collapse', 'any', 'all',
                                    'sum', 'list', 'tuple', 'set'):
                            immediate = True
                    if isinstance(n, ast.FunctionDef):
                        # a def used only by calls inside the same iteration
                        uses = [x for s2 in loop.body for x in ast.walk(s2)
                                if isinstance(x, ast.Name) and x.id == n.name
                                and isinstance(x.ctx, ast.Load)]
                        immediate = bool(uses) and all(
                            isinstance(par.get(id(u)), ast.Call) and
                            par[id(u)].func is u for u in uses)
                    col.check(immediate, rule, rel, q,
                              'closure:%s' % ','.join(sorted(cap)), n,
                              'the closure is consumed within the iteration',
                              'a function created in the loop reads the '
                              'loop variable `%s` when it is called later: '
                              'all functions created by this loop then see '
                              'the value of the last iteration'
                              % ','.join(sorted(cap)))
    col.ok(rule, 'biom', '<package>', 'scan', None,
           '%d loops, %d closures over a loop variable' % (n_loops, n_cl))


def closure_scoped(rule_fn, rule_ids, roots):
    """Run a package-wide rule but keep, for this property, only what it
    says about functions reachable from the property's anchors."""
    def rule(repo, col):
        names = {q for (_r, q) in closure(repo, roots)}
        # nested functions of a reachable function are reachable
        def pred(f):
            return f in names or any(f.startswith(n + '.') for n in names)
        saved = {rid: col.scope.get(rid) for rid in rule_ids}
        for rid in rule_ids:
            col.scope[rid] = pred
        try:
            rule_fn(repo, col)
        finally:
            for rid, old in saved.items():
                if old is None:
                    col.scope.pop(rid, None)
                else:
                    col.scope[rid] = old
    rule.__name__ = 'scoped_' + getattr(rule_fn, '__name__', 'rule')
    return rule
