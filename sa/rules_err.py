"""Rules over biom/err.py (property C20, parts of C05/C17)."""
import ast

from .astutil import (body_walk, call_name, const_str, decorators, dotted,
                      local_assignments, param_names, unparse, kwarg,
                      walk_shallow)
from .cfg import CFG
from .source import AnalysisError

ERR = 'biom/err.py'
KINDS = ('empty', 'obssize', 'sampsize', 'obsdup', 'sampdup', 'obsmdsize',
         'sampmdsize')


def _profile_global(repo):
    """Name of the module-level ErrorProfile instance (``__errprof``)."""
    m = repo.mod(ERR)
    for st in m.tree.body:
        if isinstance(st, ast.Assign) and isinstance(st.value, ast.Call) and \
                call_name(st.value) == 'ErrorProfile' and \
                isinstance(st.targets[0], ast.Name):
            return st.targets[0].id
    raise AnalysisError("module-level ErrorProfile() instance not found")


# --------------------------------------------------------------------------
# OR-FINALLY
# --------------------------------------------------------------------------

def _errstate_class(repo, col, cls):
    """errstate written as a context-manager class: __enter__ installs the
    override and keeps the previous profile, __exit__ re-installs it on
    every path and does not swallow the exception (returns nothing /
    False)."""
    rule = 'OR-FINALLY'
    meths = {n.name: n for n in cls.body if isinstance(n, ast.FunctionDef)}
    en, ex = meths.get('__enter__'), meths.get('__exit__')
    if en is None or ex is None:
        col.unknown(rule, ERR, 'errstate', 'context-manager', cls,
                    'errstate is a class without __enter__/__exit__')
        return
    saves = [c for c in ast.walk(en) if isinstance(c, ast.Call) and
             call_name(c) in ('seterr', 'geterr')]
    col.check(bool(saves), rule, ERR, 'errstate.__enter__', 'save',
              saves[0] if saves else en,
              'the previous profile is taken on entry',
              'no profile snapshot is taken on entry')
    cfg = CFG(ex)
    restorers = {n for n in cfg.stmt_nodes() if n.kind == 'stmt' and any(
        isinstance(c, ast.Call) and call_name(c) == 'seterr'
        for c in ast.walk(n.stmt))}
    leak = cfg.path_avoiding(cfg.entry, cfg.exit, restorers)
    col.check(bool(restorers) and not leak, rule, ERR, 'errstate.__exit__',
              'restore-on-every-exit', ex,
              'every path through __exit__ re-installs the saved profile',
              'a path through __exit__ does not re-install the saved '
              'profile')
    swallow = [r for r in ast.walk(ex) if isinstance(r, ast.Return) and
               r.value is not None and not (
                   isinstance(r.value, ast.Constant) and
                   not r.value.value)]
    col.check(not swallow, rule, ERR, 'errstate.__exit__',
              'does-not-swallow', swallow[0] if swallow else ex,
              '__exit__ returns nothing / False',
              '__exit__ returns `%s`: a truthy value tells Python to '
              'suppress the exception leaving the block, so a scoped '
              "'raise' reaction never reaches the caller"
              % (unparse(swallow[0].value, 50) if swallow else ''))


def rule_or_finally(repo, col):
    """In ``errstate`` every path from the ``yield`` to a normal or
    exceptional exit passes through a call that re-installs the profile
    saved before the ``yield``."""
    rule = 'OR-FINALLY'
    m0 = repo.mod(ERR)
    if isinstance(m0.defs.get('errstate'), ast.ClassDef):
        _errstate_class(repo, col, m0.defs['errstate'])
        return
    f = repo.func(ERR, 'errstate')
    if 'contextmanager' not in [d.split('.')[-1] for d in decorators(f) if d]:
        col.unknown(rule, ERR, 'errstate', 'decorator', f,
                    'errstate is not a @contextmanager generator any more')
        return
    cfg = CFG(f)
    ynodes = [n for n in cfg.stmt_nodes() if n.kind == 'stmt' and any(
        isinstance(x, ast.Yield) for x in walk_shallow(n.stmt))]
    if len(ynodes) != 1:
        col.unknown(rule, ERR, 'errstate', 'yield', f,
                    '%d yield statements' % len(ynodes))
        return
    y = ynodes[0]
    dom = cfg.dominators()
    # saved state: names assigned before the yield from seterr()/geterr()
    saved = set()
    setters = []
    for n in cfg.stmt_nodes():
        st = n.stmt
        if n.kind != 'stmt':
            continue
        if isinstance(st, ast.Assign) and isinstance(st.value, ast.Call) \
                and call_name(st.value) in ('seterr', 'geterr') and \
                n in dom.get(y, ()):
            for t in st.targets:
                if isinstance(t, ast.Name):
                    saved.add(t.id)
            if call_name(st.value) == 'seterr':
                setters.append(n)
        elif isinstance(st, ast.Expr) and isinstance(st.value, ast.Call) \
                and call_name(st.value) == 'seterr' and n in dom.get(y, ()):
            setters.append(n)
    if not saved:
        col.bad(rule, ERR, 'errstate', 'save', f,
                'no profile snapshot (seterr()/geterr() result) is bound '
                'before the yield, so nothing can be restored')
        return
    col.ok(rule, ERR, 'errstate', 'save', setters[0].stmt if setters else f,
           'previous profile bound to %s before the yield' % sorted(saved))
    restorers = set()
    for n in cfg.stmt_nodes():
        if n.kind != 'stmt' or cfg.dominates(n, y):
            continue
        for c in ast.walk(n.stmt):
            if isinstance(c, ast.Call) and call_name(c) == 'seterr':
                for kw in c.keywords:
                    if kw.arg is None and isinstance(kw.value, ast.Name) \
                            and kw.value.id in saved:
                        restorers.add(n)
    if not restorers:
        col.bad(rule, ERR, 'errstate', 'restore', y.stmt,
                'no seterr(**<saved>) after the yield')
        return
    normal_leak = cfg.path_avoiding(y, cfg.exit, restorers)
    exc_leak = cfg.path_avoiding(y, cfg.raise_, restorers)
    col.check(not normal_leak, rule, ERR, 'errstate', 'restore-on-normal-exit',
              y.stmt, 'every normal path from the yield re-installs the '
              'saved profile', 'a normal path from the yield reaches the '
              'exit without seterr(**saved)')
    col.check(not exc_leak, rule, ERR, 'errstate',
              'restore-on-exception', y.stmt,
              'every exceptional path from the yield passes through '
              'seterr(**saved) (finally / except-reraise)',
              'an exception thrown in at the yield leaves the generator '
              'without seterr(**saved): the restoring statement is not in a '
              'finally/except enclosing the yield')
    # a block can also be left by GeneratorExit / KeyboardInterrupt /
    # SystemExit: restoring in `except Exception:` does not cover those
    for t in ast.walk(f):
        if isinstance(t, ast.Try) and any(
                isinstance(x, ast.Yield) for b_ in t.body
                for x in ast.walk(b_)):
            in_finally = any(isinstance(c, ast.Call) and
                             call_name(c) == 'seterr'
                             for b_ in t.finalbody for c in ast.walk(b_))
            if in_finally:
                continue
            broad = False
            for h in t.handlers:
                names = {x.id for x in ast.walk(h.type)
                         if isinstance(x, ast.Name)} if h.type is not None \
                    else set()
                if h.type is None or 'BaseException' in names:
                    broad = True
            col.check(broad, rule, ERR, 'errstate',
                      'restore-on-any-exit', t,
                      'the restoring handler catches everything',
                      'the saved profile is re-installed by `except '
                      'Exception` handlers only: a block left by '
                      'GeneratorExit (an abandoned generator), '
                      'KeyboardInterrupt or SystemExit keeps the override')


# --------------------------------------------------------------------------
# OR-ATOMIC
# --------------------------------------------------------------------------

def _is_state_store(st, fields):
    """Assign/AugAssign/Delete whose target is self.<field>[...] (possibly
    nested subscripts) or self.<field> itself."""
    targets = []
    if isinstance(st, ast.Assign):
        targets = st.targets
    elif isinstance(st, ast.AugAssign):
        targets = [st.target]
    elif isinstance(st, ast.Delete):
        targets = st.targets
    for t in targets:
        base = t
        while isinstance(base, ast.Subscript):
            base = base.value
        d = dotted(base)
        if d and d.startswith('self.') and d.split('.')[1] in fields:
            return d.split('.')[1]
    # mutating method calls
    if isinstance(st, ast.Expr) and isinstance(st.value, ast.Call) and \
            isinstance(st.value.func, ast.Attribute) and \
            st.value.func.attr in ('update', 'pop', 'clear', 'setdefault',
                                   '__setitem__'):
        base = st.value.func.value
        while isinstance(base, ast.Subscript):
            base = base.value
        d = dotted(base)
        if d and d.startswith('self.') and d.split('.')[1] in fields:
            return d.split('.')[1]
    return None


def rule_or_atomic(repo, col):
    """In the profile mutators no store into profile state can be followed
    (on any path, including a later loop iteration) by an explicit raise of
    the same call: a refused request leaves the profile unchanged."""
    rule = 'OR-ATOMIC'
    fields = ('_state', '_profile', '_test')
    for q in ('ErrorProfile.state.setter', 'ErrorProfile.setcall',
              'ErrorProfile.register'):
        f = repo.func(ERR, q)
        cfg = CFG(f)
        stores = [n for n in cfg.stmt_nodes() if n.kind == 'stmt' and
                  _is_state_store(n.stmt, fields)]
        raises = [n for n in cfg.stmt_nodes() if n.kind == 'stmt' and
                  isinstance(n.stmt, ast.Raise)]
        if not stores:
            col.unknown(rule, ERR, q, 'stores', f, 'no profile store found')
            continue
        for s in stores:
            fld = _is_state_store(s.stmt, fields)
            reach = cfg.reachable_from(s)
            later = [r for r in raises if r in reach and r is not s]
            col.check(not later, rule, ERR, q, 'store:%s' % fld, s.stmt,
                      'no raise is reachable after this store (validation '
                      'completes before the first commit)',
                      'a raise (line %s) is reachable after this store: a '
                      'request refused part-way leaves the profile changed'
                      % ','.join(str(r.stmt.lineno) for r in later))
    # module-level API: seterr must not write anything but through the
    # validating setter
    f = repo.func(ERR, 'seterr')
    prof = _profile_global(repo)
    direct = [n for n in body_walk(f) if isinstance(n, (ast.Assign,
                                                        ast.AugAssign)) and
              any(dotted(getattr(t, 'value', t) if isinstance(t,
                  ast.Subscript) else t) in
                  ('%s._state' % prof,) for t in (
                  n.targets if isinstance(n, ast.Assign) else [n.target]))]
    col.check(not direct, rule, ERR, 'seterr', 'via-setter',
              direct[0] if direct else f,
              'seterr changes the profile only through the validating '
              '`state` setter', 'seterr writes %s._state directly, bypassing '
              'validation' % prof)


# --------------------------------------------------------------------------
# OR-REFUSE-KIND
# --------------------------------------------------------------------------

def _refusing_callees(repo):
    """Names of the functions / methods of biom/err.py whose first
    parameter is tested for membership with a raise on the unknown branch
    before any other use (the test of OR-REFUSEKIND itself)."""
    out = set()
    m = repo.mod(ERR)
    for q, f in m.defs.items():
        if not isinstance(f, ast.FunctionDef):
            continue
        params = [p for p in param_names(f) if p not in ('self', 'cls')]
        if not params:
            continue
        kind = params[0]
        for n in ast.walk(f):
            if isinstance(n, ast.If) and isinstance(n.test, ast.Compare) \
                    and len(n.test.ops) == 1 and isinstance(
                    n.test.ops[0], (ast.NotIn, ast.In)) and isinstance(
                    n.test.left, ast.Name) and n.test.left.id == kind:
                refusing = n.body if isinstance(
                    n.test.ops[0], ast.NotIn) else n.orelse
                if any(isinstance(b, ast.Raise) for b in refusing):
                    out.add(q.split('.')[-1])
    return out


def rule_refuse_unknown(repo, col):
    """Unknown kinds / reactions are refused: a ``raise`` guarded by a
    membership test on the requested kind dominates every use."""
    rule = 'OR-REFUSEKIND'
    for q in ('ErrorProfile.setcall', 'ErrorProfile.getcall',
              'ErrorProfile.unregister', 'seterrcall', 'geterrcall'):
        f = repo.func(ERR, q)
        params = [p for p in param_names(f) if p != 'self']
        if not params:
            col.unknown(rule, ERR, q, 'kind-param', f, 'no parameter')
            continue
        kind = params[0]
        cfg = CFG(f)
        guard = None
        for n in cfg.stmt_nodes():
            if n.kind == 'head' and isinstance(n.stmt, ast.If):
                t = n.stmt.test
                # `if kind not in R: raise` or `if kind in R: ... else:
                # raise`: the branch taken for an unknown kind raises
                if isinstance(t, ast.Compare) and len(t.ops) == 1 and \
                        isinstance(t.ops[0], (ast.NotIn, ast.In)) and \
                        isinstance(t.left, ast.Name) and t.left.id == kind:
                    refusing = n.stmt.body if isinstance(
                        t.ops[0], ast.NotIn) else n.stmt.orelse
                    if any(isinstance(b, ast.Raise) for b in refusing):
                        guard = n
                        break
        if guard is None:
            # the refusal may live in the function this one delegates to:
            # every use of the kind is an argument of a call of a function /
            # method of this module that refuses unknown kinds itself
            uses = [x for x in ast.walk(f) if isinstance(x, ast.Name) and
                    x.id == kind and isinstance(x.ctx, ast.Load)]
            callees = []
            for c in ast.walk(f):
                if isinstance(c, ast.Call) and any(
                        u is a_ for a_ in c.args for u in uses):
                    nm = c.func.attr if isinstance(
                        c.func, ast.Attribute) else (
                        c.func.id if isinstance(c.func, ast.Name) else None)
                    callees.append(nm)
            delegated = bool(uses) and len(callees) >= len(uses) and all(
                nm in _refusing_callees(repo) for nm in callees)
            if delegated:
                col.ok(rule, ERR, q, 'guard', f,
                       'delegates to %s, which refuses unknown kinds'
                       % sorted(set(callees)))
                continue
            col.bad(rule, ERR, q, 'guard', f,
                    'no `if %s not in <registry>: raise` refusal' % kind)
            continue
        # every other statement using the kind is dominated by the guard
        users = [n for n in cfg.stmt_nodes() if n is not guard and
                 n.kind == 'stmt' and not isinstance(n.stmt, ast.Raise) and
                 any(isinstance(x, ast.Name) and x.id == kind
                     for x in ast.walk(n.stmt))]
        undominated = [u for u in users if not cfg.dominates(guard, u)]
        col.check(not undominated, rule, ERR, q, 'guard', guard.stmt,
                  'membership test with raise dominates all %d uses of the '
                  'kind' % len(users),
                  'use of the kind at line %s is not dominated by the '
                  'refusal' % ','.join(str(u.stmt.lineno)
                                       for u in undominated))
    # reactions: the setter refuses states outside _valid_states
    f = repo.func(ERR, 'ErrorProfile.state.setter')
    tests = []
    for n in body_walk(f):
        if isinstance(n, ast.If) and isinstance(n.test, ast.Compare) and \
                isinstance(n.test.ops[0], ast.NotIn) and \
                any(isinstance(b, ast.Raise) for b in n.body):
            tests.append(dotted(n.test.comparators[0]))
    col.check('self._valid_states' in tests, rule, ERR,
              'ErrorProfile.state.setter', 'refuse-unknown-reaction', f,
              'raise guarded by `not in self._valid_states`',
              'no refusal of reactions outside _valid_states')
    col.check('self._state' in tests, rule, ERR,
              'ErrorProfile.state.setter', 'refuse-unknown-kind', f,
              'raise guarded by `not in self._state`',
              'no refusal of unknown error kinds')
    # what is tested is what is stored: the reaction checked against
    # _valid_states is the very value written into the profile (a test of
    # a normalised spelling lets 'Raise' through, and the dispatch table has
    # no such key)
    checked = [n.test.left for n in body_walk(f) if isinstance(n, ast.If)
               and isinstance(n.test, ast.Compare) and isinstance(
               n.test.ops[0], ast.NotIn) and dotted(
               n.test.comparators[0]) == 'self._valid_states']
    stored = [n.value for n in body_walk(f) if isinstance(n, ast.Assign)
              and isinstance(n.targets[0], ast.Subscript) and
              dotted(n.targets[0].value) == 'self._state']
    if checked and stored:
        same = all(any(unparse(c, 200) == unparse(v, 200) for c in checked)
                   for v in stored)
        col.check(same, rule, ERR, 'ErrorProfile.state.setter',
                  'checked-is-stored', stored[0],
                  'the value tested is the value stored',
                  '`%s` is tested against _valid_states but `%s` is stored: '
                  'a reaction that only passes in its normalised spelling '
                  'is accepted and later fails in the dispatch'
                  % (unparse(checked[0], 50), unparse(stored[0], 50)))


# --------------------------------------------------------------------------
# EF-STATE
# --------------------------------------------------------------------------

def _fresh_or_alias(expr, assigns, prof, depth=0):
    """'fresh' | 'alias' | 'unknown' for an expression w.r.t. the profile
    state dict."""
    if depth > 4:
        return 'unknown'
    if isinstance(expr, ast.Call):
        if isinstance(expr.func, ast.Attribute) and \
                expr.func.attr in ('copy',):
            return 'fresh'
        if call_name(expr) in ('dict', 'deepcopy', 'copy.deepcopy',
                               'copy.copy'):
            return 'fresh'
        return 'unknown'
    if isinstance(expr, (ast.Dict, ast.DictComp)):
        return 'fresh'
    d = dotted(expr)
    if d in ('%s.state' % prof, '%s._state' % prof):
        return 'alias'
    if isinstance(expr, ast.Name):
        vals = assigns.get(expr.id, [])
        if not vals:
            return 'unknown'
        res = set()
        for v, _ in vals:
            res.add('unknown' if v is None else
                    _fresh_or_alias(v, assigns, prof, depth + 1))
        if 'alias' in res:
            return 'alias'
        if res == {'fresh'}:
            return 'fresh'
        return 'unknown'
    if isinstance(expr, ast.Constant):
        return 'fresh'
    return 'unknown'


def rule_ef_state(repo, col):
    """geterr/seterr hand out copies of the profile state, never the live
    dict."""
    rule = 'EF-STATE'
    prof = _profile_global(repo)
    for q in ('geterr', 'seterr'):
        f = repo.func(ERR, q)
        assigns = local_assignments(f)
        rets = [n for n in body_walk(f) if isinstance(n, ast.Return) and
                n.value is not None]
        if not rets:
            col.unknown(rule, ERR, q, 'return', f, 'no return value')
        for r in rets:
            k = _fresh_or_alias(r.value, assigns, prof)
            if k == 'fresh':
                col.ok(rule, ERR, q, 'return', r, 'returns a copy')
            elif k == 'alias':
                col.bad(rule, ERR, q, 'return', r,
                        'returns the live profile dict: the caller can '
                        'change the profile without validation and the '
                        'snapshot taken by errstate follows later changes')
            else:
                col.unknown(rule, ERR, q, 'return', r, 'provenance unknown')


# --------------------------------------------------------------------------
# AG-ERRSTATES / AG-REACTIONS / AG-ERRKINDS / propagation
# --------------------------------------------------------------------------

def _valid_states(repo):
    c = repo.cls(ERR, 'ErrorProfile')
    for st in c.body:
        if isinstance(st, ast.Assign) and \
                dotted(st.targets[0]) == '_valid_states':
            v = st.value
            if isinstance(v, ast.Call) and v.args:
                v = v.args[0]
            if isinstance(v, (ast.List, ast.Set, ast.Tuple)):
                vals = [const_str(e) for e in v.elts]
                if all(vals):
                    return set(vals), st
    raise AnalysisError("ErrorProfile._valid_states literal not found")


def rule_ag_errstates(repo, col):
    rule = 'AG-ERRSTATES'
    states, st = _valid_states(repo)
    f = repo.func(ERR, '_create_error_states')
    ret = [n for n in body_walk(f) if isinstance(n, ast.Return)]
    if len(ret) != 1 or not isinstance(ret[0].value, ast.Dict):
        col.unknown(rule, ERR, '_create_error_states', 'table', f,
                    'reaction table is not a single dict literal')
        return
    d = ret[0].value
    keys = {const_str(k) for k in d.keys}
    col.check(keys == states, rule, ERR, '_create_error_states',
              'keys=valid_states', ret[0],
              'reaction table keys %s equal _valid_states' % sorted(keys),
              'reaction table keys %s differ from _valid_states %s: an '
              'accepted reaction has no behaviour (KeyError at error time) '
              'or a behaviour cannot be selected'
              % (sorted(k for k in keys if k), sorted(states)))
    want = {'raise', 'ignore', 'warn', 'print', 'call'}
    col.check(states == want, rule, ERR, 'ErrorProfile', 'documented-states',
              st, 'the five documented reactions are accepted',
              'accepted reactions %s differ from the documented five'
              % sorted(states))
    # reaction -> effect
    params = param_names(f)
    if len(params) < 3:
        col.unknown('AG-REACTIONS', ERR, '_create_error_states', 'params', f,
                    'unexpected signature')
        return
    msg_p, cb_p, exc_p = params[0], params[1], params[2]
    m = repo.mod(ERR)
    imports = {}
    for st2 in m.tree.body:
        if isinstance(st2, ast.ImportFrom):
            for a in st2.names:
                imports[a.asname or a.name] = '%s.%s' % (st2.module, a.name)
    for k, v in zip(d.keys, d.values):
        name = const_str(k)
        role = 'reaction:%s' % name
        body = v.body if isinstance(v, ast.Lambda) else None
        lam_arg = v.args.args[0].arg if isinstance(v, ast.Lambda) and \
            v.args.args else None
        ok, why = None, ''
        if name == 'ignore':
            ok = isinstance(v, ast.Lambda) and isinstance(
                body, ast.Constant) and body.value is None
            why = 'returns None, no effect'
        elif name == 'warn':
            ok = isinstance(body, ast.Call) and \
                imports.get(call_name(body)) == 'warnings.warn' and \
                body.args and dotted(body.args[0]) == msg_p
            why = 'warnings.warn(msg)'
        elif name == 'raise':
            ok = isinstance(body, ast.Call) and call_name(body) == exc_p \
                and body.args and dotted(body.args[0]) == msg_p
            why = 'returns exception(msg) for errcheck to raise'
        elif name == 'print':
            ok = isinstance(body, ast.Call) and \
                imports.get((call_name(body) or '').split('.')[0]) == \
                'sys.stdout' and call_name(body).endswith('.write') and \
                msg_p in {x.id for x in ast.walk(body)
                          if isinstance(x, ast.Name)}
            why = 'sys.stdout.write(msg ...)'
        elif name == 'call':
            # callback if callback is not None else <no-op>
            ok = (isinstance(v, ast.IfExp) and dotted(v.body) == cb_p) or \
                dotted(v) == cb_p
            why = 'the registered callback itself (called with the table)'
        else:
            continue
        col.check(bool(ok), 'AG-REACTIONS', ERR, '_create_error_states',
                  role, v, why,
                  "reaction '%s' is not bound to its documented effect (%s)"
                  % (name, why))
        if name not in ('call',) and isinstance(v, ast.Lambda):
            col.check(lam_arg is not None, 'AG-REACTIONS', ERR,
                      '_create_error_states', role + ':arity', v,
                      'takes the offending item', 'takes no argument')


def rule_propagation(repo, col):
    """The reaction's result travels _handle_error -> test -> errcheck and is
    raised iff it is an exception."""
    rule = 'OR-PROPAGATE'
    # _handle_error
    f = repo.func(ERR, 'ErrorProfile._handle_error')
    params = [p for p in param_names(f) if p != 'self']
    assigns = local_assignments(f)
    rets = [n for n in body_walk(f) if isinstance(n, ast.Return)]

    def resolve(e):
        if isinstance(e, ast.Name) and e.id in assigns and \
                len(assigns[e.id]) == 1 and assigns[e.id][0][0] is not None:
            return resolve(assigns[e.id][0][0])
        return e
    ok = False
    if len(rets) == 1 and isinstance(rets[0].value, ast.Call) and \
            len(params) >= 2:
        c = rets[0].value
        fn = resolve(c.func)
        if isinstance(fn, ast.Subscript):
            table = resolve(fn.value)
            key = resolve(fn.slice)
            ok = (isinstance(table, ast.Subscript) and
                  dotted(table.value) == 'self._profile' and
                  dotted(table.slice) == params[0] and
                  isinstance(key, ast.Subscript) and
                  dotted(key.value) == 'self._state' and
                  dotted(key.slice) == params[0] and
                  len(c.args) == 1 and dotted(c.args[0]) == params[1])
    if len(rets) == 1:
        col.check(ok, rule, ERR, 'ErrorProfile._handle_error', 'dispatch',
                  rets[0], 'returns _profile[kind][_state[kind]](item)',
                  'the reaction invoked is not the one configured for this '
                  'kind, or its result is dropped')
    else:
        col.unknown(rule, ERR, 'ErrorProfile._handle_error', 'dispatch', f,
                    '%d returns' % len(rets))
    # test
    f = repo.func(ERR, 'ErrorProfile.test')
    found = None
    for n in body_walk(f):
        if isinstance(n, ast.Call) and \
                dotted(n.func) == 'self._handle_error':
            found = n
    if found is None:
        col.bad(rule, ERR, 'ErrorProfile.test', 'forward', f,
                '_handle_error is never invoked')
    else:
        m = repo.mod(ERR)
        par = m.parent.get(found)
        returned = isinstance(par, ast.Return)
        if not returned and isinstance(par, ast.Assign) and len(
                par.targets) == 1 and isinstance(par.targets[0], ast.Name):
            # result = self._handle_error(...); ...; return result
            nm = par.targets[0].id
            returned = any(isinstance(r, ast.Return) and
                           dotted(r.value) == nm for r in ast.walk(f))
        col.check(returned, rule, ERR,
                  'ErrorProfile.test', 'forward', found,
                  'the handler result is returned',
                  'the handler result is dropped (a raise reaction would '
                  'never raise)')
        # guarded by the kind's own test function applied to the item:
        # either inside `if test(item):` or after `if not test(item):
        # continue / return`
        def strip_not(t):
            neg = False
            while isinstance(t, ast.UnaryOp) and isinstance(t.op, ast.Not):
                t = t.operand
                neg = not neg
            return t, neg
        guard = None
        pol_ok = False
        stmt_of = found
        while stmt_of in m.parent and not isinstance(stmt_of, ast.stmt):
            stmt_of = m.parent[stmt_of]
        for a in ast.walk(f):
            if not isinstance(a, ast.If):
                continue
            t, neg = strip_not(a.test)
            if not isinstance(t, ast.Call):
                continue
            inside = any(x is found for b in a.body for x in ast.walk(b))
            if inside and not neg:
                guard, pol_ok = a, True
            elif neg and not inside and a.body and isinstance(
                    a.body[-1], (ast.Continue, ast.Return, ast.Break)):
                # the handler follows the early exit in the same block
                par = m.parent.get(a)
                blk = None
                for fld in ('body', 'orelse'):
                    b = getattr(par, fld, None)
                    if isinstance(b, list) and a in b:
                        blk = b
                if blk is not None and any(
                        any(x is found for x in ast.walk(st))
                        for st in blk[blk.index(a) + 1:]):
                    guard, pol_ok = a, True
        col.check(guard is not None and pol_ok,
                  rule, ERR, 'ErrorProfile.test', 'guarded-by-test',
                  guard or found, 'reaction only when the kind\'s test '
                  'function holds', 'reaction is not conditional on the '
                  'kind\'s test')
    # errcheck
    f = repo.func(ERR, 'errcheck')
    prof = _profile_global(repo)
    assigns = local_assignments(f)
    ok = False
    raise_node = None

    def is_exc_test(t):
        """(value expr, negated?) for isinstance(v, Exception) tests."""
        neg = False
        while isinstance(t, ast.UnaryOp) and isinstance(t.op, ast.Not):
            t = t.operand
            neg = not neg
        if isinstance(t, ast.Call) and call_name(t) == 'isinstance' and \
                len(t.args) == 2 and dotted(t.args[1]) in (
                    'Exception', 'BaseException'):
            return t.args[0], neg
        return None, neg

    def from_profile(v):
        src = resolve_local(v, assigns)
        return isinstance(src, ast.Call) and \
            dotted(src.func) == '%s.test' % prof
    for n in body_walk(f):
        if not isinstance(n, ast.If):
            continue
        v, neg = is_exc_test(n.test)
        if v is None or not from_profile(v):
            continue
        if not neg:
            for b in n.body:
                if isinstance(b, ast.Raise) and b.exc is not None and \
                        ast.dump(b.exc) == ast.dump(v):
                    ok, raise_node = True, b
        else:
            # if not isinstance(v, Exception): return v  /  raise v
            m_ = repo.mod(ERR)
            par = m_.parent.get(n)
            blk = getattr(par, 'body', [])
            exits = n.body and isinstance(n.body[-1], ast.Return)
            if exits and n in blk:
                for b in blk[blk.index(n) + 1:]:
                    if isinstance(b, ast.Raise) and b.exc is not None and \
                            ast.dump(b.exc) == ast.dump(v):
                        ok, raise_node = True, b
            for b in n.orelse:
                if isinstance(b, ast.Raise) and b.exc is not None and \
                        ast.dump(b.exc) == ast.dump(v):
                    ok, raise_node = True, b
    col.check(ok, rule, ERR, 'errcheck', 'raise-iff-exception',
              raise_node or f,
              'the value returned by the profile test is raised iff it is '
              'an Exception',
              'errcheck does not raise the exception produced by the '
              "'raise' reaction")
    # errcheck forwards table and kinds
    c = [n for n in body_walk(f) if isinstance(n, ast.Call) and
         dotted(n.func) == '%s.test' % prof]
    if c:
        params = param_names(f)
        c = c[0]
        okf = c.args and dotted(c.args[0]) == params[0] and \
            any(isinstance(a, ast.Starred) for a in c.args[1:])
        col.check(bool(okf), rule, ERR, 'errcheck', 'forward-kinds', c,
                  'table and requested kinds are forwarded',
                  'the requested kinds are not forwarded to the profile')


def resolve_local(e, assigns, depth=0):
    if depth < 4 and isinstance(e, ast.Name) and e.id in assigns and \
            len(assigns[e.id]) == 1 and assigns[e.id][0][0] is not None:
        return resolve_local(assigns[e.id][0][0], assigns, depth + 1)
    return e


def rule_ag_errkinds(repo, col):
    """Seven kinds registered, each with the table exception, its documented
    default reaction and a test function of its own axis."""
    rule = 'AG-ERRKINDS'
    m = repo.mod(ERR)
    prof = _profile_global(repo)
    regs = {}
    for st in m.tree.body:
        if isinstance(st, ast.Expr) and isinstance(st.value, ast.Call) and \
                dotted(st.value.func) == '%s.register' % prof:
            c = st.value
            kind = const_str(c.args[0]) if c.args else None
            regs[kind] = c
    col.check(set(regs) == set(KINDS), rule, ERR, '<module>',
              'registered-kinds', None,
              'the seven kinds are registered',
              'registered kinds %s differ from %s'
              % (sorted(k or '?' for k in regs), sorted(KINDS)))
    imports = {}
    for st in m.tree.body:
        if isinstance(st, ast.ImportFrom):
            for a in st.names:
                imports[a.asname or a.name] = '%s.%s' % (st.module, a.name)
    seen_tests = {}
    for kind, c in regs.items():
        if kind not in KINDS:
            continue
        exc = kwarg(c, 'exception') or (c.args[5] if len(c.args) > 5
                                        else None)
        col.check(exc is not None and imports.get(dotted(exc)) ==
                  'biom.exception.TableException', rule, ERR, '<module>',
                  'exception:%s' % kind, c,
                  'raises the library table error',
                  "kind '%s' does not raise biom.exception.TableException"
                  % kind)
        state = const_str(c.args[2]) if len(c.args) > 2 else \
            const_str(kwarg(c, 'state') or ast.Constant(None))
        want = 'ignore' if kind == 'empty' else 'raise'
        col.check(state == want, rule, ERR, '<module>',
                  'default:%s' % kind, c,
                  "default reaction '%s'" % want,
                  "default reaction of '%s' is %r, documented/required "
                  "default is '%s' (malformed input would no longer be "
                  "rejected)" % (kind, state, want))
        tf = c.args[3] if len(c.args) > 3 else kwarg(c, 'test')
        tname = dotted(tf) if tf is not None else None
        if tname is None or not repo.has_func(ERR, tname):
            col.unknown(rule, ERR, '<module>', 'test:%s' % kind, c,
                        'test function not resolved')
            continue
        col.check(tname not in seen_tests, rule, ERR, '<module>',
                  'test-distinct:%s' % kind, c,
                  'own test function %s' % tname,
                  'shares test function %s with kind %s'
                  % (tname, seen_tests.get(tname)))
        seen_tests[tname] = kind
        _check_test_function(repo, col, kind, tname)


def _check_test_function(repo, col, kind, tname):
    """AX-SHAPE for the err tests: obs* kinds compare shape[0] with the
    observation axis, samp* kinds shape[1] with the sample axis; dup kinds
    measure a set; mdsize kinds measure the metadata."""
    rule = 'AX-SHAPE'
    from .normalize import simplify_pure_function
    try:
        f = simplify_pure_function(repo.func(ERR, tname), repo.mod(ERR).tree)
    except Exception:
        f = repo.func(ERR, tname)
    if kind == 'empty':
        calls = [call_name(c) for c in body_walk(f)
                 if isinstance(c, ast.Call)]
        col.check(any(c and c.endswith('.is_empty') for c in calls), rule,
                  ERR, tname, 'empty', f, 'delegates to is_empty()',
                  'empty test does not consult is_empty()')
        return
    want_axis = 'observation' if kind.startswith('obs') else 'sample'
    want_dim = 0 if want_axis == 'observation' else 1
    t = param_names(f)[0]
    dims, axes = set(), set()
    uses_set, uses_md, uses_ids = False, False, False
    for n in body_walk(f):
        if isinstance(n, ast.Subscript) and \
                dotted(n.value) == '%s.shape' % t and \
                isinstance(n.slice, ast.Constant):
            dims.add(n.slice.value)
        if isinstance(n, ast.Call):
            cn = call_name(n)
            if cn in ('%s.ids' % t, '%s.metadata' % t):
                ax = kwarg(n, 'axis') or (n.args[-1] if n.args else None)
                axv = const_str(ax) if ax is not None else None
                if axv is None and ax is None:
                    # default axis read from the callee's signature
                    axv = _default_axis(repo, cn.split('.')[-1])
                axes.add(axv)
                if cn.endswith('.ids'):
                    uses_ids = True
                else:
                    uses_md = True
            if cn == 'set':
                uses_set = True
    ok = dims == {want_dim} and axes == {want_axis}
    col.check(ok, rule, ERR, tname, 'axis:%s' % kind, f,
              'compares shape[%d] with the %s axis' % (want_dim, want_axis),
              'kind %s: dimensions %s / axes %s, expected shape[%d] vs %s'
              % (kind, sorted(dims), sorted(str(a) for a in axes), want_dim,
                 want_axis))
    if kind.endswith('dup'):
        col.check(uses_set and uses_ids, rule, ERR, tname,
                  'measure:%s' % kind, f, 'counts distinct ids (set)',
                  'duplicate test does not count distinct ids')
    elif kind.endswith('mdsize'):
        col.check(uses_md, rule, ERR, tname, 'measure:%s' % kind, f,
                  'measures the metadata', 'does not measure the metadata')
    else:
        col.check(uses_ids and not uses_set, rule, ERR, tname,
                  'measure:%s' % kind, f, 'counts ids',
                  'size test does not count the ids')
    # the comparison must be an inequality
    cmps = [n for n in body_walk(f) if isinstance(n, ast.Compare)]
    col.check(any(isinstance(c.ops[0], ast.NotEq) for c in cmps), rule, ERR,
              tname, 'cmp:%s' % kind, cmps[0] if cmps else f,
              'reports a mismatch (!=)', 'no != comparison')


def _default_axis(repo, meth):
    from .astutil import param_default
    try:
        f = repo.func('biom/table.py', 'Table.%s' % meth)
    except AnalysisError:
        return None
    d = param_default(f, 'axis')
    return const_str(d) if d is not None else None


RULE_TEXT = {
    'OR-FINALLY': rule_or_finally.__doc__,
    'OR-ATOMIC': rule_or_atomic.__doc__,
    'OR-REFUSEKIND': rule_refuse_unknown.__doc__,
    'EF-STATE': rule_ef_state.__doc__,
    'AG-ERRSTATES': 'keys of the reaction table = _valid_states = the five '
                    'documented reactions',
    'AG-REACTIONS': 'each reaction name is bound to its documented effect '
                    '(warn->warnings.warn, print->stdout.write, '
                    'raise->exception(msg), call->callback, ignore->None)',
    'OR-PROPAGATE': rule_propagation.__doc__,
    'AG-ERRKINDS': rule_ag_errkinds.__doc__,
    'AX-SHAPE': 'shape[0] <-> observation axis, shape[1] <-> sample axis '
                'wherever a dimension meets an axis-typed collection',
}
